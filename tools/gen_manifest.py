#!/usr/bin/env python3
"""Regenerates /verif/MANIFEST.json (kept in one place so that it stays consistent)."""
import json, subprocess, sys

HOOK_COMMITS = ["eaeb02c"]
NA = {
 "C01":"Pure function parse_program(text): no schedule, clock, state, peer or fault can change its result; deciding it needs a reference grammar and differential testing, which is a different technique family (DESIGN.md §2, §4).",
 "C02":"Pure function analyze(libraries) of the program text; needs an independent reference analyzer (differential testing). Its only environment-dependent aspect, run/order dependence of the verdict, is C06.",
 "C04":"Statement about pure functions over arbitrary bytes (fuzzing territory); no interleaving, timer or fault is involved. Crashes met inside simulated worlds are reported under C12/C13/C14 whose statements include survival.",
 "C05":"Pure function of one source text (token tiling, identifier spans); needs an independent lexer as reference, not a simulator.",
 "C07":"Pure function of the declaration graph; exhaustive small-graph enumeration is model checking/testing, not simulation. Order-dependence of the cycle check is covered by C06.",
 "C08":"Pure function of the source text (metamorphic input rewriting); no environment choice is involved.",
 "C09":"Pure function of a literal's spelling (boundary-value testing); nothing for a scheduler or fault injector to decide.",
 "C10":"Pure function composition parse∘render∘parse; no state, order or fault involved.",
}
CHECKS = {
 "C03": dict(cat="exploration", ref="§4 C03", technique="deterministic simulation: seeded scheduler over file-set compositions (company, placement, argv/readdir order, hash seed) on a tmpfs disk; metamorphic oracle against the alone-run",
   text="Seeded exploration of compositions of a compilation set around a faulty file: the faulty file alone is the reference run; the same file in scheduler-chosen company (0-4 valid files, up to 8 declarations, name reuse; one variant in eight with 6-17 more files; files present only as symbolic links; file names that are not valid UTF-8; an earlier run on the accompanying files alone followed by the faulty file twice), placement, argument/discovery order, hash seed and entry point (cli::check and the Project API) must still fail and re-report its non-curable codes at the same place. Sampling, not enumeration.",
   note="Trusts the analyzer's own verdict on the faulty file alone as reference (worlds whose faulty file does not fail alone are discarded and counted as trivial); name clashes are only required to fail, not to produce a particular code."),
 "C06": dict(cat="exploration", ref="§4 C06", technique="deterministic simulation: seeded scheduler over declaration permutation, file partition, argv/readdir order and OS randomness (hash iteration order via a getrandom seam); metamorphic oracle across variants of one world",
   text="Each run realises one generated world in 10-24 variants chosen by the scheduler (declaration permutation x partition into <=3 files x argv list/directory/mixture x readdir permutation x hash seed x entry point, plus repeats differing only in OS randomness, mixed stored encodings, files present only as symbolic links, 9-20 file sets, runs from inside the disk with relative arguments, and a preceding run on the same-size repaired set whose leftovers in the temporary directory survive) and demands the same verdict everywhere and, for single-fault worlds, the same code at the same declaration-relative location. One seed = one exactly repeatable execution; failures are minimised and replayed from a trace file.",
   note="Hash iteration order is controlled by interposing getrandom (self-checked on every start); location is compared only when the canonical run places it inside the planted fault; faults made of two declarations may be reported at either one."),
 "C11": dict(cat="exploration", ref="§4 C11", technique="deterministic simulation: real server thread driven in capacity-0 lockstep by a simulated editor, with crash/restart, duplicated delivery and seeded hash order; per-step comparison with a fresh-server reference model and with the real cli::check",
   text="All notification histories of length <=3 (quick) / <=4 (thorough) over 2 URIs x 5 document classes x {didOpen, didChange} are enumerated, plus random histories up to length 40 with crash/restart, duplicate delivery, multi-change notifications, workspace folders (also with unreadable entries), files written and removed on disk between messages, a document named through a symbolic link, ranged edits when the server advertises incremental synchronisation. After every step: exactly one publishDiagnostics(uri, version); equality with a freshly started server holding the current contents; agreement of codes and start positions with cli::check on the same contents.",
   note="The fresh server and cli::check are the same code base (differential against itself under a different history/entry point), so an error common to all three is not seen (e.g. the masked parse error of DESIGN §8 row 1 is invisible to C11); 'exactly one publishDiagnostics' counts the publishes for the notified document, other server output is not constrained; for non-ASCII documents a publish is accepted iff its start positions agree with check in ONE unit (characters, UTF-16 units or bytes) used for all of its diagnostics. Every server incarnation (before/after a simulated crash, every fresh reference server) is a forked process of its own."),
 "C12": dict(cat="fault_enumeration", ref="§4 C12", technique="deterministic simulation with protocol fault injection: seeded random message histories (unknown methods, requests named like notifications and vice versa, client responses, empty/multiple content changes, odd URIs, duplicated delivery, ten shapes of the initialize request, unreadable workspace entries) against the real server thread in lockstep; protocol monitor over the recorded history",
   text="Every protocol fault kind of the quantifier is injected (each with a fired-counter in the evidence, swarm-enabled per run) into histories of up to 60 messages; the monitor checks exactly-once responses with the right id, no response to notifications or client responses, liveness after every step, a served recovery probe after the last fault, and Ok(()) (exit status 0) after shutdown + exit.",
   note="The stdio framing threads are replaced by in-memory capacity-0 channels; lsp-server's real-time 30 s exit timeout is never allowed to elapse; real time passes only in rare pause events (3.5 s quick, up to 11 s thorough), so idle timers longer than that are not exercised; malformed params are outside the quantifier."),
 "C13": dict(cat="fault_enumeration", ref="§4 C13", technique="deterministic simulation with storage fault injection: real cli::check/echo/tokenize on a tmpfs disk where a seeded storage actor vanishes, replaces, truncates or rewrites paths at announced fs-points; agreement oracles over hook observations",
   text="Every fault kind (missing path, dangling symlink, symlink loop, empty directory, sub-directory, socket file, unreadable file / unreadable directory / unsearchable directory (real EACCES in a simulated process that has given up root), vanish / file<->dir swap / rewrite / truncate at each of the five fs-points) is injected into generated file sets given as files, directory or mixture in scheduler-chosen order; the run's Result, the OK probe and the diagnostics handed to the renderer must agree, directory == file list, echo/tokenize == per-file truth.",
   note="Exit status is the Result that main returns (a sampled cross-check of 150 fault-free and static-fault executions runs the shipped binary and compares real exit status, OK line and error[P…] codes); what is printed is read back from the captured stdout/stderr of every simulated process. A directory and its file list must agree on the verdict always and on the codes for valid and single-fault worlds. Fault-free layouts include files present only as symbolic links. Mid-read EIO and per-entry readdir errors cannot be produced on tmpfs; a FIFO in a directory (blocking read) is deliberately not generated."),
 "C14": dict(cat="fault_enumeration", ref="§4 C14", technique="deterministic simulation with storage fault injection: a storage actor chooses the stored encoding per file and corrupts stored bytes (bit flips, truncation inside multi-byte sequences/BOM, garbage, concurrent rewrite); twin-world and structural oracles",
   text="Twin worlds (same text, independently drawn encodings out of UTF-8, UTF-8+BOM, UTF-16LE/BE+BOM, Windows-1252) must give the same verdict, codes and line/column positions through cli::check and the Project API; after any storage fault the run returns a Result with every label inside the decoded text on a char boundary; all 256 byte values at four positions are swept completely.",
   note="Weakest fit of the technique: the encoding equivalence is input-space sampling carried by the storage actor; claimed because the stored representation and its corruption are environment choices. The ambiguous case where Windows-1252 bytes happen to be valid UTF-8 is skipped."),
 "C15": dict(cat="exploration", ref="§4 C15", technique="deterministic simulation: semanticTokens requests interleaved in seeded edit histories (with crash/restart) against the real server thread in lockstep; responses decoded and compared with the lexemes of the current text and with a fresh server",
   text="Random edit histories with interleaved semanticTokens/full requests over generated documents with the trivia kinds of the quantifier; every response is decoded under the relative encoding and must be a strictly increasing, non-overlapping cover of lexemes of the current text with the right length and (for comments, identifiers, punctuation operators) class; null iff the current text has a lexical error; equal to a fresh server's answer.",
   note="Lexeme boundaries and token kinds come from ironplc_parser::tokenize_program (trusted here; its correctness is C05, not claimed) except for one independent clause (text ending in VT / bare CR / NBSP / U+3000 must yield null); class clauses are implementation-neutral (comments, punctuation operators, definite keywords; identifiers may get any entry that is not another lexeme class; the word-operator family shares one entry); completeness is per token kind; for non-ASCII documents a response is accepted iff positions and lengths are exact in ONE unit (UTF-16, bytes or characters) used throughout; multi-line lexeme lengths are not compared."),
}

def main():
    built = sys.argv[1:]  # property ids with a working campaign
    checks = []
    for p in sorted(CHECKS):
        if p not in built:
            continue
        c = CHECKS[p]
        checks.append({
            "property_id": p,
            "quick_cmd": f"./check {p} quick",
            "thorough_cmd": f"./check {p} thorough",
            "evidence_file": f"/verif/evidence/{p}.json",
            "replay_cmd_template": "./check replay {path}",
            "engine": "simplc",
            "level_claimed": {"category": c["cat"], "text": c["text"], "design_ref": "DESIGN.md " + c["ref"]},
            "level_note": c["note"],
            "technique": c["technique"],
        })
    na = [{"property_id": k, "reason": v} for k, v in NA.items()]
    for p in sorted(CHECKS):
        if p not in built:
            na.append({"property_id": p, "reason": "campaign designed (DESIGN.md §4) but not built yet; not claimed until its check exists"})
    m = {
        "version": 1,
        "setup_cmd": "./check build",
        "hooks": {
            "guard": "cargo feature `verif` of crate ironplcc (compiler/plc2x), off by default",
            "enable": "the simulator crate /verif/sim depends on /repo/compiler/plc2x by path with features=[\"verif\"]; every ./check invocation runs cargo build --release --offline on it, which recompiles whatever changed under /repo",
            "baseline_off_cmd": "cd /repo/compiler && cargo test --workspace --no-fail-fast --offline",
            "source_commits": HOOK_COMMITS,
            "add_only": True,
        },
        "engines": [{"name": "simplc", "path": "/verif/sim", "serves_properties": [c["property_id"] for c in checks],
                     "kind_free_text": "seeded deterministic simulator: real ironplcc code on simulator-owned threads, capacity-0 lockstep LSP transport, seeded getrandom (hash order), tmpfs disk with storage-fault actor inside a chroot (identical paths in every process), explicit replayable and minimised traces"}],
        "checks": checks,
        "not_applicable": sorted(na, key=lambda x: x["property_id"]),
        "notes": "Exit codes: 0 property held on everything explored, 1 violation (VIOLATION line with replay file), 2 harness error. VERIF_SEED selects the campaign seed (default 1). Known findings: /verif/known_findings.json.",
    }
    json.dump(m, open("/verif/MANIFEST.json", "w"), indent=1, ensure_ascii=False)
    print("wrote MANIFEST.json with checks:", [c["property_id"] for c in checks])

main()
