#!/bin/bash
# Regression against false alarms: every property-preserving change must leave every check silent
# (except where meta.json says otherwise, e.g. C12-PB which contradicts C15's null clause).
set -u
export SIMPLC_OUT_DIR="${SIMPLC_OUT_DIR:-/tmp/simplc-sensitivity-out-$$}"
# The repository the change is applied to and the checks run against: /repo, or a scratch copy named
# by SIMPLC_REPO (e.g. the snapshot of `vp run --with-repo`), so that a long regression need not
# occupy /repo.  The machinery is the tree this script lives in.
HERE="$(cd "$(dirname "${BASH_SOURCE[0]}")/.." && pwd)"
REPO="${SIMPLC_REPO:-/repo}"
if [ "$REPO" != /repo ]; then export SIMPLC_REPO_WS="$REPO/compiler"; fi
cd "$HERE"
fail=0
for d in preserving/*/; do
  id=$(basename $d)
  # PRESERVING_SCOPE=near: only the checks of the change's own property and its two nearest
  # neighbours (same entry points) instead of all seven - a third of the time
  scope=""
  if [ "${PRESERVING_SCOPE:-all}" = near ]; then
    own=$(python3 -c "import json; print(json.load(open('$d/meta.json'))['property'])")
    case "$own" in
      C03) scope="C03 C06 C13";; C06) scope="C06 C03 C13";; C13) scope="C13 C03 C06";;
      C11) scope="C11 C12 C15";; C12) scope="C12 C11 C15";; C15) scope="C15 C12 C11";;
      C14) scope="C14 C13 C15";;
    esac
    # (checks that are expected to flag the change are always run)
    scope="$scope $(python3 -c "import json; print(' '.join(json.load(open('$d/meta.json')).get('expected_flags', [])))")"
  fi
  out=$(tools/run_preserving.sh $d $scope 2>&1)
  bad=$(echo "$out" | grep -E "exit=[12]|does not apply|refusing" | tr '\n' ' ')
  # checks that meta.json expects to flag this change (it breaks THAT property after all)
  expected=$(python3 -c "import json; print(' '.join(json.load(open('$d/meta.json')).get('expected_flags', [])))")
  unexpected=""
  for p in $(echo "$out" | grep -E "exit=[12]" | awk '{print $3}'); do
    case " $expected " in *" $p "*) ;; *) unexpected="$unexpected $p";; esac
  done
  if echo "$out" | grep -qE "does not apply|refusing"; then unexpected="$unexpected (patch)"; fi
  if [ -z "$bad" ]; then echo "silent   $id"
  elif [ -z "$unexpected" ]; then echo "flagged as expected  $id  ($expected)"
  else echo "FLAGGED  $id  $bad"; fail=1; fi
done
rm -rf "${SIMPLC_OUT_DIR:-/tmp/simplc-sensitivity-out}"
exit $fail
