#!/bin/bash
# Regression against false alarms: every property-preserving change must leave every check silent
# (except where meta.json says otherwise, e.g. C12-PB which contradicts C15's null clause).
set -u
export SIMPLC_OUT_DIR="${SIMPLC_OUT_DIR:-/tmp/simplc-sensitivity-out-$$}"
# The repository the change is applied to and the checks run against: /repo, or a scratch copy named
# by SIMPLC_REPO (e.g. the snapshot of `vp run --with-repo`), so that a long regression need not
# occupy /repo.  The machinery is the tree this script lives in.
HERE="$(cd "$(dirname "${BASH_SOURCE[0]}")/.." && pwd)"
REPO="${SIMPLC_REPO:-/repo}"
if [ "$REPO" != /repo ]; then export SIMPLC_REPO_WS="$REPO/compiler"; fi
cd "$HERE"
fail=0
for d in preserving/*/; do
  id=$(basename $d)
  out=$(tools/run_preserving.sh $d 2>&1)
  bad=$(echo "$out" | grep -E "exit=[12]|does not apply|refusing" | tr '\n' ' ')
  # checks that meta.json expects to flag this change (it breaks THAT property after all)
  expected=$(python3 -c "import json; print(' '.join(json.load(open('$d/meta.json')).get('expected_flags', [])))")
  unexpected=""
  for p in $(echo "$out" | grep -E "exit=[12]" | awk '{print $3}'); do
    case " $expected " in *" $p "*) ;; *) unexpected="$unexpected $p";; esac
  done
  if echo "$out" | grep -qE "does not apply|refusing"; then unexpected="$unexpected (patch)"; fi
  if [ -z "$bad" ]; then echo "silent   $id"
  elif [ -z "$unexpected" ]; then echo "flagged as expected  $id  ($expected)"
  else echo "FLAGGED  $id  $bad"; fail=1; fi
done
rm -rf "${SIMPLC_OUT_DIR:-/tmp/simplc-sensitivity-out}"
exit $fail
