#!/bin/bash
# Regression against false alarms: every property-preserving change must leave every check silent
# (except where meta.json says otherwise, e.g. C12-PB which contradicts C15's null clause).
set -u
cd /verif
fail=0
for d in preserving/*/; do
  id=$(basename $d)
  out=$(tools/run_preserving.sh $d 2>&1)
  bad=$(echo "$out" | grep -E "exit=[12]|does not apply|refusing" | tr '\n' ' ')
  if [ -z "$bad" ]; then echo "silent   $id"; else echo "FLAGGED  $id  $bad"; [ "$id" = "C12-PB" ] || fail=1; fi
done
rm -rf "${SIMPLC_OUT_DIR:-/tmp/simplc-sensitivity-out}"
exit $fail
