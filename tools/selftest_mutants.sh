#!/bin/bash
# Sensitivity self-test: every reverse patch of a fix must be caught by the listed checks.
set -u
# The repository the change is applied to and the checks run against: /repo, or a scratch copy named
# by SIMPLC_REPO (e.g. the snapshot of `vp run --with-repo`), so that a long regression need not
# occupy /repo.  The machinery is the tree this script lives in.
HERE="$(cd "$(dirname "${BASH_SOURCE[0]}")/.." && pwd)"
REPO="${SIMPLC_REPO:-/repo}"
if [ "$REPO" != /repo ]; then export SIMPLC_REPO_WS="$REPO/compiler"; fi
# evidence and replay files of runs against a deliberately broken tree go to a scratch directory
export SIMPLC_OUT_DIR="${SIMPLC_OUT_DIR:-/tmp/simplc-sensitivity-out}"
mkdir -p "$SIMPLC_OUT_DIR"
cd "$HERE"
# keys: revert-<fix commit> = reverse patch of a fix; selfmade-* = a change written by the author of the
# machinery to prove that a seam is live (not independent evidence, unlike /verif/seeded)
declare -A EXPECT=(
 [selfmade-decoded-text-cache]="C06 C13"
 [55b4b2a]="C03" [b7fec6b]="C06"
 [1ac9947]="C06 C03" [474d91c]="C06 C03" [b5b971c]="C12" [c217e1a]="C12" [201f5d4]="C12 C11"
 [3a03e34]="C11" [cbe05b4]="C06" [14b7e1d]="C06" [2fe554b]="C14" [ff78c38]="C15" [e11cc0a]="C15" [a7715b3]="C15" [f3e5ca9]="C15" [d78f1f5]="C15" [ddb7fb4]="C13"
)
fail=0
for c in "${!EXPECT[@]}"; do
  if ! git -C "$REPO" diff --quiet; then echo "selftest: $REPO dirty" >&2; exit 2; fi
  case "$c" in selfmade-*) f="$HERE/mutants/$c.diff";; *) f="$HERE/mutants/revert-$c.diff";; esac
  git -C "$REPO" apply "$f" || { echo "selftest: $f does not apply"; fail=1; continue; }
  for p in ${EXPECT[$c]}; do
    out=$(./check $p quick 2>&1); code=$?
    if [ $code = 1 ]; then
      f=$(echo "$out" | grep '^VIOLATION' | head -1 | sed 's/.*replay=//')
      if ./check replay "$f" 2>&1 | grep -q '^VIOLATION'; then echo "caught+replayed: revert-$c by $p"; else echo "CAUGHT BUT REPLAY FAILED: revert-$c by $p"; fail=1; fi
    else
      echo "MISSED: revert-$c by $p (exit $code)"; fail=1
    fi
  done
  git -C "$REPO" checkout -- .
done
rm -rf "$SIMPLC_OUT_DIR"
exit $fail
