#!/usr/bin/env python3
"""usage: import_mutant.py <root> <PROP> <X> <new-id> <what> <needs>  — copies a confirmed sub-agent change into /verif/seeded/<new-id>/"""
import os, shutil, json, glob, sys, subprocess
root, P, X, nid, what, needs = sys.argv[1:7]
src=f"{root}/{P}/MUTANTS/{X}"; dst=f"/verif/seeded/{nid}"
os.makedirs(dst,exist_ok=True)
shutil.copy(f"{src}/patch.diff",dst)
for d in glob.glob(f"{src}/demo.*"): shutil.copy(d,dst)
shutil.copy(f"{src}/README.md",f"{dst}/AGENT_README.md")
head=subprocess.check_output(['git','-C',f'{root}/{P}','log','--format=%h','-1']).decode().strip()
json.dump({"id":nid,"property":P,"what":what,"needs_to_manifest":needs,
  "author":f"independent sub-agent, round {os.environ.get('ROUND','9')} (saw only the property text, a list of earlier ideas to avoid, and a scratch worktree of /repo at {head})",
  "confirmed":{"worktree":f"{root}/{P} (scratch, removed afterwards)","tests_with_change":"149 passed 0 failed (cargo test --workspace --no-fail-fast --offline)","demo_with_change_exit":1,"demo_without_change_exit":0,"how":"tools/confirm_mutant.sh"},
  "caught_by": []}, open(f"{dst}/meta.json","w"), indent=1)
print("imported", nid)
