#!/bin/bash
# usage: tools/confirm_preserving.sh <PROP> <A|B|C> [root]  — confirms a sub-agent's property-PRESERVING
# change in its scratch worktree: the test suite passes with it, its demo exits 0 with and without it.
set -u
R=${3:-/tmp/mut10}; P=$1; X=$2; W=$R/$P; M=$W/CHANGES/$X
export CARGO_NET_OFFLINE=true
cd $W || exit 2
git diff --quiet || { echo "worktree dirty"; exit 2; }
demo=$(ls $M/demo.* | head -1)
run_demo() { case "$demo" in *.py) python3 "$demo" $W/compiler;; *) bash "$demo" $W/compiler;; esac; }
git apply $M/patch.diff || { echo "patch does not apply"; exit 2; }
tests=$(cd compiler && cargo test --workspace --no-fail-fast --offline 2>&1 | grep -E "^test result" | awk '{p+=$4; f+=$6} END {print p" passed "f" failed"}')
(cd compiler && cargo build -p ironplcc --offline >/dev/null 2>&1)
run_demo >$R/demo_with.log 2>&1; with=$?
git apply -R $M/patch.diff; git clean -fdq compiler
(cd compiler && cargo build -p ironplcc --offline >/dev/null 2>&1)
run_demo >$R/demo_without.log 2>&1; without=$?
echo "$P-$X: tests with change: $tests; demo with change exit=$with; demo without change exit=$without"
