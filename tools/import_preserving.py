#!/usr/bin/env python3
"""usage: import_preserving.py <root> <PROP> <X> <new-id> <what>  — copies a confirmed property-preserving change into /verif/preserving/<new-id>/"""
import os, shutil, json, glob, sys
root, P, X, nid, what = sys.argv[1:6]
src=f"{root}/{P}/CHANGES/{X}"; dst=f"/verif/preserving/{nid}"
os.makedirs(dst,exist_ok=True)
shutil.copy(f"{src}/patch.diff",dst)
for d in glob.glob(f"{src}/demo.*"): shutil.copy(d,dst)
shutil.copy(f"{src}/README.md",f"{dst}/AGENT_README.md")
json.dump({"id":nid,"property":P,"what":what,
  "author":f"independent sub-agent (round {os.environ.get('ROUND','10')}: property-PRESERVING changes)",
  "expected":"every check stays silent","result":[]}, open(f"{dst}/meta.json","w"), indent=1)
print("imported", nid)
