#!/bin/bash
# usage: tools/run_seeded.sh <seeded-dir> [PROP ...]
# Applies /verif/seeded/<id>/patch.diff to /repo, runs the quick check of the given properties
# (default: the property named in meta.json), prints the outcome, and always reverts /repo.
set -u
# The repository the change is applied to and the checks run against: /repo, or a scratch copy named
# by SIMPLC_REPO (e.g. the snapshot of `vp run --with-repo`), so that a long regression need not
# occupy /repo.  The machinery is the tree this script lives in.
HERE="$(cd "$(dirname "${BASH_SOURCE[0]}")/.." && pwd)"
REPO="${SIMPLC_REPO:-/repo}"
if [ "$REPO" != /repo ]; then export SIMPLC_REPO_WS="$REPO/compiler"; fi
# evidence and replay files of runs against a deliberately broken tree go to a scratch directory
export SIMPLC_OUT_DIR="${SIMPLC_OUT_DIR:-/tmp/simplc-sensitivity-out}"
mkdir -p "$SIMPLC_OUT_DIR"
D="$(cd "$1" && pwd)"; shift
cd "$HERE"
PROPS="$*"
if [ -z "$PROPS" ]; then PROPS=$(python3 -c "import json,sys; print(json.load(open('$D/meta.json'))['property'])"); fi
if ! git -C "$REPO" diff --quiet; then echo "run_seeded: $REPO has uncommitted changes, refusing" >&2; exit 2; fi
if ! git -C "$REPO" apply "$D/patch.diff"; then echo "run_seeded: patch does not apply" >&2; exit 2; fi
trap 'git -C "$REPO" checkout -- . >/dev/null 2>&1; git -C "$REPO" clean -fdq >/dev/null 2>&1' EXIT
for p in $PROPS; do
  out=$(./check "$p" quick 2>&1); code=$?
  nviol=$(echo "$out" | grep -c '^VIOLATION')
  echo "== $D $p exit=$code violations=$nviol"
  echo "$out" | grep -E '^VIOLATION|signature:' | head -8
  if [ "$code" = 1 ]; then
    # replay the first replay file in a fresh process: it must reproduce
    f=$(echo "$out" | grep '^VIOLATION' | head -1 | sed 's/.*replay=//')
    r=$(./check replay "$f" 2>&1 | head -1)
    echo "   replay: $r"
  fi
done
