#!/bin/bash
# Regression of the machinery's sensitivity: every seeded change must be caught by the quick
# check of its property and its replay must reproduce.  Prints one line per change.
set -u
cd /verif
fail=0
for d in seeded/*/; do  # (C11-D was reclassified and lives in preserving/C11-PD)
  id=$(basename $d)
  out=$(tools/run_seeded.sh $d 2>&1)
  if echo "$out" | grep -q "exit=1" && echo "$out" | grep -q "replay: VIOLATION"; then
    echo "caught+replayed  $id  $(echo "$out" | grep 'signature:' | head -1 | sed 's/ *signature: //')"
  else
    echo "MISSED           $id  $(echo "$out" | grep '^==' | head -1)"
    fail=1
  fi
done
rm -rf "${SIMPLC_OUT_DIR:-/tmp/simplc-sensitivity-out}"
exit $fail
