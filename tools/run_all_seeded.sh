#!/bin/bash
# Regression of the machinery's sensitivity: every seeded change must be caught by the quick
# check of its property and its replay must reproduce.  Prints one line per change.
set -u
export SIMPLC_OUT_DIR="${SIMPLC_OUT_DIR:-/tmp/simplc-sensitivity-out-$$}"
# The repository the change is applied to and the checks run against: /repo, or a scratch copy named
# by SIMPLC_REPO (e.g. the snapshot of `vp run --with-repo`), so that a long regression need not
# occupy /repo.  The machinery is the tree this script lives in.
HERE="$(cd "$(dirname "${BASH_SOURCE[0]}")/.." && pwd)"
REPO="${SIMPLC_REPO:-/repo}"
if [ "$REPO" != /repo ]; then export SIMPLC_REPO_WS="$REPO/compiler"; fi
cd "$HERE"
fail=0
for d in seeded/*/; do  # (C11-D was reclassified and lives in preserving/C11-PD)
  id=$(basename $d)
  out=$(tools/run_seeded.sh $d 2>&1)
  if echo "$out" | grep -q "exit=1" && echo "$out" | grep -q "replay: VIOLATION"; then
    echo "caught+replayed  $id  $(echo "$out" | grep 'signature:' | head -1 | sed 's/ *signature: //')"
  else
    echo "MISSED           $id  $(echo "$out" | grep '^==' | head -1)"
    fail=1
  fi
done
rm -rf "${SIMPLC_OUT_DIR:-/tmp/simplc-sensitivity-out}"
exit $fail
