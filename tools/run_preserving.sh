#!/bin/bash
# usage: tools/run_preserving.sh <dir with patch.diff> [PROP ...]
# Applies a property-PRESERVING change to /repo and runs the quick checks: every check must stay
# silent (exit 0).  A VIOLATION here is a false alarm of the machinery (or the change does not
# preserve the property after all).  Always reverts /repo.
set -u
# The repository the change is applied to and the checks run against: /repo, or a scratch copy named
# by SIMPLC_REPO (e.g. the snapshot of `vp run --with-repo`), so that a long regression need not
# occupy /repo.  The machinery is the tree this script lives in.
HERE="$(cd "$(dirname "${BASH_SOURCE[0]}")/.." && pwd)"
REPO="${SIMPLC_REPO:-/repo}"
if [ "$REPO" != /repo ]; then export SIMPLC_REPO_WS="$REPO/compiler"; fi
export SIMPLC_OUT_DIR="${SIMPLC_OUT_DIR:-/tmp/simplc-sensitivity-out}"
mkdir -p "$SIMPLC_OUT_DIR"
D="$(cd "$1" && pwd)"; shift
cd "$HERE"
PROPS="${*:-C03 C06 C11 C12 C13 C14 C15}"
if ! git -C "$REPO" diff --quiet; then echo "run_preserving: $REPO has uncommitted changes, refusing" >&2; exit 2; fi
if ! git -C "$REPO" apply "$D/patch.diff"; then echo "run_preserving: patch does not apply" >&2; exit 2; fi
trap 'git -C "$REPO" checkout -- . >/dev/null 2>&1; git -C "$REPO" clean -fdq >/dev/null 2>&1' EXIT
for p in $PROPS; do
  out=$(./check "$p" quick 2>&1); code=$?
  echo "== $(basename $D) $p exit=$code"
  echo "$out" | grep -E 'signature:|detail:|harness error' | head -6 | cut -c1-400
done
