//! simplc — deterministic simulation with fault injection for ironplc.
//!
//! `simplc run <PROP> <quick|thorough>`   seeded campaign (driver + one worker process per core)
//! `simplc replay <file>`                 re-executes a replay file in a fresh process
//! `simplc selftest-determinism <PROP>`   every run twice, under two worker counts, logs diffed

mod campaign;
mod driver;
mod lsp;
mod lsp_oracles;
mod pool;
mod proc_check;
mod prng;
mod seam;
mod world;
mod world_oracles;

fn usage() -> ! {
    eprintln!("usage: simplc run <PROP> <quick|thorough> | replay <file> | selftest-determinism <PROP> | worker ... | dump <PROP> <run-index>");
    std::process::exit(2)
}

fn main() {
    let args: Vec<String> = std::env::args().collect();
    if args.len() < 2 {
        usage();
    }
    let code = match args[1].as_str() {
        "run" if args.len() >= 4 => driver::run(&args[2], &args[3], &args[4..]),
        "worker" => driver::worker_main(&args[2..]),
        "replay" if args.len() >= 3 => driver::replay(&args[2]),
        "replay-worker" if args.len() >= 3 => driver::replay_worker(&args[2]),
        "selftest-determinism" if args.len() >= 3 => driver::selftest_determinism(&args[2], &args[3..]),
        "bench-fork" => {
            let t = std::time::Instant::now();
            for i in 0..2000u32 {
                let _ = seam::run_forked(move || i);
            }
            println!("2000 forks of a bare process: {:?} per fork", t.elapsed() / 2000);
            let t = std::time::Instant::now();
            for i in 0..2000u32 {
                let _ = seam::run_forked(move || seam::run_simulated_process(1, None, move || i).unwrap_or(0));
            }
            println!("2000 forks + thread: {:?} per fork", t.elapsed() / 2000);
            0
        }
        "observe" if args.len() >= 4 => driver::observe(&args[2], args[3].parse().unwrap_or(0)),
        "observe-worker" if args.len() >= 6 => driver::observe_worker(&args[2], &args[3], args[4].parse().unwrap_or(0), args[5].parse().unwrap_or(1)),
        "dump" if args.len() >= 4 => driver::dump(&args[2], args[3].parse().unwrap_or(0)),
        _ => usage(),
    };
    std::process::exit(code);
}
