//! Common vocabulary of all campaigns: traces, violations, statistics, minimisation.

use std::collections::{BTreeMap, BTreeSet};

use serde::{Deserialize, Serialize};

use crate::{lsp::LspTrace, prng::hash_str, world::WorldTrace};

#[derive(Clone, Debug, Serialize, Deserialize, PartialEq)]
pub enum Trace {
    World(WorldTrace),
    Lsp(LspTrace),
}

impl Trace {
    pub fn hash(&self) -> u64 {
        hash_str(&serde_json::to_string(self).unwrap())
    }
    pub fn prop(&self) -> &str {
        match self {
            Trace::World(w) => &w.prop,
            Trace::Lsp(l) => &l.prop,
        }
    }
}

#[derive(Clone, Debug, Serialize, Deserialize, PartialEq)]
pub struct Violation {
    pub property: String,
    /// stable identification of *what* fails (oracle clause + distinguishing facts)
    pub signature: String,
    pub detail: String,
}

#[derive(Clone, Debug, Default, Serialize, Deserialize)]
pub struct Stats {
    pub counters: BTreeMap<String, u64>,
    pub sets: BTreeMap<String, BTreeSet<u64>>,
    /// running digest of every observation of the current run (determinism self-test)
    #[serde(default)]
    pub digest: u64,
}

impl Stats {
    pub fn count(&mut self, name: &str) {
        self.add(name, 1);
    }
    pub fn add(&mut self, name: &str, n: u64) {
        *self.counters.entry(name.to_string()).or_insert(0) += n;
    }
    pub fn distinct(&mut self, set: &str, value: u64) {
        self.sets.entry(set.to_string()).or_default().insert(value);
    }
    pub fn distinct_str(&mut self, set: &str, value: &str) {
        self.distinct(set, hash_str(value));
    }
    pub fn merge(&mut self, other: &Stats) {
        for (k, v) in &other.counters {
            *self.counters.entry(k.clone()).or_insert(0) += v;
        }
        for (k, v) in &other.sets {
            self.sets.entry(k.clone()).or_default().extend(v.iter().copied());
        }
    }
    pub fn observe<T: Serialize>(&mut self, value: &T) {
        self.digest = crate::prng::mix(&[self.digest, hash_str(&serde_json::to_string(value).unwrap())]);
    }
    pub fn get(&self, name: &str) -> u64 {
        self.counters.get(name).copied().unwrap_or(0)
    }
    pub fn set_len(&self, name: &str) -> u64 {
        self.sets.get(name).map(|s| s.len() as u64).unwrap_or(0)
    }
}

#[derive(Serialize, Deserialize)]
pub struct RunReport {
    pub violations: Vec<Violation>,
    /// fault-free executions that can be cross-checked against the shipped binary
    pub proc_cases: Vec<crate::proc_check::ProcCase>,
    /// the run exercised the property (by the campaign's stated rule)
    pub nontrivial: bool,
}

/// Executes a trace against the real code and evaluates the oracles of its property.
pub fn execute(trace: &Trace, stats: &mut Stats) -> RunReport {
    match trace {
        Trace::World(w) => crate::world_oracles::execute(w, stats),
        // A whole language-server run (the history, the fresh reference servers and the `check`
        // runs of its oracles) executes in one forked child of the worker: process-global state that
        // the code under test may keep cannot leak from one run into the next, so a violation
        // replays in a fresh process. (Within one run the servers are threads of that child.)
        Trace::Lsp(l) => {
            let l2 = l.clone();
            let forked = crate::seam::run_forked(move || {
                let mut st = Stats::default();
                let rep = crate::lsp_oracles::execute(&l2, &mut st);
                (rep, st)
            });
            match forked {
                Ok((rep, st)) => {
                    stats.merge(&st);
                    stats.digest = crate::prng::mix(&[stats.digest, st.digest]);
                    rep
                }
                // a panic of the simulator's own code is a harness error (exit 2), not a finding
                Err(why) => RunReport {
                    violations: vec![Violation { property: l.prop.clone(), signature: if why.starts_with("harness panic") { format!("{}/harness-error", l.prop) } else { format!("{}/run-process-died", l.prop) }, detail: why }],
                    nontrivial: true,
                    proc_cases: vec![],
                },
            }
        }
    }
}

pub fn shrink_candidates(trace: &Trace) -> Vec<Trace> {
    match trace {
        Trace::World(w) => crate::world_oracles::shrink(w).into_iter().map(Trace::World).collect(),
        Trace::Lsp(l) => crate::lsp_oracles::shrink(l).into_iter().map(Trace::Lsp).collect(),
    }
}

/// Delta-debugging style minimisation: accept a smaller trace iff the same property and
/// signature recur. Returns the minimised trace and the number of executions spent.
pub fn minimise(trace: &Trace, target: &Violation, budget: usize) -> (Trace, Violation, usize) {
    let mut best = trace.clone();
    let mut best_violation = target.clone();
    let mut spent = 0;
    let mut scratch = Stats::default();
    'outer: loop {
        for cand in shrink_candidates(&best) {
            if spent >= budget {
                break 'outer;
            }
            spent += 1;
            let rep = execute(&cand, &mut scratch);
            if let Some(v) = rep.violations.iter().find(|v| v.property == target.property && v.signature == target.signature) {
                best = cand;
                best_violation = v.clone();
                continue 'outer;
            }
        }
        break;
    }
    (best, best_violation, spent)
}

#[derive(Clone, Debug, Serialize, Deserialize)]
pub struct ReplayFile {
    pub property: String,
    pub signature: String,
    pub detail: String,
    pub seed: u64,
    pub run_index: u64,
    pub run_seed: u64,
    pub minimised: bool,
    pub minimise_executions: usize,
    pub trace: Trace,
    pub original_trace: Option<Trace>,
    /// set for process-level mismatches: the case to run against the shipped binary
    #[serde(default)]
    pub proc_case: Option<crate::proc_check::ProcCase>,
}
