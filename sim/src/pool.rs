//! Workload: worlds of top-level IEC 61131-3 declarations with deliberate cross references,
//! and fault modules. The pool is a workload, not an oracle: nothing here says which problem
//! code the analyzer must report.

use serde::{Deserialize, Serialize};

use crate::prng::Rng;

#[derive(Clone, Debug, Serialize, Deserialize, PartialEq)]
pub struct Decl {
    /// one complete top-level element (a TYPE block holding one type, a POU, a configuration),
    /// ending in a line break
    pub text: String,
    pub kind: String,
    pub name: String,
}

#[derive(Clone, Debug, Serialize, Deserialize, PartialEq)]
pub struct FaultInfo {
    pub kind: String,
    /// indices into `decls` of the declarations that make up the fault
    pub involved: Vec<usize>,
    /// true when the fault needs no declaration outside `involved` to be a fault
    pub standalone: bool,
}

#[derive(Clone, Debug, Serialize, Deserialize, PartialEq)]
pub struct World {
    pub decls: Vec<Decl>,
    pub fault: Option<FaultInfo>,
}

#[derive(Default)]
struct Names {
    enums: Vec<(String, Vec<String>)>,
    aliases: Vec<(String, usize)>, // alias name -> enum index
    subranges: Vec<String>,
    structs: Vec<String>,
    arrays: Vec<String>,
    fbs: Vec<(String, bool)>, // name, has input i1
    functions: Vec<String>,
    programs: Vec<String>,
    globals: Vec<String>,
    has_config: bool,
    counter: usize,
    /// an unterminated comment swallows text up to the next `*)`, so worlds that plant one
    /// contain no other comment (otherwise declarations would not be independent text blocks)
    no_comments: bool,
}

/// Re-spells an identifier with another letter case now and then (identifiers are case
/// insensitive in IEC 61131-3).
fn respell(rng: &mut Rng, name: &str) -> String {
    match rng.below(8) {
        0 => name.to_lowercase(),
        1 => name.to_uppercase(),
        _ => name.to_string(),
    }
}

fn trivia(rng: &mut Rng, n: &Names) -> &'static str {
    if n.no_comments {
        return "";
    }
    match rng.below(12) {
        0 => "(* note *)\n",
        1 => "  (* a\n multi-line\n comment *)\n",
        2 => "\n",
        // banner comments: nothing but stars between the delimiters, odd and even counts
        3 => "(***)\n",
        4 => "(*****)  (****)\n",
        _ => "",
    }
}

impl Names {
    fn fresh(&mut self) -> usize {
        self.counter += 1;
        self.counter
    }
}

fn decl(kind: &str, name: &str, text: String) -> Decl {
    Decl { text, kind: kind.to_string(), name: name.to_string() }
}

fn gen_enum(rng: &mut Rng, n: &mut Names) -> Decl {
    let k = n.fresh();
    let name = format!("En{k}");
    let count = rng.range(2, 4);
    let mut vals: Vec<String> = (0..count).map(|i| format!("V{k}_{i}")).collect();
    if rng.chance(1, 3) {
        // a value name that other enumerations use as well (legal: the type disambiguates)
        vals.push("SHARED_OFF".to_string());
    }
    let init = if rng.chance(1, 2) { format!(" := {}", respell(rng, &vals[0])) } else { String::new() };
    let text = format!("TYPE\n  {name} : ({}){init};\nEND_TYPE\n", vals.join(", "));
    n.enums.push((name.clone(), vals));
    decl("enum", &name, text)
}

fn gen_alias(rng: &mut Rng, n: &mut Names) -> Option<Decl> {
    if n.enums.is_empty() {
        return None;
    }
    let k = n.fresh();
    let name = format!("Al{k}");
    // an alias of an enumeration or of another alias (chains of late-bound declarations)
    let (ei, target) = if !n.aliases.is_empty() && rng.chance(1, 2) {
        let (a, ei) = rng.pick(&n.aliases).clone();
        (ei, a)
    } else {
        let ei = rng.below(n.enums.len());
        (ei, n.enums[ei].0.clone())
    };
    let target = respell(rng, &target);
    let text = format!("TYPE\n  {name} : {target};\nEND_TYPE\n");
    n.aliases.push((name.clone(), ei));
    Some(decl("alias", &name, text))
}

fn gen_subrange(rng: &mut Rng, n: &mut Names) -> Decl {
    let k = n.fresh();
    let name = format!("Sr{k}");
    let lo = rng.below(5);
    let hi = lo + 1 + rng.below(50);
    let base = *rng.pick(&["INT", "UINT", "DINT", "SINT"]);
    let text = format!("TYPE\n  {name} : {base} ({lo}..{hi});\nEND_TYPE\n");
    n.subranges.push(name.clone());
    decl("subrange", &name, text)
}

/// A type usable for a variable or a structure element: (spelling, optional initial value)
fn var_type(rng: &mut Rng, n: &Names, allow_struct: bool) -> (String, Option<String>) {
    let mut options: Vec<(String, Option<String>)> = vec![
        ("INT".into(), Some("7".into())),
        ("BOOL".into(), Some("TRUE".into())),
        ("DINT".into(), None),
        ("REAL".into(), None),
    ];
    for (e, vals) in &n.enums {
        // (the last value may be the one shared with other enumerations)
        options.push((e.clone(), Some(vals[vals.len() - 1].clone())));
        options.push((e.clone(), None));
    }
    for (a, ei) in &n.aliases {
        options.push((a.clone(), Some(n.enums[*ei].1[0].clone())));
    }
    for s in &n.subranges {
        options.push((s.clone(), None));
    }
    if allow_struct {
        for s in &n.structs {
            options.push((s.clone(), None));
        }
        for s in &n.arrays {
            options.push((s.clone(), None));
        }
    }
    let (t, init) = rng.pick(&options).clone();
    (respell(rng, &t), init)
}

fn gen_struct(rng: &mut Rng, n: &mut Names) -> Decl {
    let k = n.fresh();
    let name = format!("St{k}");
    let count = rng.range(1, 3);
    let mut fields = String::new();
    for i in 0..count {
        let (t, init) = var_type(rng, n, true);
        let init = match init {
            Some(v) if rng.chance(1, 3) => format!(" := {v}"),
            _ => String::new(),
        };
        fields.push_str(&format!("    f{i} : {t}{init};\n"));
    }
    if !n.enums.is_empty() && rng.chance(1, 3) {
        // an element that is an array of a named enumeration, initialised with its values
        let (e, vals) = rng.pick(&n.enums).clone();
        fields.push_str(&format!("    lim : ARRAY [1..2] OF {} := [{}, {}];\n", respell(rng, &e), vals[0], respell(rng, &vals[1])));
    }
    let text = format!("TYPE\n  {name} : STRUCT\n{fields}  END_STRUCT;\nEND_TYPE\n");
    n.structs.push(name.clone());
    decl("struct", &name, text)
}

fn gen_array(rng: &mut Rng, n: &mut Names) -> Decl {
    let k = n.fresh();
    let name = format!("Ar{k}");
    let elem = if !n.enums.is_empty() && rng.chance(1, 2) {
        let e = rng.pick(&n.enums).0.clone();
        respell(rng, &e)
    } else if !n.structs.is_empty() && rng.chance(1, 2) {
        // an array of structures
        let e = rng.pick(&n.structs).clone();
        respell(rng, &e)
    } else {
        "INT".to_string()
    };
    let text = format!("TYPE\n  {name} : ARRAY[1..{}] OF {elem};\nEND_TYPE\n", rng.range(2, 9));
    n.arrays.push(name.clone());
    decl("array", &name, text)
}

fn pou_vars_and_body(rng: &mut Rng, n: &Names, is_function: bool, own: &str) -> (String, String) {
    let mut vars = String::new();
    let mut body = String::new();
    let mut locals: Vec<String> = vec![];
    let nv = rng.range(1, 3);
    vars.push_str("  VAR\n");
    for i in 0..nv {
        let (t, init) = var_type(rng, n, !is_function);
        let init = match init {
            Some(v) if rng.chance(1, 2) => format!(" := {v}"),
            _ => String::new(),
        };
        vars.push_str(&format!("    v{i} : {t}{init};\n"));
        if t.eq_ignore_ascii_case("INT") {
            locals.push(format!("v{i}"));
        }
    }
    vars.push_str("    cnt : INT;\n");
    locals.push("cnt".into());
    if !is_function && rng.chance(1, 8) {
        // a string literal that spans a line break
        vars.push_str("    two : STRING := 'first\n second';\n");
    }
    if !is_function && !n.no_comments && rng.chance(1, 6) {
        // a string literal that looks like it holds a comment (it contains `*)`, so not in worlds
        // that plant an unterminated comment)
        vars.push_str("    note : STRING := 'x (* y *) z';\n");
    }
    let mut inst: Option<(String, bool)> = None;
    if !is_function && !n.fbs.is_empty() && rng.chance(2, 3) {
        let (f, has_in) = rng.pick(&n.fbs).clone();
        if f != own {
            vars.push_str(&format!("    inst : {};\n", respell(rng, &f)));
            inst = Some((f, has_in));
        }
    }
    vars.push_str("  END_VAR\n");
    if !is_function && !n.globals.is_empty() && rng.chance(1, 2) {
        let g = rng.pick(&n.globals).clone();
        vars.push_str(&format!("  VAR_EXTERNAL CONSTANT\n    {g} : INT;\n  END_VAR\n"));
        body.push_str(&format!("  cnt := {};\n", respell(rng, &g)));
    }
    let a = rng.pick(&locals).clone();
    let b = rng.pick(&locals).clone();
    body.push_str(trivia(rng, n));
    match rng.below(10) {
        6 => body.push_str(&format!("  CASE {a} OF\n    1: {b} := 1;\n    2, 3: {b} := 2;\n  ELSE\n    {b} := 0;\n  END_CASE;\n")),
        7 => body.push_str(&format!("  FOR {a} := 1 TO 10 BY 2 DO\n    {b} := {b} + {a};\n  END_FOR;\n")),
        8 => body.push_str(&format!("  WHILE {a} < 10 DO\n    {a} := {a} + 1;\n  END_WHILE;\n  REPEAT\n    {b} := {b} - 1;\n  UNTIL {b} < 0 END_REPEAT;\n")),
        9 if !n.functions.is_empty() => {
            let f = rng.pick(&n.functions).clone();
            if rng.chance(1, 2) {
                body.push_str(&format!("  {a} := {}(a := 1, b := {b});\n", respell(rng, &f)));
            } else {
                body.push_str(&format!("  {a} := {f}({b}, 2);\n"));
            }
        }
        9 => body.push_str(&format!("  {a} := INT#5 + {b} + 16#1F + 2#1010;\n")),
        4 => body.push_str(&format!("  {a} := ({b} MOD 3) + {};\n", rng.below(9))),
        5 => body.push_str(&format!("  IF ({a} > 3) AND NOT ({b} > 2) OR ({a} = 1) XOR ({b} = 2) THEN\n    {a} := 0;\n  END_IF;\n")),
        3 => body.push_str(&format!("  IF {a} > 3 THEN\n    {b} := 0;\n  END_IF {b} := {b} + 1;{}\n", if n.no_comments { "" } else { " (* same line *)" })),
        0 => body.push_str(&format!("  {a} := {b} + 1;\n")),
        1 => body.push_str(&format!(
            "  IF {a} > 3 THEN\n    {b} := 0;\n  ELSE\n    {b} := {b} + 1;\n  END_IF;\n"
        )),
        _ => body.push_str(&format!("  {a} := {b} * 2 + {};\n", rng.below(100))),
    }
    if let Some((_, has_in)) = inst {
        if has_in {
            body.push_str("  inst(i1 := TRUE);\n");
        } else {
            body.push_str("  inst();\n");
        }
    }
    (vars, body)
}

fn gen_fb(rng: &mut Rng, n: &mut Names) -> Decl {
    let k = n.fresh();
    let name = format!("Fb{k}");
    let has_in = rng.chance(2, 3);
    let mut text = format!("FUNCTION_BLOCK {name}\n");
    if !n.no_comments && rng.chance(1, 6) {
        // an OSCAT style description header (free text that the preprocessor blanks)
        text.push_str(&format!("(*@KEY@:DESCRIPTION*)\nversion 1.{k} counts things; see manual\n(*@KEY@:END_DESCRIPTION*)\n"));
    }
    if has_in {
        text.push_str("  VAR_INPUT\n    i1 : BOOL;\n  END_VAR\n");
    }
    if rng.chance(1, 2) {
        text.push_str("  VAR_OUTPUT\n    o1 : INT;\n  END_VAR\n");
    }
    if rng.chance(1, 15) {
        // a constant table: legal text that the analyzer (today) answers with "not implemented" —
        // a declaration that fails on its own and happens to stop a rule in mid-walk
        text.push_str("  VAR CONSTANT\n    tbl : ARRAY [1..3] OF INT := [1, 2, 3];\n  END_VAR\n");
    }
    let (vars, body) = pou_vars_and_body(rng, n, false, &name);
    text.push_str(&vars);
    text.push_str(&body);
    text.push_str("END_FUNCTION_BLOCK\n");
    n.fbs.push((name.clone(), has_in));
    decl("fb", &name, text)
}

fn gen_function(rng: &mut Rng, n: &mut Names) -> Decl {
    let k = n.fresh();
    let name = format!("Fn{k}");
    let mut text = format!("FUNCTION {name} : INT\n  VAR_INPUT\n    a : INT;\n    b : INT;\n  END_VAR\n");
    let (vars, body) = pou_vars_and_body(rng, n, true, &name);
    text.push_str(&vars);
    text.push_str(&body);
    text.push_str(&format!("  {name} := a + b;\nEND_FUNCTION\n"));
    n.functions.push(name.clone());
    decl("function", &name, text)
}

fn gen_program(rng: &mut Rng, n: &mut Names) -> Decl {
    let k = n.fresh();
    let name = format!("Pr{k}");
    let mut text = format!("PROGRAM {name}\n");
    if rng.chance(1, 4) {
        text.push_str(&format!("  VAR\n    din AT %IX{}.{} : BOOL;\n    aout AT %QW{} : INT;\n  END_VAR\n  VAR RETAIN\n    kept : INT;\n  END_VAR\n", rng.below(4), rng.below(8), rng.below(9)));
    }
    let (vars, body) = pou_vars_and_body(rng, n, false, &name);
    text.push_str(&vars);
    text.push_str(&body);
    text.push_str("END_PROGRAM\n");
    n.programs.push(name.clone());
    decl("program", &name, text)
}

fn gen_config(rng: &mut Rng, n: &mut Names, bad_task: bool, const_global: bool) -> Decl {
    let k = n.fresh();
    let name = format!("Cfg{k}");
    let g = format!("Glob{k}");
    let qual = if const_global { " CONSTANT" } else { "" };
    let mut text = format!(
        "CONFIGURATION {name}\n  VAR_GLOBAL{qual}\n    {g} : INT := {};\n  END_VAR\n  RESOURCE res{k} ON PLC\n    TASK tsk{k}(INTERVAL := T#{}ms, PRIORITY := 1);\n",
        rng.below(100),
        10 * rng.range(1, 50)
    );
    let prog = if n.programs.is_empty() { "plc_prg".to_string() } else { rng.pick(&n.programs).clone() };
    let task = if bad_task { format!("nosuchtask{k}") } else { respell(rng, &format!("tsk{k}")) };
    text.push_str(&format!("    PROGRAM inst{k} WITH {task} : {prog};\n  END_RESOURCE\nEND_CONFIGURATION\n"));
    n.globals.push(g);
    n.has_config = true;
    decl("config", &name, text)
}

fn gen_one(rng: &mut Rng, n: &mut Names) -> Decl {
    if !n.no_comments && rng.chance(1, 40) {
        // a "declaration" that is nothing but a comment (a file may consist of it alone)
        let k = n.fresh();
        return decl("comment_only", &format!("Note{k}"), format!("(* note {k}: nothing is declared here *)\n"));
    }
    loop {
        let d = match rng.below(12) {
            0 | 1 => Some(gen_enum(rng, n)),
            2 | 3 => gen_alias(rng, n).or_else(|| Some(gen_subrange(rng, n))),
            4 => Some(gen_struct(rng, n)),
            5 => Some(gen_array(rng, n)),
            6 | 7 | 8 => Some(gen_fb(rng, n)),
            9 => Some(gen_function(rng, n)),
            10 => Some(gen_program(rng, n)),
            _ => {
                if n.has_config {
                    None
                } else {
                    Some(gen_config(rng, n, false, true))
                }
            }
        };
        if let Some(d) = d {
            return d;
        }
    }
}

/// A second, self-contained fault of the rule stage (used to build double-fault modules).
pub fn second_fault(rng: &mut Rng, unique: usize) -> Decl {
    let k = 900 + unique;
    match rng.below(4) {
        0 => decl("fault", &format!("St{k}"), format!("TYPE\n  St{k} : STRUCT\n    g0 : INT;\n    G0 : BOOL;\n  END_STRUCT;\nEND_TYPE\n")),
        1 => decl("fault", &format!("En{k}"), format!("TYPE\n  En{k} : (XX{k}, YY{k}, xx{k}) := XX{k};\nEND_TYPE\n")),
        2 => decl("fault", &format!("Fb{k}"), format!("FUNCTION_BLOCK Fb{k}\n  VAR CONSTANT\n    cnt : INT;\n  END_VAR\nEND_FUNCTION_BLOCK\n")),
        _ => decl("fault", &format!("Sr{k}"), format!("TYPE\n  Sr{k} : INT (9..1);\nEND_TYPE\n")),
    }
}

pub const FAULT_KINDS: &[&str] = &[
    "lex_char",
    "open_comment",
    "c_comment",
    "syntax_type",
    "syntax_stmt",
    "syntax_var",
    "syntax_long_string",
    "unimplemented_capability",
    "enum_dup_value_typed",
    "function_cycle",
    "struct_dup_elem",
    "subrange_order",
    "enum_dup_value",
    "undefined_var",
    "const_no_init",
    "const_fb",
    "unknown_type",
    "enum_value_undefined",
    "task_undefined",
    "external_not_const",
    "recursion_self",
    "recursion_pair",
    "dup_fb_fb",
    "dup_type_type",
    "dup_type_fb",
    "dup_fb_program",
    "dup_case",
    "dup_identical",
    "dup_one_faulty",
    "alias_unknown",
    "global_not_external",
    "invoke_undeclared_instance",
    "task_in_other_config",
    "unsupported_stdlib_type",
    "fb_call_unknown_input",
    "fb_call_mixed",
    "fb_call_too_few",
    "fb_call_unknown_output",
];

/// Fault kinds whose faulty declaration(s) fail on their own (no other declaration needed).
pub fn is_standalone(kind: &str) -> bool {
    !matches!(kind, "enum_value_undefined" | "const_fb" | "global_not_external" | "invoke_undeclared_instance" | "function_cycle")
}

pub fn is_name_clash(kind: &str) -> bool {
    kind.starts_with("dup_")
}

/// Generates a valid-by-construction world of `size` declarations.
pub fn gen_valid(rng: &mut Rng, size: usize) -> World {
    let mut n = Names::default();
    let mut decls = vec![];
    for _ in 0..size {
        decls.push(gen_one(rng, &mut n));
    }
    World { decls, fault: None }
}

/// Generates a world with exactly one planted fault of the given kind.
pub fn gen_faulty(rng: &mut Rng, size: usize, kind: &str) -> World {
    let mut n = Names { no_comments: kind == "open_comment", ..Names::default() };
    let mut decls = vec![];
    let before = if size > 1 { rng.below(size) } else { 0 };
    for _ in 0..before {
        decls.push(gen_one(rng, &mut n));
    }
    let k = n.fresh();
    let mut involved = vec![];
    let mut push = |decls: &mut Vec<Decl>, d: Decl| {
        involved.push(decls.len());
        decls.push(d);
    };
    match kind {
        "lex_char" => push(
            &mut decls,
            decl("fault", &format!("Fb{k}"), format!("FUNCTION_BLOCK Fb{k}\n  VAR\n    cnt : INT;\n  END_VAR\n  cnt := cnt ? 1;\nEND_FUNCTION_BLOCK\n")),
        ),
        "open_comment" => push(
            &mut decls,
            decl("fault", &format!("Fb{k}"), format!("FUNCTION_BLOCK Fb{k}\n  VAR\n    cnt : INT;\n  END_VAR\n  cnt := 1; (* never closed\nEND_FUNCTION_BLOCK\n")),
        ),
        "c_comment" => push(
            &mut decls,
            decl("fault", &format!("Fb{k}"), format!("FUNCTION_BLOCK Fb{k}\n  VAR\n    cnt : INT;\n  END_VAR\n  /* c style */\n  cnt := 1;\nEND_FUNCTION_BLOCK\n")),
        ),
        "syntax_type" => push(&mut decls, decl("fault", &format!("En{k}"), format!("TYPE\n  En{k} : (X{k}, Y{k}) := ;\nEND_TYPE\n"))),
        "syntax_stmt" => push(
            &mut decls,
            decl("fault", &format!("Fb{k}"), format!("FUNCTION_BLOCK Fb{k}\n  VAR\n    cnt : INT;\n  END_VAR\n  cnt := ;\nEND_FUNCTION_BLOCK\n")),
        ),
        "syntax_var" => push(
            &mut decls,
            decl("fault", &format!("Pr{k}"), format!("PROGRAM Pr{k}\n  VAR\n    cnt INT;\n  END_VAR\nEND_PROGRAM\n")),
        ),
        "syntax_long_string" => {
            // a missing operator in front of a long string literal of multi-byte characters (all of
            // them in the Windows-1252 repertoire): the message quotes what was found, at every
            // alignment of the character boundaries
            let ch = *rng.pick(&["ä", "é", "€", "ß"]);
            let lit = format!("{}{}", "x".repeat(rng.below(4)), ch.repeat(rng.range(90, 140)));
            push(
                &mut decls,
                decl("fault", &format!("Fb{k}"), format!("FUNCTION_BLOCK Fb{k}\n  VAR\n    name : STRING;\n  END_VAR\n  name := 'a' '{lit}';\nEND_FUNCTION_BLOCK\n")),
            );
        }
        "unimplemented_capability" => {
            // legal but rare text that the analyzer answers with "capability is not implemented"
            let body = *rng.pick(&["  arr[1] := 2;", "  p.px := 1;"]);
            push(
                &mut decls,
                decl(
                    "fault",
                    &format!("Fb{k}"),
                    format!("TYPE\n  Pt{k} : STRUCT\n    px : INT;\n  END_STRUCT;\nEND_TYPE\nFUNCTION_BLOCK Fb{k}\n  VAR\n    arr : ARRAY [1..3] OF INT;\n    p : Pt{k};\n  END_VAR\n{body}\nEND_FUNCTION_BLOCK\n"),
                ),
            );
        }
        "enum_dup_value_typed" => {
            // the same value once with and once without the type prefix
            push(&mut decls, decl("fault", &format!("En{k}"), format!("TYPE\n  En{k} : (En{k}#X{k}, Y{k}, {}) := Y{k};\nEND_TYPE\n", respell(rng, &format!("X{k}")))));
        }
        "function_cycle" => {
            // two functions that invoke each other and a third that calls into the pair (whether a
            // tool accepts recursive functions or not, it has to do so in every order)
            let (a, b, c) = (format!("FnA{k}"), format!("FnB{k}"), format!("FnC{k}"));
            let f = |name: &str, callee: &str| format!("FUNCTION {name} : INT\n  VAR_INPUT\n    a : INT;\n    b : INT;\n  END_VAR\n  {name} := {callee}(a := a, b := b) + 1;\nEND_FUNCTION\n");
            push(&mut decls, decl("fault", &a, f(&a, &b)));
            push(&mut decls, decl("fault", &b, f(&b, &a)));
            push(&mut decls, decl("fault", &c, f(&c, &a)));
        }
        "struct_dup_elem" => push(
            &mut decls,
            decl("fault", &format!("St{k}"), format!("TYPE\n  St{k} : STRUCT\n    f0 : INT;\n    F0 : BOOL;\n  END_STRUCT;\nEND_TYPE\n")),
        ),
        "subrange_order" => push(&mut decls, decl("fault", &format!("Sr{k}"), format!("TYPE\n  Sr{k} : INT (10..{});\nEND_TYPE\n", rng.below(10)))),
        "enum_dup_value" => push(&mut decls, decl("fault", &format!("En{k}"), format!("TYPE\n  En{k} : (X{k}, Y{k}, x{k}) := X{k};\nEND_TYPE\n"))),
        "undefined_var" => {
            // the offending identifier sits mid-line, or at the very first column of its line
            let stmt = if rng.chance(1, 2) { format!("  cnt := nowhere{k} + 1;") } else { format!("nowhere{k} := cnt;") };
            push(
                &mut decls,
                decl("fault", &format!("Fb{k}"), format!("FUNCTION_BLOCK Fb{k}\n  VAR\n    cnt : INT;\n  END_VAR\n{stmt}\nEND_FUNCTION_BLOCK\n")),
            );
        }
        "const_no_init" => {
            // sometimes the constant carries the name of a configuration global that other blocks
            // declare VAR_EXTERNAL CONSTANT
            let cname = if rng.chance(1, 2) {
                if n.globals.is_empty() {
                    let d = gen_config(rng, &mut n, false, true);
                    decls.push(d);
                }
                rng.pick(&n.globals).clone()
            } else {
                "cnt".to_string()
            };
            push(
                &mut decls,
                decl("fault", &format!("Fb{k}"), format!("FUNCTION_BLOCK Fb{k}\n  VAR CONSTANT\n    {cname} : INT;\n  END_VAR\nEND_FUNCTION_BLOCK\n")),
            );
        }
        "const_fb" => {
            if n.fbs.is_empty() {
                decls.push(gen_fb(rng, &mut n));
            }
            let f = rng.pick(&n.fbs).0.clone();
            push(
                &mut decls,
                decl("fault", &format!("Fb{k}"), format!("FUNCTION_BLOCK Fb{k}\n  VAR CONSTANT\n    inst : {f};\n  END_VAR\nEND_FUNCTION_BLOCK\n")),
            );
        }
        "unknown_type" => push(
            &mut decls,
            decl("fault", &format!("Fb{k}"), format!("FUNCTION_BLOCK Fb{k}\n  VAR\n    cnt : NoSuchType{k};\n  END_VAR\nEND_FUNCTION_BLOCK\n")),
        ),
        "enum_value_undefined" => {
            if n.enums.is_empty() {
                decls.push(gen_enum(rng, &mut n));
            }
            let e = rng.pick(&n.enums).0.clone();
            push(
                &mut decls,
                decl("fault", &format!("Fb{k}"), format!("FUNCTION_BLOCK Fb{k}\n  VAR\n    x : {e} := NOSUCHVALUE{k};\n  END_VAR\nEND_FUNCTION_BLOCK\n")),
            );
        }
        "task_undefined" => {
            let d = gen_config(rng, &mut n, true, true);
            push(&mut decls, Decl { kind: "fault".into(), ..d });
        }
        "external_not_const" => {
            let d = gen_config(rng, &mut n, false, true);
            let g = n.globals.last().unwrap().clone();
            push(&mut decls, d);
            push(
                &mut decls,
                decl("fault", &format!("Fb{k}"), format!("FUNCTION_BLOCK Fb{k}\n  VAR_EXTERNAL\n    {g} : INT;\n  END_VAR\nEND_FUNCTION_BLOCK\n")),
            );
            if rng.chance(1, 2) {
                // an accompanying second configuration with a NON-constant global of the same name
                let k3 = n.fresh();
                decls.push(decl("config", &format!("Cfg{k3}"), format!("CONFIGURATION Cfg{k3}\n  VAR_GLOBAL\n    {g} : INT := 3;\n  END_VAR\n  RESOURCE res{k3} ON PLC\n    TASK tsk{k3}(INTERVAL := T#20ms, PRIORITY := 1);\n    PROGRAM inst{k3} WITH tsk{k3} : plc_prg;\n  END_RESOURCE\nEND_CONFIGURATION\n")));
            }
        }
        "recursion_self" => push(
            &mut decls,
            decl("fault", &format!("Fb{k}"), format!("FUNCTION_BLOCK Fb{k}\n  VAR\n    inst : Fb{k};\n  END_VAR\nEND_FUNCTION_BLOCK\n")),
        ),
        "recursion_pair" => {
            let k2 = n.fresh();
            push(
                &mut decls,
                decl("fault", &format!("Fb{k}"), format!("FUNCTION_BLOCK Fb{k}\n  VAR\n    inst : Fb{k2};\n  END_VAR\nEND_FUNCTION_BLOCK\n")),
            );
            push(
                &mut decls,
                decl("fault", &format!("Fb{k2}"), format!("FUNCTION_BLOCK Fb{k2}\n  VAR\n    inst : Fb{k};\n  END_VAR\nEND_FUNCTION_BLOCK\n")),
            );
        }
        "dup_fb_fb" => {
            push(&mut decls, decl("fault", &format!("Dup{k}"), format!("FUNCTION_BLOCK Dup{k}\n  VAR\n    cnt : INT;\n  END_VAR\n  cnt := 1;\nEND_FUNCTION_BLOCK\n")));
            push(&mut decls, decl("fault", &format!("Dup{k}"), format!("FUNCTION_BLOCK Dup{k}\n  VAR\n    other : BOOL;\n  END_VAR\n  other := TRUE;\nEND_FUNCTION_BLOCK\n")));
        }
        "dup_type_type" => {
            push(&mut decls, decl("fault", &format!("Dup{k}"), format!("TYPE\n  Dup{k} : (P{k}, Q{k}) := P{k};\nEND_TYPE\n")));
            let second = match rng.below(3) {
                0 => format!("TYPE\n  Dup{k} : (R{k}, S{k}) := R{k};\nEND_TYPE\n"),
                1 => format!("TYPE\n  Dup{k} : INT (0..9);\nEND_TYPE\n"),
                _ => format!("TYPE\n  Dup{k} : STRUCT\n    f0 : INT;\n  END_STRUCT;\nEND_TYPE\n"),
            };
            push(&mut decls, decl("fault", &format!("Dup{k}"), second));
        }
        "dup_type_fb" => {
            push(&mut decls, decl("fault", &format!("Dup{k}"), format!("TYPE\n  Dup{k} : (P{k}, Q{k}) := P{k};\nEND_TYPE\n")));
            push(&mut decls, decl("fault", &format!("Dup{k}"), format!("FUNCTION_BLOCK Dup{k}\n  VAR\n    cnt : INT;\n  END_VAR\nEND_FUNCTION_BLOCK\n")));
        }
        "dup_fb_program" => {
            push(&mut decls, decl("fault", &format!("Dup{k}"), format!("FUNCTION_BLOCK Dup{k}\n  VAR\n    cnt : INT;\n  END_VAR\nEND_FUNCTION_BLOCK\n")));
            push(&mut decls, decl("fault", &format!("Dup{k}"), format!("PROGRAM Dup{k}\n  VAR\n    cnt : INT;\n  END_VAR\nEND_PROGRAM\n")));
        }
        "dup_case" => {
            push(&mut decls, decl("fault", &format!("Dup{k}"), format!("FUNCTION_BLOCK Dup{k}\n  VAR\n    cnt : INT;\n  END_VAR\nEND_FUNCTION_BLOCK\n")));
            push(&mut decls, decl("fault", &format!("DUP{k}"), format!("FUNCTION_BLOCK DUP{k}\n  VAR\n    other : INT;\n  END_VAR\nEND_FUNCTION_BLOCK\n")));
        }
        "dup_identical" => {
            let d = gen_fb(rng, &mut n);
            let d = Decl { kind: "fault".into(), ..d };
            push(&mut decls, d.clone());
            push(&mut decls, d);
        }
        "dup_one_faulty" => {
            // two same-named blocks, one of which uses an undeclared variable: if the analyzer
            // keeps only one of them, the verdict follows whichever survives
            push(&mut decls, decl("fault", &format!("Dup{k}"), format!("FUNCTION_BLOCK Dup{k}\n  VAR\n    cnt : INT;\n  END_VAR\n  cnt := nowhere{k} + 1;\nEND_FUNCTION_BLOCK\n")));
            push(&mut decls, decl("fault", &format!("Dup{k}"), format!("FUNCTION_BLOCK Dup{k}\n  VAR\n    cnt : INT;\n  END_VAR\n  cnt := 1;\nEND_FUNCTION_BLOCK\n")));
        }
        "global_not_external" => {
            // a POU uses a configuration global without declaring it VAR_EXTERNAL: undeclared in
            // the POU's scope wherever the configuration stands
            let constant = rng.chance(1, 2);
            let d = gen_config(rng, &mut n, false, constant);
            let g = n.globals.last().unwrap().clone();
            decls.push(d);
            let pou = if rng.chance(1, 2) {
                format!("FUNCTION_BLOCK Fb{k}\n  VAR\n    cnt : INT;\n  END_VAR\n  cnt := {g};\nEND_FUNCTION_BLOCK\n")
            } else {
                format!("PROGRAM Pr{k}\n  VAR\n    cnt : INT;\n  END_VAR\n  cnt := {g} + 1;\nEND_PROGRAM\n")
            };
            push(&mut decls, decl("fault", &format!("Pou{k}"), pou));
        }
        "invoke_undeclared_instance" => {
            // a program declares an instance `inst`; another unit invokes `inst` without declaring it
            if n.fbs.is_empty() {
                decls.push(gen_fb(rng, &mut n));
            }
            let (f, has_in) = rng.pick(&n.fbs).clone();
            let k2 = n.fresh();
            let call = if has_in { "inst(i1 := TRUE);" } else { "inst();" };
            decls.push(decl("program", &format!("Pr{k2}"), format!("PROGRAM Pr{k2}\n  VAR\n    inst : {f};\n    cnt : INT;\n  END_VAR\n  {call}\nEND_PROGRAM\n")));
            n.programs.push(format!("Pr{k2}"));
            let unit = if rng.chance(1, 2) { ("PROGRAM", "END_PROGRAM") } else { ("FUNCTION_BLOCK", "END_FUNCTION_BLOCK") };
            push(&mut decls, decl("fault", &format!("Un{k}"), format!("{} Un{k}\n  VAR\n    cnt : INT;\n  END_VAR\n  {call}\n{}\n", unit.0, unit.1)));
        }
        "task_in_other_config" => {
            // the task a program refers to exists, but only in *another* configuration
            let other = gen_config(rng, &mut n, false, true);
            let other_task = format!("tsk{}", n.counter);
            decls.push(other);
            let k2 = n.fresh();
            push(
                &mut decls,
                decl("fault", &format!("Cfg{k2}"), format!("CONFIGURATION Cfg{k2}\n  RESOURCE res{k2} ON PLC\n    TASK own{k2}(INTERVAL := T#50ms, PRIORITY := 2);\n    PROGRAM inst{k2} WITH {other_task} : plc_prg;\n  END_RESOURCE\nEND_CONFIGURATION\n")),
            );
        }
        "unsupported_stdlib_type" => {
            let std = *rng.pick(&["TON", "TOF", "TP", "CTU", "SR", "R_TRIG"]);
            push(&mut decls, decl("fault", &format!("Fb{k}"), format!("FUNCTION_BLOCK Fb{k}\n  VAR\n    t : {std};\n    cnt : INT;\n  END_VAR\n  cnt := 1;\nEND_FUNCTION_BLOCK\n")));
        }
        "fb_call_unknown_input" | "fb_call_mixed" | "fb_call_too_few" | "fb_call_unknown_output" => {
            // a callee with two inputs and an output, and a caller whose invocation is wrong
            let k2 = n.fresh();
            push(
                &mut decls,
                decl("fb", &format!("Callee{k}"), format!("FUNCTION_BLOCK Callee{k}\n  VAR_INPUT\n    in1 : BOOL;\n    in2 : BOOL;\n  END_VAR\n  VAR_OUTPUT\n    out1 : BOOL;\n  END_VAR\n  out1 := in1 AND in2;\nEND_FUNCTION_BLOCK\n")),
            );
            let call = match kind {
                "fb_call_unknown_input" => "inst(in1 := TRUE, nosuch := TRUE);",
                "fb_call_mixed" => "inst(in1 := TRUE, FALSE);",
                "fb_call_too_few" => "inst(TRUE);",
                _ => "inst(in1 := TRUE, in2 := FALSE, nosuchout => l);",
            };
            push(
                &mut decls,
                decl("fault", &format!("Caller{k2}"), format!("FUNCTION_BLOCK Caller{k2}\n  VAR\n    inst : Callee{k};\n    l : BOOL;\n  END_VAR\n  {call}\nEND_FUNCTION_BLOCK\n")),
            );
            if rng.chance(2, 3) {
                // an accompanying, valid caller of the same block type with the same inputs
                let k3 = n.fresh();
                let unit = if rng.chance(1, 2) { ("PROGRAM", "END_PROGRAM") } else { ("FUNCTION_BLOCK", "END_FUNCTION_BLOCK") };
                decls.push(decl("fb", &format!("Good{k3}"), format!("{} Good{k3}\n  VAR\n    inst : Callee{k};\n    l : BOOL;\n  END_VAR\n  inst(in1 := TRUE, in2 := FALSE, out1 => l);\n{}\n", unit.0, unit.1)));
            }
        }
        "alias_unknown" => push(&mut decls, decl("fault", &format!("Al{k}"), format!("TYPE\n  Al{k} : NoSuchType{k};\nEND_TYPE\n"))),
        other => panic!("unknown fault kind {other}"),
    }
    while decls.len() < size {
        decls.push(gen_one(rng, &mut n));
    }
    if kind == "open_comment" {
        // safety net for the rule above: no other declaration may contain a comment terminator
        for (i, d) in decls.iter_mut().enumerate() {
            if !involved.contains(&i) && d.text.contains("*)") {
                let name = format!("Plain{i}");
                *d = decl("fb", &name, format!("FUNCTION_BLOCK {name}\n  VAR\n    cnt : INT;\n  END_VAR\n  cnt := 1;\nEND_FUNCTION_BLOCK\n"));
            }
        }
    }
    World { decls, fault: Some(FaultInfo { kind: kind.to_string(), involved, standalone: is_standalone(kind) }) }
}

// ---------------------------------------------------------------------------------------------
// The five fixed document classes of the C11 quantifier.

pub const DOC_CLASSES: &[&str] = &["valid", "lexical", "syntax", "semantic", "depends"];

/// Text of document class `class` for URI slot `slot` (names are slot-specific so that two
/// slots holding the same class do not clash, except for the shared type of `valid`).
pub fn class_text(class: &str, slot: usize) -> String {
    match class {
        // declares the shared enumeration that `depends` needs
        "valid" => format!(
            "TYPE\n  SharedLevel{slot} : (LOW{slot}, HIGH{slot}) := LOW{slot};\nEND_TYPE\n\nFUNCTION_BLOCK Valid{slot}\n  VAR\n    cnt : INT;\n    lvl : SharedLevel{slot} := HIGH{slot};\n  END_VAR\n  cnt := cnt + 1;\nEND_FUNCTION_BLOCK\n"
        ),
        "lexical" => format!("FUNCTION_BLOCK Lex{slot}\n  VAR\n    cnt : INT;\n  END_VAR\n  cnt := cnt ? 1;\nEND_FUNCTION_BLOCK\n"),
        "syntax" => format!("FUNCTION_BLOCK Syn{slot}\n  VAR\n    cnt : INT;\n  END_VAR\n  cnt := ;\nEND_FUNCTION_BLOCK\n"),
        "semantic" if slot % 2 == 1 => format!("FUNCTION_BLOCK Sem{slot}\n  VAR\n    cnt : INT;\n  END_VAR\nnowhere := cnt + 1;\nEND_FUNCTION_BLOCK\n"),
        "semantic" => format!("FUNCTION_BLOCK Sem{slot}\n  VAR\n    cnt : INT;\n  END_VAR\n  cnt := nowhere + 1;\nEND_FUNCTION_BLOCK\n"),
        // needs the enumeration declared by the `valid` text of the *other* slot
        "depends" => {
            let other = 1 - (slot % 2);
            format!("FUNCTION_BLOCK Dep{slot}\n  VAR\n    lvl : SharedLevel{other} := HIGH{other};\n    cnt : INT;\n  END_VAR\n  cnt := cnt + 1;\nEND_FUNCTION_BLOCK\n")
        }
        other => panic!("unknown class {other}"),
    }
}
