//! Generators, execution, reference models, oracles and shrinking for the `lsp` campaigns
//! (C11, C12, C15).

use std::collections::BTreeMap;

use ironplc_dsl::core::FileId;
use ironplc_parser::{options::ParseOptions, tokenize_program};
use serde_json::Value;

use crate::{
    campaign::{RunReport, Stats, Violation},
    lsp::{event_message, expand_uri, uri_path, Event, Incarnation, LspTrace, Session, Step},
    pool,
    prng::{hash_str, mix, Rng},
    seam::{panic_signature, run_simulated_process, SimHooks},
    world::{root, DiagRec},
};

fn viol(prop: &str, signature: String, detail: String) -> Violation {
    Violation { property: prop.to_string(), signature, detail }
}

pub const WS_URIS: &[&str] = &["ws:a.st", "ws:b.st", "ws:c.st", "ws:d.st"];
pub const ODD_URIS: &[&str] = &["wsl:l.st", "untitled:Untitled-1", "http://example.com/x.st", "ws:a%20b.st", "file:///C:/dir/x.st", "ws:never.st", "ws:sub/deep.st"];
pub const UNKNOWN_REQUESTS: &[&str] = &[
    "textDocument/hover",
    "textDocument/completion",
    "workspace/symbol",
    "$/unknown",
    "textDocument/definition",
    "textDocument/documentSymbol",
    // methods whose names extend or shorten an implemented one
    "textDocument/semanticTokens/full/delta",
    "textDocument/semanticTokens",
    "shutdown/now",
    // requests (they carry an id and want an answer) named like notifications the server knows
    "textDocument/didOpen",
    "textDocument/didChange",
    "textDocument/didClose",
    "initialized",
    "exit",
    "$/cancelRequest",
];
pub const UNKNOWN_NOTIFICATIONS: &[&str] =
    &["textDocument/didClose", "textDocument/didSave", "$/cancelRequest", "$/setTrace", "workspace/didChangeConfiguration", "workspace/didChangeWatchedFiles", "$/simplc/unknown",
    // notifications (no id, no answer wanted) named like requests the server knows
    "textDocument/semanticTokens/full", "shutdown", "textDocument/hover"];

// ---------------------------------------------------------------------------------------------
// Generators

/// A pool of document texts for one history: pieces of generated worlds (so that documents refer
/// to each other), faulty pieces and the five fixed classes.
fn text_pool(rng: &mut Rng, slots: usize) -> Vec<String> {
    let mut texts = vec![];
    for _ in 0..rng.range(1, 2) {
        let size = rng.range(2, 6);
        let w = if rng.chance(2, 3) { pool::gen_valid(rng, size) } else { { let k = *rng.pick(pool::FAULT_KINDS); pool::gen_faulty(rng, size, k) } };
        // split into `slots` pieces, keeping declaration order
        let mut pieces = vec![String::new(); slots.max(1)];
        for d in &w.decls {
            let p = rng.below(pieces.len());
            pieces[p].push_str(&d.text);
        }
        texts.extend(pieces);
    }
    for (i, class) in pool::DOC_CLASSES.iter().enumerate() {
        if rng.chance(1, 2) {
            texts.push(pool::class_text(class, i % 2));
        }
    }
    // layout variants that matter for position conversion: CRLF line ends, no final line break;
    // and edits that change only letter case or only whitespace
    let n = texts.len();
    for i in 0..n {
        match rng.below(10) {
            8 => {
                let t: String = texts[i].chars().map(|c| if c.is_ascii_uppercase() { c.to_ascii_lowercase() } else { c.to_ascii_uppercase() }).collect();
                texts.push(t);
            }
            9 => {
                let t = texts[i].replace("  ", "\t ").replace(" := ", "  :=  ");
                texts.push(t);
            }
            0 => {
                let t = texts[i].replace('\n', "\r\n");
                texts.push(t);
            }
            1 => {
                let t = texts[i].trim_end().to_string();
                texts.push(t);
            }
            2 | 3 => {
                // comments holding one-, two-, three- and four-byte characters in front of the code of
                // some lines: byte, character and UTF-16 columns of everything behind them differ
                let mut t = String::new();
                for line in texts[i].split_inclusive('\n') {
                    if line.trim().len() > 2 && rng.chance(1, 3) {
                        t.push_str(*rng.pick(&["(* ä *)", "(* € 😀 *) ", "(*µ*) ", "(* 日本 *)"]));
                    }
                    t.push_str(line);
                }
                texts.push(t);
            }
            _ => {}
        }
    }
    texts.push(String::new());
    texts
}

fn version_for(rng: &mut Rng, counter: &mut i32) -> i32 {
    *counter += 1;
    match rng.below(12) {
        0 => *counter - 1,        // stale / repeated version
        1 => *counter + 7,        // gap
        2 => 0,
        3 => -*counter,
        _ => *counter,
    }
}

/// The enumerated part of the C11 quantifier: history number `index` among all notification
/// sequences of length <= max_len over 2 URIs x 5 texts x {open, change}.
pub fn enumerated_history(index: u64, max_len: u32) -> Option<Vec<Event>> {
    let mut idx = index;
    let mut len = 1u32;
    loop {
        let count = 20u64.pow(len);
        if idx < count {
            break;
        }
        idx -= count;
        len += 1;
        if len > max_len {
            return None;
        }
    }
    let mut events = vec![];
    let mut versions = [0i32; 2];
    for _ in 0..len {
        let choice = (idx % 20) as usize;
        idx /= 20;
        let slot = choice % 2;
        let class = pool::DOC_CLASSES[(choice / 2) % 5];
        let open = choice / 10 == 0;
        versions[slot] += 1;
        let uri = WS_URIS[slot].to_string();
        let text = pool::class_text(class, slot);
        events.push(if open { Event::Open { uri, version: versions[slot], text } } else { Event::Change { uri, version: versions[slot], texts: vec![text] } });
    }
    Some(events)
}

pub fn enumerated_count(max_len: u32) -> u64 {
    (1..=max_len).map(|l| 20u64.pow(l)).sum()
}

fn gen_ws_files(rng: &mut Rng, texts: &[String]) -> Vec<(String, String)> {
    let mut files = vec![];
    let names = ["a.st", "b.st", "e.st", "notes.txt", "f.IEC"];
    for n in names {
        if rng.chance(1, 3) {
            files.push((n.to_string(), rng.pick(texts).clone()));
        }
    }
    files
}

/// Entries of the workspace folder that look like source files and cannot be read.
fn gen_ws_extras(rng: &mut Rng) -> Vec<crate::world::Extra> {
    use crate::world::Extra;
    let mut extras = vec![];
    for _ in 0..rng.range(1, 2) {
        let e = match rng.below(4) {
            0 => Extra::DanglingSymlink(".#lib.st".into()),
            1 => Extra::EmptyDir("old.st".into()),
            2 => Extra::SymlinkLoop("loop.iec".into()),
            _ => Extra::DanglingSymlink("gone.ST".into()),
        };
        if !extras.contains(&e) {
            extras.push(e);
        }
    }
    extras
}

/// Another process writes and removes files of ws/ while the session runs (the editor saving a
/// buffer, a checkout): 1-4 disk events at random places of the history. Only for sessions without
/// a workspace folder — what a server that was told about a folder should make of later changes on
/// disk is nothing the properties speak about.
fn add_disk_activity(rng: &mut Rng, events: &mut Vec<Event>, texts: &[String]) {
    for _ in 0..rng.range(1, 4) {
        let name = (*rng.pick(&["l.st", "l.st", "a.st", "b.st"])).to_string();
        let text = if rng.chance(3, 4) { Some(rng.pick(texts).clone()) } else { None };
        let pos = rng.below(events.len() + 1);
        events.insert(pos, Event::Disk { name, text });
    }
}

fn gen_edit_event(rng: &mut Rng, texts: &[String], uris: &[&str], counter: &mut i32, allow_multi: bool) -> Event {
    let uri = rng.pick(uris).to_string();
    let version = version_for(rng, counter);
    if rng.chance(2, 5) {
        Event::Open { uri, version, text: rng.pick(texts).clone() }
    } else {
        let n = if allow_multi {
            match rng.below(10) {
                0 => 0,
                1 | 2 => 2,
                _ => 1,
            }
        } else {
            1
        };
        Event::Change { uri, version, texts: (0..n).map(|_| rng.pick(texts).clone()).collect() }
    }
}

pub fn gen_c11(rng: &mut Rng, thorough: bool, run_index: u64) -> LspTrace {
    let max_len = if thorough { 4 } else { 3 };
    if let Some(events) = enumerated_history(run_index, max_len) {
        return LspTrace { prop: "C11".into(), ws_files: vec![], use_ws_folder: false, events, hash_seeds: vec![rng.next(), rng.next()], dir_seed: rng.next(), mode: "enumerated".into(), init_shape: 0, ws_extras: vec![], ranged_edits: false };
    }
    let slots = rng.range(2, 4);
    let texts = text_pool(rng, slots);
    let mut uris: Vec<&str> = WS_URIS[..slots].to_vec();
    if rng.chance(1, 5) {
        // a second spelling of the URI of the first document (percent-encoded letter, dot segment)
        uris.push(*rng.pick(&["ws:%61.st", "ws:./a.st", "ws:sub/../a.st"]));
    }
    let mut texts = texts;
    if rng.chance(1, 150) {
        // a document of more than a MiB (many short comment lines in front of one of the texts)
        let base = rng.pick(&texts).clone();
        let line = "(* generated padding line *)\n";
        texts.push(format!("{}{}", line.repeat(1_100_000 / line.len() + rng.below(2000)), base));
    }
    let use_ws_folder = rng.chance(1, 3);
    let disk_active = !use_ws_folder && rng.chance(1, 4);
    if disk_active {
        // a document whose URI passes through a symbolic link to the directory
        uris.push("wsl:l.st");
    }
    let ws_files = if use_ws_folder || rng.chance(1, 6) { gen_ws_files(rng, &texts) } else { vec![] };
    // swarm: which fault kinds are enabled for this history
    let allow_multi = rng.chance(1, 2);
    let allow_restart = rng.chance(1, 2);
    let allow_dup = rng.chance(1, 3);
    let len = if rng.chance(1, 2) { rng.range(1, 8) } else { rng.range(5, 40) };
    let mut events = vec![];
    let mut counter = 0;
    for _ in 0..len {
        let e = match rng.below(20) {
            0 if allow_restart => Event::Restart,
            1 if allow_dup => Event::DupPrev,
            2 => Event::UnknownNotification { method: "textDocument/didClose".into(), uri: rng.pick(&uris).to_string(), refers_to: None },
            _ => gen_edit_event(rng, &texts, &uris, &mut counter, allow_multi),
        };
        events.push(e);
    }
    if disk_active {
        add_disk_activity(rng, &mut events, &texts);
    }
    // the initialize request comes in several legal shapes that announce the same folder (or none)
    let init_shape = if use_ws_folder { *rng.pick(&[0u8, 0, 7, 8, 9]) } else { *rng.pick(&[0u8, 0, 0, 1, 8]) };
    let ws_extras = if use_ws_folder && rng.chance(1, 3) { gen_ws_extras(rng) } else { vec![] };
    LspTrace { prop: "C11".into(), ws_files, use_ws_folder, events, hash_seeds: (0..4).map(|_| rng.next()).collect(), dir_seed: rng.next(), mode: "random".into(), init_shape, ws_extras, ranged_edits: rng.chance(1, 2) }
}

pub fn gen_c12(rng: &mut Rng, _thorough: bool) -> LspTrace {
    let texts = text_pool(rng, 2);
    let mut uris: Vec<&str> = WS_URIS[..2].to_vec();
    // swarm configuration: a random subset of the fault kinds is enabled per history
    let en_odd_uri = rng.chance(1, 2);
    let en_unknown_req = rng.chance(2, 3);
    let en_unknown_notif = rng.chance(2, 3);
    let en_client_resp = rng.chance(1, 2);
    let en_multi = rng.chance(2, 3);
    let en_dup = rng.chance(1, 2);
    let en_semtok = rng.chance(2, 3);
    if en_odd_uri {
        for _ in 0..rng.range(1, 3) {
            uris.push(*rng.pick(ODD_URIS));
        }
    }
    // one history in twenty is a request storm: 60-150 messages, mostly requests
    let storm = rng.chance(1, 20);
    let len = if storm { rng.range(60, 150) } else if rng.chance(1, 3) { rng.range(1, 6) } else { rng.range(4, 60) };
    let mut events = vec![];
    let mut counter = 0;
    for _ in 0..len {
        if storm && rng.chance(3, 4) {
            let id_kind = if rng.chance(2, 3) { 0 } else { rng.below(6) as u8 };
            events.push(if rng.chance(1, 2) {
                Event::SemTok { uri: rng.pick(&uris).to_string(), id_kind }
            } else {
                Event::UnknownRequest { method: rng.pick(UNKNOWN_REQUESTS).to_string(), uri: rng.pick(&uris).to_string(), id_kind }
            });
            continue;
        }
        let e = match rng.below(12) {
            0 | 1 if en_unknown_req => Event::UnknownRequest { method: rng.pick(UNKNOWN_REQUESTS).to_string(), uri: rng.pick(&uris).to_string(), id_kind: if rng.chance(1, 2) { 0 } else { rng.below(6) as u8 } },
            2 | 3 if en_unknown_notif => {
                let method = rng.pick(UNKNOWN_NOTIFICATIONS).to_string();
                // a cancel usually names a request that was really sent earlier in this session
                let earlier: Vec<(usize, u8)> = events
                    .iter()
                    .enumerate()
                    .filter_map(|(i, e): (usize, &Event)| match e {
                        Event::SemTok { id_kind, .. } | Event::UnknownRequest { id_kind, .. } => Some((i, *id_kind)),
                        _ => None,
                    })
                    .collect();
                let refers_to = if method == "$/cancelRequest" && !earlier.is_empty() && rng.chance(3, 4) { Some(*rng.pick(&earlier)) } else { None };
                Event::UnknownNotification { method, uri: rng.pick(&uris).to_string(), refers_to }
            }
            4 if en_client_resp => Event::ClientResponse { id: rng.below(5) as i32, error: rng.chance(1, 2) },
            5 if en_dup => Event::DupPrev,
            6 | 7 if en_semtok => Event::SemTok { uri: rng.pick(&uris).to_string(), id_kind: if rng.chance(1, 2) { 0 } else { rng.below(6) as u8 } },
            _ => gen_edit_event(rng, &texts, &uris, &mut counter, en_multi),
        };
        events.push(e);
    }
    // recovery probe: after the last fault event a valid document on a fresh URI is still served
    events.push(Event::Open { uri: "ws:probe.st".into(), version: 1, text: pool::class_text("valid", 7) });
    // shutdown must be able to follow any kind of message, not only the probe
    if rng.chance(1, 2) {
        for _ in 0..rng.range(1, 2) {
            let e = match rng.below(4) {
                0 => Event::SemTok { uri: rng.pick(&uris).to_string(), id_kind: 0 },
                1 => Event::UnknownNotification { method: rng.pick(UNKNOWN_NOTIFICATIONS).to_string(), uri: rng.pick(&uris).to_string(), refers_to: None },
                _ => gen_edit_event(rng, &texts, &uris, &mut counter, en_multi),
            };
            events.push(e);
        }
    }
    let use_ws_folder = rng.chance(1, 4);
    if !use_ws_folder && rng.chance(1, 6) {
        add_disk_activity(rng, &mut events, &texts);
    }
    // one history in 1500: the client falls silent for a few seconds of real time somewhere in the
    // middle (and names a process id that is not running, as a client in another pid namespace does)
    let pause = rng.chance(1, 1500);
    if pause {
        let pos = rng.below(events.len().saturating_sub(1).max(1));
        events.insert(pos, Event::Pause { millis: if _thorough { *rng.pick(&[3500u64, 6000, 11000]) } else { 3500 } });
    }
    // initialization itself varies: every legal shape of the folder announcement (none, empty list,
    // deprecated root only, two folders, a folder that is missing / a regular file / not a file URI,
    // other spellings of the same folder, a client that sends everything VS Code sends)
    let init_shape = if pause && !use_ws_folder {
        *rng.pick(&[2u8, 8])
    } else if rng.chance(1, 2) {
        0
    } else if use_ws_folder {
        *rng.pick(&[7u8, 8, 9])
    } else {
        *rng.pick(&[1u8, 2, 3, 4, 5, 6, 8])
    };
    let mut ws_files = if use_ws_folder || matches!(init_shape, 2 | 3) { gen_ws_files(rng, &texts) } else { vec![] };
    if init_shape == 5 {
        ws_files = vec![("a.st".to_string(), rng.pick(&texts).clone())];
    }
    let ws_extras = if (use_ws_folder || matches!(init_shape, 2 | 3)) && rng.chance(1, 3) { gen_ws_extras(rng) } else { vec![] };
    LspTrace { prop: "C12".into(), ws_files, use_ws_folder, events, hash_seeds: vec![rng.next()], dir_seed: rng.next(), mode: "random".into(), init_shape, ws_extras, ranged_edits: rng.chance(1, 2) }
}

/// Adds layout trivia of the kinds the C15 quantifier names.
fn with_trivia(rng: &mut Rng, text: &str) -> String {
    let mut out = String::new();
    // a third of the decorated documents carry non-ASCII characters in their comments (one, two,
    // three and four byte characters; one and two UTF-16 units), before tokens on the same line
    let non_ascii = rng.chance(1, 3);
    for line in text.split_inclusive('\n') {
        match rng.below(12) {
            0 | 2 if non_ascii => {
                let c = *rng.pick(&["(* Größe ≤ 3 *) ", "(* é *)", "(* 😀 emoji 😀 *) ", "(* 日本語\n   zwei Zeilen ß *) ", "(*µ*)"]);
                out.push_str(c);
                out.push_str(line);
            }
            0 => {
                // comment before tokens on the same line
                out.push_str("(* lead *) ");
                out.push_str(line);
            }
            1 => {
                out.push_str("(* spans\n   two lines *) ");
                out.push_str(line);
            }
            2 => {
                out.push_str(line.trim_end_matches('\n'));
                out.push_str(" (* trailing *)\n");
            }
            3 => {
                out.push_str("\t");
                out.push_str(line);
            }
            5 if !line.contains("(*") && line.ends_with('\n') && !line.contains('\'') => {
                // a line comment (common though not standard; the lexer knows it) at the end of the line
                out.push_str(line.trim_end_matches('\n').trim_end_matches('\r'));
                out.push_str(" // note\n");
            }
            4 if line.trim().len() > 3 => {
                // a form feed (layout in IEC 61131-3, not a line terminator for an editor)
                out.push('\u{c}');
                out.push_str(line);
            }
            _ => out.push_str(line),
        }
    }
    if rng.chance(1, 10) {
        // the document ends in a line comment without a final line break
        out = format!("{}\n// last line, no line break", out.trim_end());
    }
    if rng.chance(1, 4) {
        out = out.replace('\n', "\r\n");
    }
    // rarely: a character that looks blank but is not layout (vertical tab, bare CR as left by an
    // edit that splits a CRLF, no-break space, ideographic space) after the last declaration
    if rng.chance(1, 12) {
        out.push(*rng.pick(&['\u{b}', '\r', '\u{a0}', '\u{3000}']));
        if rng.chance(1, 2) {
            out.push('\n');
        }
    }
    out
}

pub fn gen_c15(rng: &mut Rng, _thorough: bool) -> LspTrace {
    let slots = rng.range(1, 3);
    let base = text_pool(rng, slots);
    let mut texts: Vec<String> = base.iter().map(|t| if rng.chance(2, 3) { with_trivia(rng, t) } else { t.clone() }).collect();
    // the same lines under the other line-ending convention (an editor's "convert line endings")
    let n = texts.len();
    for i in 0..n {
        if rng.chance(1, 3) {
            let t = if texts[i].contains("\r\n") { texts[i].replace("\r\n", "\n") } else { texts[i].replace('\n', "\r\n") };
            texts.push(t);
        }
    }
    let mut uris: Vec<&str> = WS_URIS[..slots].to_vec();
    if rng.chance(1, 4) {
        uris.push(*rng.pick(ODD_URIS));
    }
    if rng.chance(1, 6) {
        uris.push(*rng.pick(&["ws:%61.st", "ws:./a.st", "ws:sub/../a.st"]));
    }
    // the workspace folder (a quarter of the histories) or, without one, another process writing and
    // removing files while the session runs, with a document named through a symbolic link
    let use_ws_folder = rng.chance(1, 4);
    let disk_active = !use_ws_folder && rng.chance(1, 4);
    if disk_active {
        uris.push("wsl:l.st");
    }
    let allow_restart = rng.chance(1, 3);
    let allow_multi = rng.chance(1, 3);
    let len = if rng.chance(1, 2) { rng.range(2, 8) } else { rng.range(6, 30) };
    let mut events = vec![];
    let mut counter = 0;
    for _ in 0..len {
        let e = match rng.below(10) {
            0 if allow_restart => Event::Restart,
            1 | 2 | 3 => Event::SemTok { uri: rng.pick(&uris).to_string(), id_kind: if rng.chance(3, 4) { 0 } else { rng.below(6) as u8 } },
            _ => gen_edit_event(rng, &texts, &uris, &mut counter, allow_multi),
        };
        events.push(e);
    }
    events.push(Event::SemTok { uri: rng.pick(&uris).to_string(), id_kind: 0 });
    // a workspace folder whose files on disk differ from what the editor holds (unsaved buffers):
    // the answer is about the document as synchronised, the disk only matters for never-opened files
    let ws_files = if use_ws_folder { gen_ws_files(rng, &texts) } else { vec![] };
    if disk_active {
        add_disk_activity(rng, &mut events, &texts);
    }
    let init_shape = if use_ws_folder { *rng.pick(&[0u8, 0, 7, 8, 9, 10, 11]) } else { *rng.pick(&[0u8, 0, 0, 1, 8, 10, 11]) };
    LspTrace { prop: "C15".into(), ws_files, use_ws_folder, events, hash_seeds: (0..3).map(|_| rng.next()).collect(), dir_seed: rng.next(), mode: "random".into(), init_shape, ws_extras: vec![], ranged_edits: rng.chance(1, 2) }
}

pub fn generate(prop: &str, rng: &mut Rng, thorough: bool, run_index: u64) -> LspTrace {
    match prop {
        "C11" => gen_c11(rng, thorough, run_index),
        "C12" => gen_c12(rng, thorough),
        "C15" => gen_c15(rng, thorough),
        other => panic!("no lsp generator for {other}"),
    }
}

// ---------------------------------------------------------------------------------------------
// Execution

fn lay_out_ws(t: &LspTrace) {
    let files: BTreeMap<String, String> = t.ws_files.iter().cloned().collect();
    lay_out_ws_with(t, &files);
}

/// Applies one disk event to the simulated disk.
fn apply_disk_event(name: &str, text: &Option<String>) {
    let p = root().join("ws").join(name);
    match text {
        Some(x) => {
            let _ = std::fs::write(p, x);
        }
        None => {
            let _ = std::fs::remove_file(p);
        }
    }
}

/// The simulated disk with the given regular files in ws/ (the state at some point of a history).
fn lay_out_ws_with(t: &LspTrace, files: &BTreeMap<String, String>) {
    let r = root();
    let _ = std::fs::remove_dir_all(r);
    std::fs::create_dir_all(r.join("ws")).expect("create ws");
    // the same directory under a second name
    let _ = std::os::unix::fs::symlink(r.join("ws"), r.join("wsl"));
    for (name, text) in files {
        let _ = std::fs::write(r.join("ws").join(name), text);
    }
    let ws = r.join("ws");
    for e in &t.ws_extras {
        use crate::world::Extra;
        match e {
            Extra::DanglingSymlink(n) => {
                let _ = std::os::unix::fs::symlink("/nonexistent/simplc", ws.join(n));
            }
            Extra::EmptyDir(n) => {
                let _ = std::fs::create_dir_all(ws.join(n));
            }
            Extra::SymlinkLoop(n) => {
                let _ = std::os::unix::fs::symlink(ws.join(n), ws.join(n));
            }
            _ => {}
        }
    }
}

fn ws_folder_uri(t: &LspTrace) -> Option<String> {
    if t.use_ws_folder {
        Some(format!("file://{}/ws", root().display()))
    } else {
        None
    }
}

/// The reference model of the editor: what each document currently contains.
#[derive(Clone, Debug, Default)]
pub struct Model {
    /// symbolic uri -> (version, text)
    pub docs: BTreeMap<String, (i32, String)>,
}

impl Model {
    pub fn apply(&mut self, ev: &Event) {
        match ev {
            Event::Open { uri, version, text } => {
                if uri_path(uri).is_some() {
                    self.put(uri, *version, text.clone());
                }
            }
            Event::Change { uri, version, texts } => {
                if uri_path(uri).is_some() {
                    if let Some(last) = texts.last() {
                        self.put(uri, *version, last.clone());
                    }
                }
            }
            _ => {}
        }
    }
    /// Updates the model from a message as it was sent to the server (full URIs).
    pub fn apply_sent(&mut self, sent: &Value) {
        let m = method_of(sent);
        let td = &sent["params"]["textDocument"];
        let (Some(uri), Some(version)) = (td["uri"].as_str(), td["version"].as_i64()) else { return };
        if uri_path(uri).is_none() {
            return;
        }
        if m == "textDocument/didOpen" {
            if let Some(text) = td["text"].as_str() {
                self.put(uri, version as i32, text.to_string());
            }
        } else if m == "textDocument/didChange" {
            let changes = sent["params"]["contentChanges"].as_array().cloned().unwrap_or_default();
            if changes.iter().any(|c| c.get("range").is_some()) {
                // incremental synchronisation: the changes apply in order to the current text
                let path = uri_path(uri);
                let mut text = self.docs.iter().find(|(u, _)| uri_path(u) == path).map(|(_, (_, x))| x.clone()).unwrap_or_default();
                for c in &changes {
                    let new = c["text"].as_str().unwrap_or("");
                    match c.get("range") {
                        Some(r) => {
                            let a = crate::lsp::lsp_offset(&text, r["start"]["line"].as_u64().unwrap_or(0) as u32, r["start"]["character"].as_u64().unwrap_or(0) as u32);
                            let b = crate::lsp::lsp_offset(&text, r["end"]["line"].as_u64().unwrap_or(0) as u32, r["end"]["character"].as_u64().unwrap_or(0) as u32).max(a);
                            text.replace_range(a..b, new);
                        }
                        None => text = new.to_string(),
                    }
                }
                self.put(uri, version as i32, text);
            } else if let Some(last) = changes.last() {
                if let Some(text) = last["text"].as_str() {
                    self.put(uri, version as i32, text.to_string());
                }
            }
        }
    }
    /// Stores a document; another URI spelling of the same file is the same document.
    fn put(&mut self, uri: &str, version: i32, text: String) {
        let path = uri_path(uri);
        self.docs.retain(|u, _| uri_path(u) != path);
        self.docs.insert(uri.to_string(), (version, text));
    }
    /// documents keyed by path (two URIs may denote the same file)
    pub fn by_path(&self) -> BTreeMap<String, String> {
        let mut m = BTreeMap::new();
        for (uri, (_, text)) in &self.docs {
            if let Some(p) = uri_path(uri) {
                m.insert(p, text.clone());
            }
        }
        m
    }
}

pub struct History {
    pub incarnations: Vec<Incarnation>,
}

pub fn run_history(t: &LspTrace) -> History {
    lay_out_ws(t);
    // a clean machine at the start of the history; the temporary directory then survives every
    // simulated crash, like the disk
    crate::seam::reset_sim_tmp();
    let seed = |i: usize| t.hash_seeds.get(i % t.hash_seeds.len().max(1)).copied().unwrap_or(1);
    // The history is cut at every simulated crash. Each server incarnation lives in a forked child
    // of its own (a restarted server is a new process: nothing but the disk and the editor's belief
    // survives); the child returns the recorded incarnation and the editor's belief at its end.
    let mut segments: Vec<(usize, usize)> = vec![];
    let mut from = 0;
    for (i, ev) in t.events.iter().enumerate() {
        if matches!(ev, Event::Restart) {
            segments.push((from, i));
            from = i + 1;
        }
    }
    segments.push((from, t.events.len()));
    let mut incs = vec![];
    let mut docs: BTreeMap<String, (i32, String)> = BTreeMap::new();
    let last = segments.len() - 1;
    for (k, (a, b)) in segments.iter().copied().enumerate() {
        let docs_in = docs.clone();
        let hash_seed = seed(k);
        let forked: Result<(Incarnation, BTreeMap<String, (i32, String)>), String> = crate::seam::run_forked(move || {
            let hooks = SimHooks::new(root(), t.dir_seed, vec![]);
            let mut session = Session::start_shaped(hash_seed, hooks, ws_folder_uri(t), t.init_shape);
            let mut model = Model { docs: docs_in };
            if k > 0 {
                // the editor re-opens what it believes to be open
                for (uri, (version, text)) in model.docs.clone() {
                    let open = Event::Open { uri, version, text };
                    session.deliver(Some(a - 1), "reopen", event_message(&open, a - 1).unwrap());
                }
            }
            let mut prev_notification: Option<lsp_server::Message> = None;
            for i in a..b {
                if session.is_dead() {
                    break;
                }
                let ev = &t.events[i];
                match ev {
                    Event::Restart => unreachable!("segments are cut at restarts"),
                    Event::Pause { millis } => {
                        // the barrier makes sure the server is idle when the silence begins
                        let barrier = lsp_server::Message::Notification(lsp_server::Notification { method: "$/simplc/barrier".into(), params: Value::Null });
                        session.deliver(Some(i), "barrier", barrier);
                        std::thread::sleep(std::time::Duration::from_millis(*millis));
                        session.note(Some(i), "pause", serde_json::json!({"method": "$/simplc/pause", "params": {"millis": millis}}));
                        prev_notification = None;
                    }
                    Event::Disk { name, text } => {
                        let barrier = lsp_server::Message::Notification(lsp_server::Notification { method: "$/simplc/barrier".into(), params: Value::Null });
                        session.deliver(Some(i), "barrier", barrier);
                        if !session.is_dead() {
                            apply_disk_event(name, text);
                            session.note(Some(i), "disk", serde_json::json!({"method": "$/simplc/disk", "params": {"name": name, "text": text}}));
                        }
                        prev_notification = None;
                    }
                    Event::DupPrev => {
                        if let Some(m) = &prev_notification {
                            session.deliver(Some(i), "duplicateDelivery", m.clone());
                        }
                    }
                    _ => {
                        let mut m = event_message(ev, i).unwrap();
                        if let Event::Change { uri, version, texts } = ev {
                            // a client makes use of incremental synchronisation iff the server advertises it
                            if t.ranged_edits && texts.len() == 1 && session.advertises_incremental_sync() {
                                let path = uri_path(uri);
                                let current = model.docs.iter().find(|(u, _)| path.is_some() && uri_path(u) == path).map(|(_, (_, x))| x.clone());
                                if let Some(old) = current {
                                    if !old.contains('\r') && !texts[0].contains('\r') {
                                        m = lsp_server::Message::Notification(lsp_server::Notification {
                                            method: "textDocument/didChange".into(),
                                            params: serde_json::json!({"textDocument": {"uri": expand_uri(uri), "version": version}, "contentChanges": [crate::lsp::ranged_change(&old, &texts[0])]}),
                                        });
                                    }
                                }
                            }
                        }
                        prev_notification = if matches!(m, lsp_server::Message::Notification(_)) { Some(m.clone()) } else { None };
                        session.deliver(Some(i), ev.kind(), m);
                        model.apply(ev);
                    }
                }
            }
            let dead = session.is_dead();
            let inc = if k < last && !dead { session.crash() } else { session.shutdown_and_exit() };
            (inc, model.docs)
        });
        match forked {
            Ok((inc, docs_out)) => {
                let died = inc.died.is_some();
                incs.push(inc);
                docs = docs_out;
                if died {
                    break;
                }
            }
            Err(why) => {
                // the whole server process went down (abort, stack overflow): the incarnation is
                // recorded as dead at its first step
                incs.push(Incarnation { hash_seed, steps: vec![], died: Some(format!("server process died: {why}")), died_at_step: None, result: None, crashed_by_simulator: false, still_receiving_after_exit: false });
                break;
            }
        }
    }
    History { incarnations: incs }
}

// ---------------------------------------------------------------------------------------------
// Helpers over recorded JSON

/// URIs are compared after RFC 3986 normalisation (the server parses and re-serialises them, so
/// `file:///r/ws/./a.st` comes back as `file:///r/ws/a.st`).
fn norm_uri(u: &str) -> String {
    lsp_types::Url::parse(u).map(|p| p.to_string()).unwrap_or_else(|_| u.to_string())
}

fn is_response(v: &Value) -> bool {
    v.get("id").is_some() && v.get("method").is_none()
}
fn is_request(v: &Value) -> bool {
    v.get("id").is_some() && v.get("method").is_some()
}
fn method_of(v: &Value) -> String {
    v.get("method").and_then(|m| m.as_str()).unwrap_or("").to_string()
}

fn publish_of(step: &Step) -> Vec<&Value> {
    step.outputs.iter().filter(|o| method_of(o) == "textDocument/publishDiagnostics").collect()
}

/// The notification a step delivered, as (uri, version, is didOpen/didChange).
fn edit_of(step: &Step) -> Option<(String, i64)> {
    let m = method_of(&step.sent);
    if m != "textDocument/didOpen" && m != "textDocument/didChange" {
        return None;
    }
    let td = &step.sent["params"]["textDocument"];
    Some((td["uri"].as_str()?.to_string(), td["version"].as_i64()?))
}

/// The first `n` bytes of `s`, cut back to a character boundary.
fn head(s: &str, n: usize) -> &str {
    if s.len() <= n {
        return s;
    }
    let mut end = n;
    while !s.is_char_boundary(end) {
        end -= 1;
    }
    &s[..end]
}

fn short(v: &Value) -> String {
    let s = v.to_string();
    if s.len() > 300 {
        format!("{}…", head(&s, 300))
    } else {
        s
    }
}

fn class_of_text(text: &str) -> &'static str {
    if text.is_empty() {
        return "empty";
    }
    let (_, lex) = tokenize_program(text, &FileId::default(), &ParseOptions::default());
    if !lex.is_empty() {
        return "lexerr";
    }
    match ironplc_parser::parse_program(text, &FileId::default(), &ParseOptions::default()) {
        Err(_) => "synerr",
        Ok(_) => "parses",
    }
}

// ---------------------------------------------------------------------------------------------
// C12: protocol monitor

fn oracle_c12(t: &LspTrace, h: &History, stats: &mut Stats) -> Vec<Violation> {
    let mut out = vec![];
    for inc in &h.incarnations {
        for (si, step) in inc.steps.iter().enumerate() {
            let responses: Vec<&Value> = step.outputs.iter().filter(|o| is_response(o)).collect();
            let m = method_of(&step.sent);
            if is_request(&step.sent) {
                let id = &step.sent["id"];
                let died_here = inc.died_at_step == Some(si);
                let matching = responses.iter().filter(|r| &r["id"] == id).count();
                if matching == 0 && !died_here {
                    out.push(viol("C12", format!("C12/no-response/method={m}"), format!("request {} got no response; outputs of the step: {:?}", short(&step.sent), step.outputs.iter().map(short).collect::<Vec<_>>())));
                } else if matching > 1 {
                    out.push(viol("C12", format!("C12/duplicate-response/method={m}"), format!("request {} was answered {matching} times", short(&step.sent))));
                }
                if responses.len() > matching {
                    out.push(viol("C12", format!("C12/foreign-response/method={m}"), format!("while processing {} the server emitted a response with another id: {:?}", short(&step.sent), responses.iter().map(|r| short(r)).collect::<Vec<_>>())));
                }
                if matching == 1 {
                    stats.count("c12.requests_answered");
                    // "a result, or an error for methods it does not implement"
                    let r = responses.iter().find(|r| &r["id"] == id).unwrap();
                    let has_error = r.get("error").map(|e| !e.is_null()).unwrap_or(false);
                    let has_result = r.get("result").is_some();
                    if has_error && has_result && !r["result"].is_null() {
                        out.push(viol("C12", format!("C12/result-and-error/method={m}"), format!("the response to {} carries both a result and an error: {}", short(&step.sent), short(r))));
                    }
                    // only for names that are no request of the protocol at all (made-up methods, names of
                    // notifications): a real protocol request (hover, completion, …/full/delta, …) is one
                    // a server may come to implement, and then a result is the right answer
                    let never_a_request = matches!(
                        m.as_str(),
                        "$/unknown" | "shutdown/now" | "textDocument/semanticTokens" | "textDocument/didOpen" | "textDocument/didChange" | "textDocument/didClose" | "initialized" | "exit" | "$/cancelRequest"
                    );
                    if step.label == "unknownRequest" && never_a_request && !has_error {
                        out.push(viol("C12", format!("C12/unimplemented-method-without-error/method={m}"), format!("{} is not implemented by this server but was answered with {}", short(&step.sent), short(r))));
                    }
                    if (m == "initialize" || m == "shutdown") && has_error {
                        out.push(viol("C12", format!("C12/handshake-error/method={m}"), format!("{m} was answered with {}", short(r))));
                    }
                }
            } else if !responses.is_empty() {
                let what = if is_response(&step.sent) { "client-response".to_string() } else { format!("notification={m}") };
                out.push(viol("C12", format!("C12/response-without-request/{what}"), format!("{} is not a request but the server emitted {:?}", short(&step.sent), responses.iter().map(|r| short(r)).collect::<Vec<_>>())));
            }
            // server -> client requests (registerCapability, workDoneProgress/create, …) are not
            // forbidden by the property; they are only counted
            if step.outputs.iter().any(is_request) {
                stats.count("c12.server_to_client_requests");
            }
        }
        if let Some(why) = &inc.died {
            let at = inc.died_at_step.and_then(|i| inc.steps.get(i));
            let kind = at.map(|s| s.label.clone()).unwrap_or_default();
            out.push(viol(
                "C12",
                format!("C12/server-died/{kind}/{}", panic_signature(why)),
                format!("server terminated while processing step {:?} ({}): {why}", inc.died_at_step, at.map(|s| short(&s.sent)).unwrap_or_default()),
            ));
        } else if inc.still_receiving_after_exit {
            out.push(viol("C12", "C12/not-terminated-after-exit".into(), format!("after shutdown and exit the server was waiting for further messages instead of terminating (result after the connection was cut: {:?})", inc.result)));
        } else if !inc.crashed_by_simulator {
            match &inc.result {
                Some(Ok(())) => stats.count("c12.clean_exits"),
                other => out.push(viol("C12", "C12/exit-status".into(), format!("after shutdown + exit start_with_connection returned {other:?} (the process would not exit with status 0)"))),
            }
        }
    }
    // recovery probe: the last event (a didOpen of a valid document on a fresh URI) is served
    if let Some(last_inc) = h.incarnations.last() {
        if last_inc.died.is_none() {
            let probe_index = t.events.iter().rposition(|e| matches!(e, Event::Open { uri, .. } if uri == "ws:probe.st"));
            if let Some(step) = last_inc.steps.iter().find(|s| probe_index.is_some() && s.event == probe_index && s.label == "didOpen") {
                let probe_uri = expand_uri("ws:probe.st");
                let pubs: Vec<&Value> = publish_of(step).into_iter().filter(|p| p["params"]["uri"].as_str() == Some(&probe_uri)).collect();
                let ok = pubs.len() == 1;
                if ok {
                    stats.count("c12.recovery_probes_served");
                } else {
                    out.push(viol("C12", "C12/recovery-probe-not-served".into(), format!("after the history the didOpen of a valid document got outputs {:?}", step.outputs.iter().map(short).collect::<Vec<_>>())));
                }
            }
        }
    }
    out
}

// ---------------------------------------------------------------------------------------------
// C11: reference models

/// What a freshly started server publishes for `uri` when it is opened last, after all other
/// documents of the model (in sorted or shuffled order).
///
/// Every reference server is a forked child of its own (the run's process is single-threaded by
/// then: the servers of the history have been joined), so process-global state that a change under
/// test may keep is shared neither with the server of the history nor between reference servers —
/// exactly as for a really restarted server.
fn fresh_server_publish(t: &LspTrace, model: &Model, uri: &str, version: i32, seed: u64, shuffle: bool) -> Result<Value, String> {
    crate::seam::reset_sim_tmp(); // a freshly started server on a clean machine
    match crate::seam::run_forked(|| fresh_server_publish_in_this_process(t, model, uri, version, seed, shuffle)) {
        Ok(r) => r,
        Err(why) => Err(format!("fresh server process died: {why}")),
    }
}

fn fresh_server_publish_in_this_process(t: &LspTrace, model: &Model, uri: &str, version: i32, seed: u64, shuffle: bool) -> Result<Value, String> {
    let hooks = SimHooks::new(root(), mix(&[seed, 77]), vec![]);
    let mut s = Session::start(seed, hooks, ws_folder_uri(t));
    let target_path = uri_path(uri);
    let mut others: Vec<(&String, &(i32, String))> = model.docs.iter().filter(|(u, _)| uri_path(u) != target_path).collect();
    if shuffle {
        Rng::new(seed).shuffle(&mut others);
    }
    for (u, (v, text)) in others {
        let ev = Event::Open { uri: u.clone(), version: *v, text: text.clone() };
        s.deliver(None, "didOpen", event_message(&ev, 0).unwrap());
    }
    let text = model.docs.iter().find(|(u, _)| uri_path(u) == target_path).map(|(_, (_, t))| t.clone()).unwrap_or_default();
    let ev = Event::Open { uri: uri.to_string(), version, text };
    s.deliver(None, "target", event_message(&ev, 0).unwrap());
    let inc = s.shutdown_and_exit();
    if let Some(d) = inc.died {
        return Err(format!("fresh server died: {d}"));
    }
    let step = inc.steps.iter().find(|s| s.label == "target").ok_or("no target step")?;
    let target_uri = expand_uri(uri);
    let all = publish_of(step);
    let pubs: Vec<&Value> = all.iter().copied().filter(|p| p["params"]["uri"].as_str().map(norm_uri) == Some(norm_uri(&target_uri))).collect();
    if pubs.len() != 1 {
        return Err(format!("fresh server published {} notifications for the document", pubs.len()));
    }
    Ok(pubs[0]["params"]["diagnostics"].clone())
}

fn sorted_multiset(v: &Value) -> Vec<String> {
    let mut items: Vec<String> = v.as_array().map(|a| a.iter().map(|x| x.to_string()).collect()).unwrap_or_default();
    items.sort();
    items
}

fn offset_to_line_col(text: &str, offset: usize) -> Option<(u64, u64)> {
    offset_to_line_col_in(text, offset, Unit::Chars)
}

fn offset_to_line_col_in(text: &str, offset: usize, unit: Unit) -> Option<(u64, u64)> {
    if offset > text.len() || !text.is_char_boundary(offset) {
        return None;
    }
    let mut line = 0;
    let mut col = 0u64;
    for c in text[..offset].chars() {
        if c == '\n' {
            line += 1;
            col = 0;
        } else {
            col += unit.width(c) as u64;
        }
    }
    Some((line, col))
}

/// Runs the real `check` on a directory holding the model's contents (matched by base name).
fn check_on_contents(t: &LspTrace, model: &Model, seed: u64) -> Result<(bool, Vec<DiagRec>, Vec<String>), String> {
    let chk = root().join("chk");
    let _ = std::fs::remove_dir_all(&chk);
    std::fs::create_dir_all(&chk).map_err(|e| e.to_string())?;
    let mut contents: BTreeMap<String, String> = BTreeMap::new();
    if t.use_ws_folder {
        for (name, text) in &t.ws_files {
            let lower = name.to_lowercase();
            if lower.ends_with(".st") || lower.ends_with(".iec") {
                contents.insert(name.clone(), text.clone());
            }
        }
    }
    for (path, text) in model.by_path() {
        let base = path.rsplit('/').next().unwrap_or(&path).to_string();
        contents.insert(base, text);
    }
    for (name, text) in &contents {
        std::fs::write(chk.join(name), text).map_err(|e| e.to_string())?;
    }
    let args = vec![chk.clone()];
    crate::seam::reset_sim_tmp();
    // like every simulated command-line process: a forked child, entry point on a fresh thread
    let forked: Result<Result<(bool, Vec<DiagRec>, Vec<String>), String>, String> = crate::seam::run_forked(move || {
        let hooks = SimHooks::new(root(), mix(&[seed, 78]), vec![]);
        crate::seam::capture_begin();
        let res = run_simulated_process(seed, Some(hooks.clone()), move || ironplcc::cli::check(&args, false));
        let log = hooks.take_log();
        let mut diags = vec![];
        for (with_project, records) in &log.diag_calls {
            for r in records {
                let conv = |l: &ironplcc::verif::LabelRecord| crate::world::LabelRec { file: l.file.clone(), start: l.start, end: l.end, message: l.message.clone(), text_len: l.text_len, on_char_boundary: l.on_char_boundary };
                diags.push(DiagRec { code: r.code.clone(), primary: conv(&r.primary), secondary: r.secondary.iter().map(conv).collect(), with_project: *with_project });
            }
        }
        // what `check` itself reports as the place of each diagnostic: the `file:line:col` lines
        let (stdout, stderr) = crate::seam::capture_end();
        let printed = crate::world::parse_printed(&stdout, &stderr);
        let _ = printed;
        // one entry per rendered diagnostic: the first `file:line:col` line after its `error[…]` header
        // (further ones belong to secondary labels in other files)
        let mut primary_locations: Vec<String> = vec![];
        let mut open = false;
        for line in crate::seam::strip_ansi(&stderr).lines() {
            if line.starts_with("error[") {
                if open {
                    primary_locations.push(String::new());
                }
                open = true;
            } else if open {
                if let Some(pos) = line.find("┌─ ") {
                    primary_locations.push(line[pos + "┌─ ".len()..].trim().to_string());
                    open = false;
                }
            }
        }
        if open {
            primary_locations.push(String::new());
        }
        match res {
            Ok(r) => Ok((r.is_ok(), diags, primary_locations)),
            Err(p) => Err(format!("check panicked: {p}")),
        }
    });
    let _ = std::fs::remove_dir_all(&chk);
    match forked {
        Ok(r) => r,
        Err(why) => Err(format!("check crashed: {why}")),
    }
}

/// Updates the oracle's picture of the simulated disk from a recorded disk step.
fn track_disk(disk: &mut BTreeMap<String, String>, step: &Step) {
    let Some(name) = step.sent["params"]["name"].as_str() else { return };
    match step.sent["params"]["text"].as_str() {
        Some(x) => {
            disk.insert(name.to_string(), x.to_string());
        }
        None => {
            disk.remove(name);
        }
    }
}

fn base_name(p: &str) -> &str {
    p.rsplit('/').next().unwrap_or(p)
}

fn model_class_signature(model: &Model) -> String {
    let mut classes: Vec<&'static str> = model.docs.values().map(|(_, t)| class_of_text(t)).collect();
    classes.sort();
    classes.join("+")
}

fn oracle_c11(t: &LspTrace, h: &History, stats: &mut Stats) -> Vec<Violation> {
    let mut out = vec![];
    let trace_hash = hash_str(&serde_json::to_string(t).unwrap());
    // the simulated disk as the history changes it (it survives restarts); reference executions see
    // the disk as it was at the step they are compared with
    let has_disk_events = t.events.iter().any(|e| matches!(e, Event::Disk { .. }));
    let mut disk: BTreeMap<String, String> = t.ws_files.iter().cloned().collect();
    for (ii, inc) in h.incarnations.iter().enumerate() {
        // the reference model of *this* server incarnation: what it has been told so far (a
        // restarted server knows nothing)
        let mut model = Model::default();
        for (si, step) in inc.steps.iter().enumerate() {
            model.apply_sent(&step.sent);
            if step.label == "disk" {
                track_disk(&mut disk, step);
                continue;
            }
            let Some((uri, version)) = edit_of(step) else { continue };
            if has_disk_events {
                lay_out_ws_with(t, &disk);
            }
            if inc.died_at_step == Some(si) {
                let why = inc.died.clone().unwrap_or_default();
                out.push(viol("C11", format!("C11/server-died/{}/{}", step.label, panic_signature(&why)), format!("server terminated while processing {}: {why}", short(&step.sent))));
                return out;
            }
            stats.count("c11.edit_steps");
            // oracle 1: exactly one publishDiagnostics *for that document*, carrying the notification's
            // version (what else the server chooses to send — publishes for other documents, log
            // messages — is not constrained by the property and only counted)
            let all_pubs = publish_of(step);
            let pubs: Vec<&Value> = all_pubs.iter().copied().filter(|p| p["params"]["uri"].as_str().map(norm_uri) == Some(norm_uri(&uri))).collect();
            if step.outputs.len() > pubs.len() {
                stats.add("c11.other_outputs_in_edit_steps", (step.outputs.len() - pubs.len()) as u64);
            }
            let ok1 = pubs.len() == 1 && pubs[0]["params"]["version"].as_i64() == Some(version) && !step.outputs.iter().any(is_response);
            if !ok1 {
                out.push(viol(
                    "C11",
                    format!("C11/not-exactly-one-publish/{}", step.label),
                    format!("{} (uri {uri}, version {version}) was answered by {:?}", step.label, step.outputs.iter().map(short).collect::<Vec<_>>()),
                ));
                continue;
            }
            let published = &pubs[0]["params"]["diagnostics"];
            // only file documents have "current contents"
            let sym = uri.clone();
            let Some(path) = uri_path(&sym) else { continue };
            let Some(text) = model.by_path().get(&path).cloned() else {
                // didChange without content on a never-opened document: no current contents
                continue;
            };
            // oracle 2: fresh-server equivalence
            let seed = mix(&[trace_hash, ii as u64, si as u64]);
            let classes = model_class_signature(&model);
            match fresh_server_publish(t, &model, &sym, version as i32, seed, false) {
                Ok(fresh) => {
                    stats.count("c11.fresh_server_comparisons");
                    if sorted_multiset(&fresh) != sorted_multiset(published) {
                        out.push(viol(
                            "C11",
                            format!("C11/fresh-server-mismatch/{}/docs={classes}", step.label),
                            format!(
                                "after the history the server published for {uri} (version {version}): {} but a freshly started server holding the same current contents ({} documents) publishes {}",
                                short(published),
                                model.docs.len(),
                                short(&fresh)
                            ),
                        ));
                        continue;
                    }
                    // two fresh servers that differ only in seed and open order must agree as well
                    if (si + ii) % 4 == 0 && model.docs.len() > 1 {
                        if let Ok(fresh2) = fresh_server_publish(t, &model, &sym, version as i32, mix(&[seed, 5]), true) {
                            stats.count("c11.fresh_vs_fresh_comparisons");
                            if sorted_multiset(&fresh2) != sorted_multiset(&fresh) {
                                out.push(viol(
                                    "C11",
                                    format!("C11/fresh-servers-disagree/docs={classes}"),
                                    format!("two freshly started servers given the same contents (different OS randomness / open order) publish {} and {} for {uri}", short(&fresh), short(&fresh2)),
                                ));
                                continue;
                            }
                        }
                    }
                }
                Err(e) => {
                    out.push(viol("C11", format!("C11/fresh-server-failed/docs={classes}"), e));
                    continue;
                }
            }
            // oracle 3: equals `check` on files with the same contents
            match check_on_contents(t, &model, mix(&[seed, 9])) {
                Ok((_ok, diags, printed_locations)) => {
                    stats.count("c11.check_comparisons");
                    // The start position `check` reports for a diagnostic is the line:column it prints
                    // (1-based, counted in characters). Byte offsets into the text `check` holds are only
                    // a fallback (another output format): that text may legitimately differ from the
                    // stored bytes by a normalisation applied after decoding (line ends, end-of-file mark).
                    let printed_pos: Vec<Option<(u64, u64)>> = if printed_locations.len() == diags.len() {
                        printed_locations
                            .iter()
                            .map(|l| {
                                let mut it = l.rsplitn(3, ':');
                                let col = it.next()?.trim().parse::<u64>().ok()?;
                                let line = it.next()?.trim().parse::<u64>().ok()?;
                                Some((line.checked_sub(1)?, col.checked_sub(1)?))
                            })
                            .collect()
                    } else {
                        vec![None; diags.len()]
                    };
                    if printed_pos.iter().any(|p| p.is_some()) {
                        stats.count("c11.check_comparisons_by_printed_position");
                    }
                    let base = base_name(&path);
                    let pubset_all: Vec<(String, u64, u64)> = published
                        .as_array()
                        .map(|a| a.iter().map(|d| (d["code"].as_str().unwrap_or("").to_string(), d["range"]["start"]["line"].as_u64().unwrap_or(0), d["range"]["start"]["character"].as_u64().unwrap_or(0))).collect())
                        .unwrap_or_default();
                    let mut by_base: BTreeMap<String, String> = BTreeMap::new();
                    if t.use_ws_folder {
                        // never-opened files of the workspace folder are part of the project too
                        for (name, text) in &t.ws_files {
                            by_base.insert(name.clone(), text.clone());
                        }
                    }
                    by_base.extend(model.by_path().into_iter().map(|(p, t)| (base_name(&p).to_string(), t)));
                    // The comparison in one unit of "character": the property does not name one (the
                    // protocol's default is UTF-16 code units, the pinned tree counts characters); a
                    // publish is accepted iff it agrees with `check` in ONE unit used for all of its
                    // diagnostics. For ASCII documents the units coincide.
                    type Pos = (u64, u64);
                    let compare = |unit: Unit| -> (Vec<(String, Pos)>, Vec<(String, u64, u64)>, Vec<((String, u64, u64), Vec<Pos>)>) {
                        let mut pubset = pubset_all.clone();
                        let mut missing = vec![];
                        // (code, acceptable start positions) of check diagnostics that touch this file only
                        // with a secondary label: the primary label's position in its own file, or the
                        // secondary label's position in this file
                        let mut secondary_codes: Vec<(String, Vec<Pos>)> = vec![];
                        for (di, d) in diags.iter().enumerate() {
                            if base_name(&d.primary.file) == base {
                                // (the printed column counts characters: usable for that unit, and for
                                // every unit when the line is ASCII up to there)
                                let by_offset = offset_to_line_col_in(&text, d.primary.start, unit);
                                let pos = match printed_pos[di] {
                                    Some(p) if unit == Unit::Chars || text.is_ascii() => p,
                                    _ => by_offset.unwrap_or((u64::MAX, u64::MAX)),
                                };
                                if let Some(i) = pubset.iter().position(|p| p.0 == d.code && p.1 == pos.0 && p.2 == pos.1) {
                                    pubset.remove(i);
                                } else {
                                    missing.push((d.code.clone(), pos));
                                }
                            } else if d.secondary.iter().any(|l| base_name(&l.file) == base) {
                                let mut acceptable = vec![];
                                // (positions of labels in other files are only known as byte offsets into
                                // the text `check` holds; with carriage returns around those may be offsets
                                // into a normalised text, so the position is not judged then)
                                if by_base.values().any(|t| t.contains('\r')) {
                                    secondary_codes.push((d.code.clone(), acceptable));
                                    continue;
                                }
                                if let Some(pos) = by_base.get(base_name(&d.primary.file)).and_then(|t| offset_to_line_col_in(t, d.primary.start, unit)) {
                                    acceptable.push(pos);
                                }
                                for l in d.secondary.iter().filter(|l| base_name(&l.file) == base) {
                                    if let Some(pos) = offset_to_line_col_in(&text, l.start, unit) {
                                        acceptable.push(pos);
                                    }
                                }
                                secondary_codes.push((d.code.clone(), acceptable));
                            }
                        }
                        // anything else published must be a check diagnostic that only touches this file with a
                        // secondary label. Several of those may carry the same code (one P0019 per declaration
                        // of a name, say): what was published is matched one-to-one with them, a published item
                        // fitting an entry if the entry has no known position or lists the item's position.
                        let mut extras = vec![];
                        let mut misplaced = vec![];
                        let fits = |p: &(String, u64, u64), e: &(String, Vec<Pos>)| e.0 == p.0 && (e.1.is_empty() || e.1.contains(&(p.1, p.2)));
                        // a maximum matching between published items and entries (augmenting paths; the
                        // sets are small): only what cannot be matched at all is reported
                        let n_items = pubset.len();
                        let adj: Vec<Vec<usize>> = pubset.iter().map(|p| secondary_codes.iter().enumerate().filter(|(_, e)| fits(p, e)).map(|(i, _)| i).collect()).collect();
                        let mut entry_of: Vec<Option<usize>> = vec![None; secondary_codes.len()]; // entry -> item
                        fn augment(item: usize, adj: &[Vec<usize>], entry_of: &mut [Option<usize>], seen: &mut [bool]) -> bool {
                            for &e in &adj[item] {
                                if seen[e] {
                                    continue;
                                }
                                seen[e] = true;
                                if entry_of[e].is_none() || augment(entry_of[e].unwrap(), adj, entry_of, seen) {
                                    entry_of[e] = Some(item);
                                    return true;
                                }
                            }
                            false
                        }
                        for item in 0..n_items {
                            let mut seen = vec![false; secondary_codes.len()];
                            augment(item, &adj, &mut entry_of, &mut seen);
                        }
                        let matched_items: Vec<usize> = entry_of.iter().flatten().copied().collect();
                        let left: Vec<(String, u64, u64)> = pubset.iter().enumerate().filter(|(i, _)| !matched_items.contains(i)).map(|(_, p)| p.clone()).collect();
                        let mut secondary_codes: Vec<(String, Vec<Pos>)> = secondary_codes.into_iter().enumerate().filter(|(i, _)| entry_of[*i].is_none()).map(|(_, e)| e).collect();
                        for p in &left {
                            if let Some(i) = secondary_codes.iter().position(|c| c.0 == p.0) {
                                let (_, acceptable) = secondary_codes.remove(i);
                                misplaced.push((p.clone(), acceptable));
                            } else {
                                extras.push(p.clone());
                            }
                        }
                        (missing, extras, misplaced)
                    };
                    let ascii = by_base.values().all(|t| t.is_ascii());
                    if !ascii {
                        stats.count("c11.check_comparisons_non_ascii");
                    }
                    let (mut missing, mut extras, mut misplaced) = compare(Unit::Chars);
                    if !ascii && !(missing.is_empty() && extras.is_empty() && misplaced.is_empty()) {
                        for unit in [Unit::Utf16, Unit::Bytes] {
                            let r = compare(unit);
                            if r.0.is_empty() && r.1.is_empty() && r.2.is_empty() {
                                (missing, extras, misplaced) = r;
                                break;
                            }
                        }
                    }
                    if !misplaced.is_empty() {
                        out.push(viol(
                            "C11",
                            format!("C11/check-position-mismatch/{}", misplaced[0].0 .0),
                            format!("for {base}: the server publishes {:?} for a problem whose primary label is in another document; `check` places that problem at one of {:?} (primary label in its file / secondary label in this file); published = {:?}; check reported {:?}", misplaced[0].0, misplaced[0].1, pubset_all, diags.iter().map(|d| (d.code.clone(), base_name(&d.primary.file).to_string(), d.primary.start, d.secondary.iter().map(|l| (base_name(&l.file).to_string(), l.start)).collect::<Vec<_>>())).collect::<Vec<_>>()),
                        ));
                    }
                    if !missing.is_empty() || !extras.is_empty() {
                        let mut codes: Vec<String> = missing.iter().map(|m| format!("-{}", m.0)).chain(extras.iter().map(|e| format!("+{}", e.0))).collect();
                        codes.sort();
                        codes.dedup();
                        out.push(viol(
                            "C11",
                            format!("C11/check-mismatch/{}", codes.join(",")),
                            format!("for {base}: `check` on the same contents reports {missing:?} (code, (line, col)) that the server did not publish, and the server published {extras:?} that `check` does not report for this file; published = {}; check printed {} location line(s) for {} diagnostic(s)", short(published), printed_pos.iter().filter(|p| p.is_some()).count(), diags.len()),
                        ));
                    }
                }
                Err(e) => out.push(viol("C11", "C11/check-crashed".into(), e)),
            }
        }
        if inc.died.is_some() && out.is_empty() {
            // died on a step that is not an edit (cannot happen in C11 histories, but do not hide it)
            let why = inc.died.clone().unwrap_or_default();
            out.push(viol("C11", format!("C11/server-died/other/{}", panic_signature(&why)), why));
        }
    }
    out
}

// ---------------------------------------------------------------------------------------------
// C15: semantic tokens

fn legend_of(h: &History) -> (Vec<String>, usize) {
    for inc in &h.incarnations {
        if let Some(step) = inc.steps.first() {
            for o in &step.outputs {
                let legend = &o["result"]["capabilities"]["semanticTokensProvider"]["legend"];
                if let Some(arr) = legend["tokenTypes"].as_array() {
                    let n_modifiers = legend["tokenModifiers"].as_array().map(|a| a.len()).unwrap_or(0);
                    return (arr.iter().map(|v| v.as_str().unwrap_or("").to_string()).collect(), n_modifiers);
                }
            }
        }
    }
    (vec![], 0)
}

/// (line, character) of every byte offset that starts a character, LSP style (ASCII documents:
/// UTF-16 units = chars = bytes).
fn line_col_table(text: &str, unit: Unit) -> BTreeMap<(u32, u32), usize> {
    let mut m = BTreeMap::new();
    let mut line = 0u32;
    let mut col = 0u32;
    for (i, c) in text.char_indices() {
        m.insert((line, col), i);
        if c == '\n' {
            line += 1;
            col = 0;
        } else {
            col += unit.width(c);
        }
    }
    m.insert((line, col), text.len());
    m
}

/// The unit in which a server counts characters within a line. The protocol's default is UTF-16
/// code units; the property does not name one, so a response is accepted if it is exact in ONE
/// unit used throughout (positions and lengths alike). For ASCII documents the three coincide.
#[derive(Clone, Copy, Debug, PartialEq)]
enum Unit {
    Utf16,
    Bytes,
    Chars,
}

impl Unit {
    fn width(self, c: char) -> u32 {
        match self {
            Unit::Utf16 => c.len_utf16() as u32,
            Unit::Bytes => c.len_utf8() as u32,
            Unit::Chars => 1,
        }
    }
}

fn check_tokens(text: &str, data: &[u64], legend: &[String], n_modifiers: usize) -> Result<usize, (String, String)> {
    if text.is_ascii() {
        return check_tokens_in_unit(text, data, legend, n_modifiers, Unit::Utf16);
    }
    let first = check_tokens_in_unit(text, data, legend, n_modifiers, Unit::Utf16);
    if first.is_ok() {
        return first;
    }
    let mut others = String::new();
    for unit in [Unit::Bytes, Unit::Chars] {
        match check_tokens_in_unit(text, data, legend, n_modifiers, unit) {
            Ok(n) => return Ok(n),
            Err((clause, detail)) => others.push_str(&format!("; counting in {unit:?}: {clause}: {detail}")),
        }
    }
    first.map_err(|(clause, detail)| (clause, format!("{detail} (counting in UTF-16 units{others})")))
}

/// Words that are keywords beyond doubt in IEC 61131-3 (delimiters of declarations and
/// statements); deliberately not complete. Elementary type names are left out: an implementation
/// may well give them a legend entry of their own.
const DEFINITE_KEYWORDS: &[&str] = &[
    "FUNCTION_BLOCK", "END_FUNCTION_BLOCK", "FUNCTION", "END_FUNCTION", "PROGRAM", "END_PROGRAM", "VAR", "END_VAR", "VAR_INPUT", "VAR_OUTPUT",
    "VAR_EXTERNAL", "VAR_GLOBAL", "TYPE", "END_TYPE", "STRUCT", "END_STRUCT", "IF", "THEN", "ELSE", "END_IF", "CONFIGURATION", "END_CONFIGURATION",
    "RESOURCE", "END_RESOURCE", "TASK", "WITH",
];

fn check_tokens_in_unit(text: &str, data: &[u64], legend: &[String], n_modifiers: usize, unit: Unit) -> Result<usize, (String, String)> {
    let (tokens, lex) = tokenize_program(text, &FileId::default(), &ParseOptions::default());
    debug_assert!(lex.is_empty());
    if data.len() % 5 != 0 {
        return Err(("length-not-multiple-of-5".into(), format!("data has {} entries", data.len())));
    }
    let table = line_col_table(text, unit);
    // reference: start offset -> (length in chars, text, type)
    let mut reference: BTreeMap<usize, (&ironplc_parser::token::Token, bool)> = BTreeMap::new();
    for tok in &tokens {
        if tok.span.end > tok.span.start && tok.text == text.get(tok.span.start..tok.span.end).unwrap_or("\u{0}") {
            reference.insert(tok.span.start, (tok, false));
        }
    }
    let mut line = 0u32;
    let mut start = 0u32;
    let mut prev_end: Option<(u32, u32)> = None;
    let mut spelling_types: BTreeMap<String, u64> = BTreeMap::new();
    let mut word_operator_class: Option<(u64, String)> = None;
    for (k, chunk) in data.chunks(5).enumerate() {
        let (dl, ds, len, ty, mods) = (chunk[0] as u32, chunk[1] as u32, chunk[2] as u32, chunk[3], chunk[4]);
        if dl > 0 {
            line += dl;
            start = ds;
        } else {
            start += ds;
        }
        if k > 0 && dl == 0 && ds == 0 {
            return Err(("not-strictly-increasing".into(), format!("token {k} has delta (0, 0)")));
        }
        if let Some((pl, pe)) = prev_end {
            if line == pl && start < pe {
                return Err(("overlap".into(), format!("token {k} at ({line},{start}) overlaps the previous token ending at ({pl},{pe})")));
            }
        }
        if ty as usize >= legend.len() {
            return Err(("type-outside-legend".into(), format!("token {k} has type index {ty}, legend has {} entries", legend.len())));
        }
        if mods >> n_modifiers.min(63) != 0 {
            return Err(("modifiers-outside-legend".into(), format!("token {k} has modifier bits {mods:b} but only {n_modifiers} modifier(s) are advertised")));
        }
        let Some(offset) = table.get(&(line, start)).copied() else {
            return Err(("position-outside-document".into(), format!("token {k} decodes to ({line},{start}) which is not a position of the document")));
        };
        let Some((tok, hit)) = reference.get_mut(&offset) else {
            return Err(("not-a-lexeme-start".into(), format!("token {k} decodes to ({line},{start}) = offset {offset}, where no lexeme of the document starts (text there: {:?})", text.get(offset..(offset + 12).min(text.len())))));
        };
        if *hit {
            return Err(("lexeme-reported-twice".into(), format!("token {k} hits lexeme {:?} again", tok.text)));
        }
        *hit = true;
        let char_len = tok.text.chars().map(|c| unit.width(c)).sum::<u32>();
        // the LSP length of a multi-line token is not well defined for line-based clients; only
        // single-line lexemes are compared
        if !tok.text.contains('\n') && len != char_len {
            return Err(("wrong-length".into(), format!("token {k} for lexeme {:?} has length {len}, expected {char_len}", tok.text)));
        }
        prev_end = Some((line, start + len));
        // class check, deliberately narrow
        let legend_name = legend[ty as usize].as_str();
        let t = &tok.text;
        let expected = if t.starts_with("(*") {
            Some("comment")
        } else if matches!(t.as_str(), "+" | "-" | "*" | "/" | "**" | ":=" | "=" | "<>" | "<" | ">" | "<=" | ">=") {
            Some("operator")
        } else if DEFINITE_KEYWORDS.contains(&t.to_uppercase().as_str()) {
            Some("keyword")
        } else {
            None
        };
        if let Some(e) = expected {
            if legend_name != e {
                return Err(("wrong-class".into(), format!("lexeme {t:?} is classified {legend_name}, expected {e}")));
            }
        }
        if matches!(tok.token_type, ironplc_parser::token::TokenType::Identifier) && matches!(legend_name, "keyword" | "comment" | "operator" | "string" | "modifier" | "number") {
            // an identifier may get any entry an implementation reserves for names (variable, type,
            // function, …) but not the entry of another lexeme class
            return Err(("wrong-class".into(), format!("identifier {t:?} is classified {legend_name}")));
        }
        if matches!(t.to_uppercase().as_str(), "AND" | "OR" | "XOR" | "NOT" | "MOD") {
            // word operators (IEC 61131-3 Table 55) are operators and reserved words at once: either
            // entry is defensible, but the family gets one and the same
            if !matches!(legend_name, "operator" | "keyword") {
                return Err(("wrong-class".into(), format!("word operator {t:?} is classified {legend_name}")));
            }
            match word_operator_class {
                None => word_operator_class = Some((ty, t.clone())),
                Some((c, ref first)) if c != ty => {
                    return Err(("wrong-class".into(), format!("word operator {t:?} is classified {legend_name} but {first:?} is classified {}", legend[c as usize])));
                }
                _ => {}
            }
        }
        let key = t.to_lowercase();
        if let Some(prev) = spelling_types.get(&key) {
            if *prev != ty && !matches!(tok.token_type, ironplc_parser::token::TokenType::Identifier) {
                return Err(("inconsistent-class".into(), format!("lexeme {t:?} is classified {ty} here and {prev} elsewhere in the same response")));
            }
        }
        spelling_types.insert(key, ty);
    }
    // completeness, for the classes the statement names and this oracle can recognise on its own:
    // every identifier, comment and punctuation operator of the document is reported
    // which token kinds are highlighted is the implementation's choice, but it is a choice per kind:
    // if some lexeme of a kind is reported, every lexeme of that kind in the document is
    let mut per_kind: BTreeMap<String, (usize, usize, Option<(usize, String)>)> = BTreeMap::new();
    for (offset, (tok, hit)) in &reference {
        let e = per_kind.entry(format!("{:?}", tok.token_type)).or_insert((0, 0, None));
        e.1 += 1;
        if *hit {
            e.0 += 1;
        } else if e.2.is_none() {
            e.2 = Some((*offset, tok.text.clone()));
        }
    }
    for (kind, (reported, total, first_missing)) in &per_kind {
        if *reported > 0 && reported < total {
            let (offset, text) = first_missing.clone().unwrap_or((0, String::new()));
            return Err(("lexeme-missing".into(), format!("{reported} of the {total} {kind} lexemes of the document are reported, but not {text:?} at offset {offset}")));
        }
    }
    Ok(data.len() / 5)
}

/// Independent of the repository's lexer: text that ends (after the last declaration) in a
/// character that is neither a token nor layout in IEC 61131-3 cannot be valid.
fn strip_trailing_layout(text: &str) -> &str {
    let mut t = text;
    loop {
        if let Some(rest) = t.strip_suffix("\r\n") {
            t = rest;
        } else if let Some(rest) = t.strip_suffix([' ', '\t', '\n']) {
            t = rest;
        } else {
            return t;
        }
    }
}

fn ends_in_invalid_blank(text: &str) -> bool {
    // (inside a line comment anything goes up to the end of the line)
    let stripped = strip_trailing_layout(text);
    let last_line = stripped.rsplit('\n').next().unwrap_or("");
    if last_line.contains("//") {
        return false;
    }
    // a CR is layout only as part of CR LF
    strip_trailing_layout(text).ends_with(['\u{b}', '\r', '\u{a0}', '\u{3000}', '\u{1}'])
}

fn fresh_server_tokens(uri: &str, text: &str, seed: u64, init_shape: u8) -> Result<Value, String> {
    crate::seam::reset_sim_tmp();
    match crate::seam::run_forked(|| fresh_server_tokens_in_this_process(uri, text, seed, init_shape)) {
        Ok(r) => r,
        Err(why) => Err(format!("fresh server process died: {why}")),
    }
}

fn fresh_server_tokens_in_this_process(uri: &str, text: &str, seed: u64, init_shape: u8) -> Result<Value, String> {
    let hooks = SimHooks::new(root(), seed, vec![]);
    // the same client (its capabilities may shape the legend), but no workspace folder: the answer is
    // about the text of the document
    let shape = if matches!(init_shape, 8 | 10 | 11) { init_shape } else { 0 };
    let mut s = Session::start_shaped(seed, hooks, None, shape);
    s.deliver(None, "didOpen", event_message(&Event::Open { uri: uri.to_string(), version: 1, text: text.to_string() }, 0).unwrap());
    s.deliver(None, "target", event_message(&Event::SemTok { uri: uri.to_string(), id_kind: 0 }, 0).unwrap());
    let inc = s.shutdown_and_exit();
    if let Some(d) = inc.died {
        return Err(format!("fresh server died: {d}"));
    }
    let step = inc.steps.iter().find(|s| s.label == "target").ok_or("no target step")?;
    let r = step.outputs.iter().find(|o| is_response(o)).ok_or("fresh server did not answer")?;
    Ok(r.get("result").cloned().unwrap_or(Value::Null))
}

fn oracle_c15(t: &LspTrace, h: &History, stats: &mut Stats) -> Vec<Violation> {
    let mut out = vec![];
    let (legend, n_modifiers) = legend_of(h);
    if legend.is_empty() {
        out.push(viol("C15", "C15/no-legend".into(), "the initialize response advertises no semantic token legend".into()));
        return out;
    }
    let trace_hash = hash_str(&serde_json::to_string(t).unwrap());
    let has_disk_events = t.events.iter().any(|e| matches!(e, Event::Disk { .. }));
    let mut disk: BTreeMap<String, String> = t.ws_files.iter().cloned().collect();
    for (ii, inc) in h.incarnations.iter().enumerate() {
        let mut model = Model::default();
        for (si, step) in inc.steps.iter().enumerate() {
            model.apply_sent(&step.sent);
            if step.label == "disk" {
                track_disk(&mut disk, step);
                continue;
            }
            if has_disk_events && method_of(&step.sent) == "textDocument/semanticTokens/full" {
                lay_out_ws_with(t, &disk);
            }
            if inc.died_at_step == Some(si) {
                let why = inc.died.clone().unwrap_or_default();
                out.push(viol("C15", format!("C15/server-died/{}/{}", step.label, panic_signature(&why)), format!("server terminated while processing {}: {why}", short(&step.sent))));
                return out;
            }
            if method_of(&step.sent) != "textDocument/semanticTokens/full" {
                continue;
            }
            stats.count("c15.requests");
            let Some(sym) = step.sent["params"]["textDocument"]["uri"].as_str().map(|s| s.to_string()) else { continue };
            let sym = &sym;
            let responses: Vec<&Value> = step.outputs.iter().filter(|o| is_response(o) && o["id"] == step.sent["id"]).collect();
            if responses.len() != 1 {
                out.push(viol("C15", "C15/not-exactly-one-response".into(), format!("semanticTokens request for {sym} got {} responses", responses.len())));
                continue;
            }
            let resp = responses[0];
            let mut text = uri_path(sym).and_then(|p| model.by_path().get(&p).cloned());
            if text.is_none() && t.use_ws_folder {
                // never opened, but a source file of the workspace folder: the server knows it from disk
                if let Some(p) = uri_path(sym) {
                    let ws_prefix = format!("{}/ws/", root().display());
                    if let Some(name) = p.strip_prefix(&ws_prefix) {
                        let lower = name.to_lowercase();
                        if lower.ends_with(".st") || lower.ends_with(".iec") {
                            text = t.ws_files.iter().find(|(n, _)| n == name).map(|(_, x)| x.clone());
                            // what the server holds is the stored file after decoding and whatever
                            // normalisation a reader applies to files (line ends, end-of-file mark):
                            // only texts on which those are the identity are judged
                            if text.as_ref().is_some_and(|x| x.contains('\r') || x.contains('\u{1a}')) {
                                stats.count("c15.never_opened_workspace_file_requests_not_judged");
                                continue;
                            }
                            if text.is_some() {
                                stats.count("c15.never_opened_workspace_file_requests");
                            }
                        }
                    }
                }
            }
            let Some(text) = text else {
                // unknown or non-file document: null or an error are both acceptable
                let acceptable = resp.get("error").map(|e| !e.is_null()).unwrap_or(false)
                    || resp.get("result").map(|r| r.is_null() || r["data"].as_array().map(|a| a.is_empty()).unwrap_or(false)).unwrap_or(true);
                if !acceptable {
                    // a server may also read a never-opened file from the disk on demand: then the answer
                    // has to be about the file as it is on the simulated disk right now
                    let on_disk = uri_path(sym).and_then(|p| {
                        let r = root().display().to_string();
                        let name = p.strip_prefix(&format!("{r}/ws/")).or_else(|| p.strip_prefix(&format!("{r}/wsl/")))?.to_string();
                        disk.get(&name).cloned()
                    });
                    let data: Vec<u64> = resp["result"]["data"].as_array().map(|a| a.iter().map(|v| v.as_u64().unwrap_or(u64::MAX)).collect()).unwrap_or_default();
                    let fits_disk = match &on_disk {
                        Some(d) if d.contains('\r') || d.contains('\u{1a}') => true,
                        Some(d) => tokenize_program(d, &FileId::default(), &ParseOptions::default()).1.is_empty() && check_tokens(d, &data, &legend, n_modifiers).is_ok(),
                        None => false,
                    };
                    if fits_disk {
                        stats.count("c15.never_opened_file_answered_from_disk");
                    } else {
                        out.push(viol("C15", "C15/tokens-for-unknown-document".into(), format!("request for never-opened {sym} returned {}", short(resp))));
                    }
                } else {
                    stats.count("c15.unknown_document_requests");
                }
                continue;
            };
            let result = resp.get("result").cloned().unwrap_or(Value::Null);
            if ends_in_invalid_blank(&text) {
                stats.count("c15.invalid_blank_documents");
                if !result.is_null() {
                    out.push(viol("C15", "C15/list-for-invalid-blank-text".into(), format!("the current text of {sym} ends in {:?}, which is neither a token nor layout, but the result is {}", strip_trailing_layout(&text).chars().last(), short(&result))));
                }
                continue;
            }
            if !text.is_ascii() {
                stats.count("c15.non_ascii_documents");
            }
            let (_, lex) = tokenize_program(&text, &FileId::default(), &ParseOptions::default());
            if !lex.is_empty() {
                stats.count("c15.lexical_error_documents");
                if !result.is_null() {
                    out.push(viol("C15", "C15/partial-list-for-invalid-text".into(), format!("the current text of {sym} has a lexical error but the result is {}", short(&result))));
                }
                continue;
            }
            if result.is_null() || resp.get("error").map(|e| !e.is_null()).unwrap_or(false) {
                out.push(viol("C15", "C15/null-for-valid-text".into(), format!("the current text of {sym} tokenizes without error but the response is {}", short(resp))));
                continue;
            }
            let data: Vec<u64> = result["data"].as_array().map(|a| a.iter().map(|v| v.as_u64().unwrap_or(u64::MAX)).collect()).unwrap_or_default();
            match check_tokens(&text, &data, &legend, n_modifiers) {
                Ok(n) => {
                    stats.add("c15.tokens_decoded", n as u64);
                    if n > 0 {
                        stats.count("c15.nonempty_responses");
                    }
                }
                Err((clause, detail)) => {
                    out.push(viol("C15", format!("C15/{clause}"), format!("{sym}: {detail}; document = {:?}", head(&text, 200))));
                    continue;
                }
            }
            // history independence: a fresh server that was only sent didOpen(u, text) answers the same
            match fresh_server_tokens(sym, &text, mix(&[trace_hash, ii as u64, si as u64]), t.init_shape) {
                Ok(fresh) => {
                    stats.count("c15.fresh_server_comparisons");
                    // only the token data is a function of the text (a result id may well count edits)
                    if fresh["data"] != result["data"] {
                        out.push(viol("C15", "C15/history-dependent".into(), format!("{sym}: after the history the response is {} but a fresh server that only opened the current text answers {}", short(&result), short(&fresh))));
                    }
                }
                Err(e) => out.push(viol("C15", "C15/fresh-server-failed".into(), e)),
            }
        }
    }
    out
}

// ---------------------------------------------------------------------------------------------

pub fn execute(t: &LspTrace, stats: &mut Stats) -> RunReport {
    let h = run_history(t);
    let mut steps = 0;
    for inc in &h.incarnations {
        steps += inc.steps.len() as u64;
        stats.observe(inc);
    }
    stats.add("lsp_steps", steps);
    for inc in &h.incarnations {
        for st in &inc.steps {
            if st.sent["params"]["contentChanges"].as_array().is_some_and(|a| a.iter().any(|c| c.get("range").is_some())) {
                stats.count("event.didChange.ranged");
            }
        }
    }
    stats.add("server_incarnations", h.incarnations.len() as u64);
    for ev in &t.events {
        stats.count(&format!("event.{}", ev.kind()));
        match ev {
            Event::UnknownRequest { method, .. } => stats.count(&format!("event.unknownRequest.{method}")),
            Event::UnknownNotification { method, .. } => stats.count(&format!("event.unknownNotification.{method}")),
            Event::Open { uri, .. } | Event::Change { uri, .. } | Event::SemTok { uri, .. } => {
                if !WS_URIS.contains(&uri.as_str()) {
                    stats.count("event.oddUri");
                }
            }
            _ => {}
        }
    }
    if t.use_ws_folder {
        stats.count("event.workspaceFolder");
    }
    stats.count(&format!("event.initialize.{}", crate::lsp::init_shape_name(t.init_shape)));
    if !t.ws_extras.is_empty() {
        stats.count("event.workspaceFolder.unreadableEntries");
    }
    // reach: abstract server state = sorted (slot, text class) after the history x last event kind
    let mut model = Model::default();
    for ev in &t.events {
        model.apply(ev);
    }
    let state: Vec<String> = model.docs.iter().map(|(u, (_, text))| format!("{u}:{}", class_of_text(text))).collect();
    stats.distinct_str("abstract_server_states", &format!("{state:?}|{}", t.events.last().map(|e| e.kind()).unwrap_or("")));
    let shape: Vec<&str> = t.events.iter().map(|e| e.kind()).collect();
    stats.distinct_str("history_shapes", &shape.join(","));

    let mut violations = match t.prop.as_str() {
        "C11" => oracle_c11(t, &h, stats),
        "C12" => oracle_c12(t, &h, stats),
        "C15" => oracle_c15(t, &h, stats),
        other => panic!("no lsp oracle for {other}"),
    };
    // the process of a server incarnation went down as a whole (abort, stack overflow, exit): no
    // panic to catch and no step to attribute it to
    for inc in &h.incarnations {
        if let Some(why) = inc.died.as_ref().filter(|d| d.starts_with("server process died")) {
            violations.push(viol(&t.prop, format!("{}/server-process-died", t.prop), why.clone()));
        }
    }
    let nontrivial = t.events.iter().any(|e| matches!(e, Event::Open { .. } | Event::Change { .. } | Event::SemTok { .. } | Event::UnknownRequest { .. } | Event::ClientResponse { .. }));
    // single-incarnation, disk-free histories can be cross-checked against the shipped binary
    let mut proc_cases = vec![];
    let has_disk_events = t.events.iter().any(|e| matches!(e, Event::Disk { .. } | Event::Pause { .. }));
    if h.incarnations.len() == 1 && !t.use_ws_folder && !has_disk_events && matches!(t.init_shape, 0 | 1 | 6 | 8) && h.incarnations[0].died.is_none() && (t.prop == "C12" || t.prop == "C11") {
        let inc = &h.incarnations[0];
        let frames: Vec<Value> = inc.steps.iter().map(|s| {
            // lsp-server (de)serialises messages without the jsonrpc member; the wire format needs it
            let mut v = s.sent.clone();
            if let Some(o) = v.as_object_mut() {
                o.insert("jsonrpc".into(), Value::String("2.0".into()));
            }
            v
        }).collect();
        let predicted: Vec<String> = inc.steps.iter().flat_map(|s| s.outputs.iter()).filter_map(crate::proc_check::summarise_output).collect();
        proc_cases.push(crate::proc_check::ProcCase::Lsp { run_index: 0, frames, predicted, predicted_exit_ok: matches!(inc.result, Some(Ok(()))) });
    }
    RunReport { violations, nontrivial, proc_cases }
}

// ---------------------------------------------------------------------------------------------
// Shrinking

pub fn shrink(t: &LspTrace) -> Vec<LspTrace> {
    let mut out = vec![];
    let n = t.events.len();
    // (the C12 recovery probe may be dropped by shrinking: the probe clause then simply does not apply)
    let limit = n;
    // 1. drop chunks of events, then single events
    let mut chunk = limit / 2;
    while chunk >= 2 {
        let mut start = 0;
        while start + chunk <= limit {
            let mut c = t.clone();
            c.events.drain(start..start + chunk);
            out.push(c);
            start += chunk;
        }
        chunk /= 2;
    }
    for i in (0..limit).rev() {
        let mut c = t.clone();
        c.events.remove(i);
        out.push(c);
    }
    // 2. no workspace folder, fewer files on disk, the plain initialize request
    if t.use_ws_folder {
        let mut c = t.clone();
        c.use_ws_folder = false;
        if matches!(c.init_shape, 7 | 9) {
            c.init_shape = 0;
        }
        out.push(c);
    }
    if t.init_shape != 0 {
        let mut c = t.clone();
        c.init_shape = 0;
        out.push(c);
    }
    for i in 0..t.ws_files.len() {
        let mut c = t.clone();
        c.ws_files.remove(i);
        out.push(c);
    }
    for i in 0..t.ws_extras.len() {
        let mut c = t.clone();
        c.ws_extras.remove(i);
        out.push(c);
    }
    // 3. simpler events
    for (i, ev) in t.events.iter().enumerate() {
        match ev {
            Event::Change { uri, version, texts } if texts.len() > 1 => {
                let mut c = t.clone();
                c.events[i] = Event::Change { uri: uri.clone(), version: *version, texts: vec![texts.last().unwrap().clone()] };
                out.push(c);
            }
            _ => {}
        }
        // simpler texts: drop trailing declarations / lines
        let text = match ev {
            Event::Open { text, .. } => Some(text.clone()),
            Event::Change { texts, .. } if texts.len() == 1 => Some(texts[0].clone()),
            _ => None,
        };
        if let Some(text) = text {
            let mut candidates: Vec<String> = vec![];
            if !text.is_empty() {
                candidates.push(String::new());
                // halves at declaration boundaries
                let bounds: Vec<usize> = text.match_indices("\nEND_").filter_map(|(p, _)| text[p + 1..].find('\n').map(|q| p + 1 + q + 1)).filter(|b| *b < text.len()).collect();
                for b in bounds.iter().rev().take(3) {
                    candidates.push(text[..*b].to_string());
                    candidates.push(text[*b..].to_string());
                }
                if text.contains("\r\n") {
                    candidates.push(text.replace("\r\n", "\n"));
                }
            }
            for cand in candidates {
                let mut c = t.clone();
                c.events[i] = match ev {
                    Event::Open { uri, version, .. } => Event::Open { uri: uri.clone(), version: *version, text: cand },
                    Event::Change { uri, version, .. } => Event::Change { uri: uri.clone(), version: *version, texts: vec![cand] },
                    _ => unreachable!(),
                };
                out.push(c);
            }
        }
    }
    out
}
