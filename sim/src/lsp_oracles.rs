use crate::{campaign::{RunReport, Stats}, lsp::LspTrace};
pub fn execute(_t: &LspTrace, _stats: &mut Stats) -> RunReport { RunReport { violations: vec![], nontrivial: false } }
pub fn shrink(_t: &LspTrace) -> Vec<LspTrace> { vec![] }
