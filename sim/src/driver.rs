//! Driver (one per check invocation) and worker processes (one per core, each chroot-ed into
//! its own tmpfs directory so that every simulated path is the same string in every process).

use std::{
    collections::{BTreeMap, BTreeSet},
    path::{Path, PathBuf},
    process::{Child, Command, Stdio},
    time::{Duration, Instant},
};

use serde::{Deserialize, Serialize};
use serde_json::json;

use crate::{
    campaign::{execute, minimise, ReplayFile, Stats, Trace, Violation},
    prng::{hash_str, mix, Rng},
    seam,
};

pub struct Plan {
    pub prop: &'static str,
    pub engine: &'static str,
    pub level: &'static str,
    pub quick_runs: u64,
    pub thorough_runs: u64,
    pub rule: &'static str,
    pub assumptions: &'static [&'static str],
}

pub const REAL_COMPONENTS: &[&str] = &[
    "all ironplc crates (parser, analyzer, dsl, plc2plc, plc2x incl. cli.rs, project.rs, source.rs, lsp.rs, lsp_project.rs)",
    "lsp-server Connection: initialize handshake, message loop, handle_shutdown",
    "crossbeam channels (capacity 0)",
    "std::fs on tmpfs with real kernel errors (ENOENT, ELOOP, EISDIR, ENOTDIR, ENXIO and - in a simulated process that has given up root - EACCES)",
    "every simulated command-line process is a forked child of the worker (fresh process-global state, isolated crashes) whose entry point runs on a fresh thread",
    "every language-server incarnation (the history's servers, before and after each simulated crash, and every fresh reference server of the oracles) is a forked child of its own",
    "codespan-reporting rendering and println!/print! output (stdout and stderr of the worker are capture files that are read back per simulated process)",
    "encoding_rs decoding",
];
pub const STUBBED_COMPONENTS: &[&str] = &[
    "stdio transport threads (replaced by in-memory capacity-0 channels)",
    "OS randomness (getrandom served from the run's PRNG => hash iteration order)",
    "the editor (client actor)",
    "the concurrent file-system actor (storage faults at fs-points)",
    "process exit status (Result of the entry function, as main returns it; cross-checked on a sample against the shipped binary)",
    "readdir order (permuted by the scheduler)",
];

pub fn plans() -> Vec<Plan> {
    vec![
        Plan {
            prop: "C06",
            engine: "world",
            level: "exploration",
            quick_runs: 4000,
            thorough_runs: 200_000,
            rule: "one run = one world (multiset of generated declarations, valid or with one planted fault) realised in 10 (quick) / 24 (thorough) variants drawn from the scheduler's choices: declaration permutation x partition into <=3 files x argv list/directory/mixture x readdir permutation x hash seed (OS randomness) x entry point (cli::check / Project API), plus repeats that differ only in the hash seed. distinct = distinct trace JSON (by 64-bit hash); non-trivial = at least 2 variants of a non-empty world (so the metamorphic oracle compared something).",
            assumptions: &[
                "the world generator's notion of 'declaration' (one top-level element per text block) is what C06 permutes",
                "location is compared only when the canonical run places the diagnostic inside the planted fault; faults made of two declarations (cycle, name clash) may be reported at either",
                "std's RandomState obtains its keys through the libc symbol getrandom (self-checked at start)",
            ],
        },
        Plan {
            prop: "C03",
            engine: "world",
            level: "exploration",
            quick_runs: 12_000,
            thorough_runs: 400_000,
            rule: "one run = one faulty module (each stand-alone fault kind of the pool, incl. every name-clash shape) with up to 8 accompanying declarations, optionally one that reuses the faulty declaration's name; variants: the faulty file alone (reference), the company alone (reference for 'company is valid'), and 6 (quick) / 12 (thorough) compositions chosen by the scheduler: faulty file among 0-4 accompanying files or faulty declarations placed inside shared files, argv list/directory/mixture, readdir permutation, hash seed, cli::check or Project API. distinct = distinct trace JSON; non-trivial = the alone-run fails (or the world is a name clash), i.e. the metamorphic oracle applied.",
            assumptions: &[
                "the analyzer's verdict on the faulty file alone is the reference; worlds whose faulty file does not fail alone are discarded (counted)",
                "codes P0012, P0021, P0022 (undeclared ...) and the set-level P0030 count as curable by company",
                "for name clashes only failure is demanded, not a particular code; with name reuse the analyzer may stop at the clash, so re-reporting of the original code is not demanded there",
            ],
        },
        Plan {
            prop: "C13",
            engine: "world",
            level: "fault_enumeration",
            quick_runs: 8_000,
            thorough_runs: 500_000,
            rule: "one run = one generated file set (valid or single-fault world, 1-3 files) on the simulated disk, executed as: check <dir>; check <files> in every argument order (up to 3 files; 1-3 shuffled orders beyond); a mixture (same file twice / file plus its directory); echo and tokenize; and 3 (quick) / 6 (thorough) fault-injecting executions, each with one static fault (missing path, dangling symlink, symlink loop, empty directory, sub-directory, symlink to file, missing directory, no arguments, dotted path) or one dynamic storage fault (vanish, file<->dir, rewrite, truncate, append, dangling symlink) placed at a random fs-point of that execution. distinct = distinct trace JSON; non-trivial = at least 2 executions of a non-empty world.",
            assumptions: &[
                "exit status = the Result returned by the entry function (main returns it unchanged)",
                "'a coded diagnostic reached the terminal' = it was handed to the renderer and codespan did not refuse it (emit.failed probe)",
                "under a dynamic fault only the internal agreement clauses are demanded, not a particular verdict",
            ],
        },
        Plan {
            prop: "C14",
            engine: "world",
            level: "fault_enumeration",
            quick_runs: 1024 + 11_000,
            thorough_runs: 1024 + 1_000_000,
            rule: "runs 0..1023 sweep every byte value 0x00-0xFF at four positions (inside a string literal, inside a comment, between tokens, inside an identifier) through check, tokenize, echo and the Project API (exhaustive part). The remaining runs draw a generated world decorated with non-ASCII characters in comments and string literals and either (3/5) store it three times under independently drawn encodings (UTF-8, UTF-8+BOM, UTF-16LE+BOM, UTF-16BE+BOM, Windows-1252) next to a plain UTF-8 reference (twin oracle: verdict, codes, line/column), or (2/5) corrupt the stored bytes of one file (bit flip, truncation anywhere / inside the BOM, garbage prefix/suffix, random binary, concurrent rewrite or truncation at an fs-point) and demand a Result with all labels inside the decoded text on char boundaries. distinct = distinct trace JSON; non-trivial = at least 2 executions.",
            assumptions: &[
                "texts stored as Windows-1252 are restricted to its repertoire; the case where the Windows-1252 bytes are also valid UTF-8 is inherently ambiguous and skipped",
                "twin positions are compared only when both runs saw a decoded text of the generated length",
            ],
        },
        Plan {
            prop: "C12",
            engine: "lsp",
            level: "fault_enumeration",
            quick_runs: 30_000,
            thorough_runs: 2_000_000,
            rule: "one run = one editor session against the real server thread (capacity-0 lockstep): initialize, a random history of up to 60 events drawn from the protocol fault kinds enabled for this run (swarm): didOpen, didChange with 0/1/2 content changes, semanticTokens requests, requests and notifications for unimplemented methods (integer and string ids), client responses, duplicated delivery, never-opened and non-file URIs, optional workspace folder on the simulated disk; then a recovery probe (didOpen of a valid document on a fresh URI), shutdown, exit. The oracle is a protocol monitor over the recorded history. distinct = distinct trace JSON; non-trivial = the history contains at least one event that requires an answer or changes server state.",
            assumptions: &[
                "all params are schema-valid LSP; malformed params are outside the property's quantifier and are not sent",
                "requests are never duplicated (JSON-RPC ids are unique per session); only notifications are re-delivered",
                "exit is offered immediately after the shutdown response is taken: lsp-server's real 30 s recv_timeout is never allowed to elapse (not virtualisable, DESIGN.md §7)",
            ],
        },
        Plan {
            prop: "C11",
            engine: "lsp",
            level: "exploration",
            quick_runs: 8420 + 2580,
            thorough_runs: 168_420 + 131_580,
            rule: "runs 0..8419 (quick) / 0..168419 (thorough) enumerate every notification sequence of length <=3 / <=4 over 2 URIs x 5 document classes (valid, lexical error, syntax error, semantic error, depends-on-other-document) x {didOpen, didChange}; the remaining runs are random histories of up to 40 events over 2-4 URIs and generated cross-referencing documents with crash/restart, duplicated delivery, 0/2-change didChange, stale versions and an optional workspace folder. After every didOpen/didChange step three oracles run: exactly one publishDiagnostics(uri, version); equality with a freshly started server (new OS randomness) that opens the current contents; containment equality with the real cli::check on a directory holding the same contents. distinct = distinct trace JSON; non-trivial = at least one edit event.",
            assumptions: &[
                "documents are ASCII so that byte, char and UTF-16 columns coincide",
                "with full-text sync a didChange carrying several content changes leaves the document equal to the last one; one carrying none leaves it unchanged",
                "a diagnostic whose primary label is in another file but which has a secondary label in the notified file may be published for the notified file too",
            ],
        },
        Plan {
            prop: "C15",
            engine: "lsp",
            level: "exploration",
            quick_runs: 6000,
            thorough_runs: 1_500_000,
            rule: "one run = one editor session with semanticTokens/full requests interleaved in a random edit history (didOpen/didChange on 1-3 URIs, generated documents with random trivia: comments before tokens on the same line, multi-line comments, tabs, CRLF; crash/restart; never-opened and non-file URIs). Each response is decoded under the LSP relative encoding and compared with the lexemes of the document's *current* text and with the answer of a fresh server. distinct = distinct trace JSON; non-trivial = at least one request or edit.",
            assumptions: &[
                "ironplc_parser::tokenize_program is trusted for lexeme boundaries of the current text (its correctness is C05, not claimed); only the LSP layer and the history are under test",
                "documents are ASCII; the length of multi-line lexemes is not compared",
                "class check is deliberately narrow: comments, identifiers and punctuation operators only",
            ],
        },
    ]
}

pub fn plan_for(prop: &str) -> Option<Plan> {
    plans().into_iter().find(|p| p.prop == prop)
}

fn verif_seed() -> u64 {
    std::env::var("VERIF_SEED").ok().and_then(|s| s.trim().parse::<u64>().ok()).unwrap_or(1)
}

fn verif_dir() -> PathBuf {
    std::env::var("SIMPLC_VERIF_DIR").map(PathBuf::from).unwrap_or_else(|_| PathBuf::from("/verif"))
}

/// Where evidence and replay files go (the sensitivity tools redirect this so that runs against a
/// deliberately broken tree never overwrite the evidence of the unchanged tree).
fn out_dir() -> PathBuf {
    std::env::var("SIMPLC_OUT_DIR").map(PathBuf::from).unwrap_or_else(|_| verif_dir())
}

pub fn run_seed(seed: u64, prop: &str, r: u64) -> u64 {
    mix(&[seed, hash_str(prop), r])
}

pub fn generate(prop: &str, tier_thorough: bool, r: u64, seed: u64) -> Trace {
    let mut rng = Rng::new(run_seed(seed, prop, r));
    match plan_for(prop).map(|p| p.engine) {
        Some("world") => Trace::World(crate::world_oracles::generate(prop, &mut rng, tier_thorough, r)),
        Some("lsp") => Trace::Lsp(crate::lsp_oracles::generate(prop, &mut rng, tier_thorough, r)),
        _ => panic!("no generator for {prop}"),
    }
}

// ---------------------------------------------------------------------------------------------
// Worker

#[derive(Serialize, Deserialize, Default)]
pub struct WorkerOut {
    pub runs_done: u64,
    pub nontrivial: u64,
    pub stats: Stats,
    pub violations: Vec<ReplayFile>,
    pub total_violating_runs: u64,
    pub samples: Vec<Trace>,
    pub run_digests: Vec<(u64, u64)>,
    #[serde(default)]
    pub proc_cases: Vec<crate::proc_check::ProcCase>,
}

fn enter_sandbox(dir: &str) -> Result<(), String> {
    seam::redirect_stdio_to_devnull();
    seam::install_quiet_panic_hook();
    let c = std::ffi::CString::new(dir).unwrap();
    unsafe {
        if libc::chroot(c.as_ptr()) != 0 {
            return Err(format!("chroot({dir}) failed: {}", std::io::Error::last_os_error()));
        }
        if libc::chdir(c"/".as_ptr()) != 0 {
            return Err("chdir(/) failed".into());
        }
    }
    if !seam::redirect_stdio_to_capture_files() {
        return Err("cannot create the stdout/stderr capture files".into());
    }
    // (the worker is single-threaded here)
    std::env::set_var("TMPDIR", seam::SIM_TMP);
    seam::reset_sim_tmp();
    Ok(())
}

/// worker <prop> <tier> <seed> <widx> <nworkers> <nruns> <dir> [--digests]
pub fn worker_main(args: &[String]) -> i32 {
    if args.len() < 7 {
        return 2;
    }
    let prop = args[0].clone();
    let thorough = args[1] == "thorough";
    let seed: u64 = args[2].parse().unwrap();
    let widx: u64 = args[3].parse().unwrap();
    let nworkers: u64 = args[4].parse().unwrap();
    let nruns: u64 = args[5].parse().unwrap();
    let dir = args[6].clone();
    let digests = args.iter().any(|a| a == "--digests");
    // how many process-level cases this worker offers to the driver
    let proc_quota: usize = if thorough { 64 } else { 16 };
    if let Err(e) = enter_sandbox(&dir) {
        let _ = std::fs::write(format!("{dir}/err.txt"), e);
        return 2;
    }
    let mut out = WorkerOut::default();
    let mut seen_signatures: BTreeSet<String> = BTreeSet::new();
    // (self-tests may shift the window of run indices, e.g. past the enumerated histories of C11)
    let first_run: u64 = std::env::var("SIMPLC_FIRST_RUN").ok().and_then(|s| s.parse().ok()).unwrap_or(0);
    let mut r = widx + first_run;
    let nruns = nruns + first_run;
    while r < nruns {
        let trace = generate(&prop, thorough, r, seed);
        let _ = std::fs::write("/inflight.json", serde_json::to_vec(&json!({"run_index": r, "trace": trace})).unwrap());
        out.stats.digest = 0;
        let report = execute(&trace, &mut out.stats);
        if digests {
            out.run_digests.push((r, mix(&[trace.hash(), out.stats.digest])));
        }
        if out.proc_cases.len() < proc_quota {
            for mut c in report.proc_cases.iter().cloned() {
                match &mut c {
                    crate::proc_check::ProcCase::Cli { run_index, .. } | crate::proc_check::ProcCase::Lsp { run_index, .. } => *run_index = r,
                }
                out.proc_cases.push(c);
            }
        }
        out.runs_done += 1;
        if report.nontrivial {
            out.nontrivial += 1;
            out.stats.distinct("nontrivial_traces", trace.hash());
        }
        if out.samples.len() < 2 {
            out.samples.push(trace.clone());
        }
        if !report.violations.is_empty() {
            out.total_violating_runs += 1;
            for v in &report.violations {
                if seen_signatures.insert(v.signature.clone()) {
                    let (min_trace, min_violation, spent) = minimise(&trace, v, 300);
                    out.violations.push(ReplayFile {
                        property: min_violation.property.clone(),
                        signature: min_violation.signature.clone(),
                        detail: min_violation.detail.clone(),
                        seed,
                        run_index: r,
                        run_seed: run_seed(seed, &prop, r),
                        minimised: true,
                        minimise_executions: spent,
                        trace: min_trace,
                        original_trace: Some(trace.clone()),
                        proc_case: None,
                    });
                }
            }
            if seen_signatures.len() >= 4 || out.total_violating_runs >= 40 {
                break;
            }
        }
        if out.runs_done % 8 == 0 {
            let _ = std::fs::write("/progress", out.runs_done.to_string());
        }
        r += nworkers;
    }
    let _ = std::fs::remove_dir_all("/r");
    let _ = std::fs::remove_file("/inflight.json");
    std::fs::write("/out.json", serde_json::to_vec(&out).unwrap()).expect("write out.json");
    0
}

// ---------------------------------------------------------------------------------------------
// Driver

struct WorkerHandle {
    child: Child,
    dir: PathBuf,
    last_progress: String,
    last_change: Instant,
}

fn nworkers_default() -> u64 {
    std::env::var("SIMPLC_WORKERS")
        .ok()
        .and_then(|s| s.parse().ok())
        .unwrap_or_else(|| std::thread::available_parallelism().map(|n| n.get() as u64).unwrap_or(4))
}

struct CampaignResult {
    outs: Vec<WorkerOut>,
    crashes: Vec<(String, Option<serde_json::Value>)>,
}

fn run_workers(prop: &str, tier: &str, seed: u64, nruns: u64, nworkers: u64, digests: bool) -> Result<CampaignResult, String> {
    let exe = std::env::current_exe().map_err(|e| e.to_string())?;
    let base = PathBuf::from(format!("/dev/shm/simplc-{}", std::process::id()));
    let _ = std::fs::remove_dir_all(&base);
    let mut handles = vec![];
    for k in 0..nworkers {
        let dir = base.join(format!("w{k}"));
        std::fs::create_dir_all(&dir).map_err(|e| format!("tmpfs unavailable: {e}"))?;
        let mut cmd = Command::new(&exe);
        cmd.arg("worker").arg(prop).arg(tier).arg(seed.to_string()).arg(k.to_string()).arg(nworkers.to_string()).arg(nruns.to_string()).arg(&dir);
        if digests {
            cmd.arg("--digests");
        }
        cmd.stdin(Stdio::null());
        let child = cmd.spawn().map_err(|e| e.to_string())?;
        handles.push(WorkerHandle { child, dir, last_progress: String::new(), last_change: Instant::now() });
    }
    let mut result = CampaignResult { outs: vec![], crashes: vec![] };
    let mut pending: Vec<WorkerHandle> = handles;
    while !pending.is_empty() {
        std::thread::sleep(Duration::from_millis(50));
        let mut still = vec![];
        for mut h in pending {
            match h.child.try_wait() {
                Ok(Some(status)) => {
                    let out_path = h.dir.join("out.json");
                    if status.success() && out_path.exists() {
                        let bytes = std::fs::read(&out_path).map_err(|e| e.to_string())?;
                        let out: WorkerOut = serde_json::from_slice(&bytes).map_err(|e| format!("worker output unreadable: {e}"))?;
                        result.outs.push(out);
                    } else if status.code() == Some(2) {
                        let err = std::fs::read_to_string(h.dir.join("err.txt")).unwrap_or_default();
                        let _ = std::fs::remove_dir_all(&base);
                        return Err(format!("worker harness error: {err}"));
                    } else {
                        let inflight = std::fs::read(h.dir.join("inflight.json")).ok().and_then(|b| serde_json::from_slice(&b).ok());
                        result.crashes.push((format!("worker died: {status}"), inflight));
                    }
                }
                Ok(None) => {
                    // watchdog: wall clock is used for this and nothing else
                    let p = std::fs::read_to_string(h.dir.join("progress")).unwrap_or_default();
                    if p != h.last_progress {
                        h.last_progress = p;
                        h.last_change = Instant::now();
                    } else if h.last_change.elapsed() > Duration::from_secs(90) {
                        let _ = h.child.kill();
                        let _ = h.child.wait();
                        let inflight = std::fs::read(h.dir.join("inflight.json")).ok().and_then(|b| serde_json::from_slice(&b).ok());
                        result.crashes.push(("worker made no progress for 90 s (hang)".to_string(), inflight));
                        continue;
                    }
                    still.push(h);
                }
                Err(e) => return Err(e.to_string()),
            }
        }
        pending = still;
    }
    let _ = std::fs::remove_dir_all(&base);
    Ok(result)
}

#[derive(Deserialize, Debug, Clone)]
pub struct KnownFinding {
    pub property: String,
    pub signature: String,
    pub what_fails: String,
    pub status: String,
    #[serde(default)]
    pub commit: String,
}

#[derive(Deserialize, Debug, Default)]
pub struct KnownFindings {
    pub findings: Vec<KnownFinding>,
}

fn load_known() -> KnownFindings {
    let p = verif_dir().join("known_findings.json");
    match std::fs::read(&p) {
        Ok(b) => serde_json::from_slice(&b).unwrap_or_default(),
        Err(_) => KnownFindings::default(),
    }
}

fn sanitise(s: &str) -> String {
    s.chars().map(|c| if c.is_ascii_alphanumeric() { c } else { '-' }).collect::<String>().trim_matches('-').to_string()
}

fn write_replay(rf: &ReplayFile) -> PathBuf {
    let dir = out_dir().join("replays");
    let _ = std::fs::create_dir_all(&dir);
    let path = dir.join(format!("{}-seed{}-run{}.json", sanitise(&rf.signature), rf.seed, rf.run_index));
    let _ = std::fs::write(&path, serde_json::to_vec_pretty(rf).unwrap());
    path
}

pub fn run(prop: &str, tier: &str, extra: &[String]) -> i32 {
    let started = Instant::now();
    let plan = match plan_for(prop) {
        Some(p) => p,
        None => {
            eprintln!("simplc: no campaign for property {prop}");
            return 2;
        }
    };
    if tier != "quick" && tier != "thorough" {
        eprintln!("simplc: tier must be quick or thorough");
        return 2;
    }
    if let Err(e) = seam::check_randomness_seam() {
        eprintln!("simplc: harness error: {e}");
        return 2;
    }
    if let Err(e) = seam::check_privilege_seam(Path::new("/dev/shm")) {
        eprintln!("simplc: harness error: {e}");
        return 2;
    }
    let seed = verif_seed();
    println!("simplc: property={prop} tier={tier} VERIF_SEED={seed}");
    let mut nruns = if tier == "quick" { plan.quick_runs } else { plan.thorough_runs };
    let mut i = 0;
    while i < extra.len() {
        if extra[i] == "--runs" && i + 1 < extra.len() {
            nruns = extra[i + 1].parse().unwrap_or(nruns);
            i += 1;
        }
        i += 1;
    }
    let nworkers = nworkers_default().min(nruns.max(1));
    let res = match run_workers(prop, tier, seed, nruns, nworkers, false) {
        Ok(r) => r,
        Err(e) => {
            eprintln!("simplc: harness error: {e}");
            return 2;
        }
    };

    // merge
    let mut stats = Stats::default();
    let mut runs_done = 0;
    let mut nontrivial_runs = 0;
    let mut samples = vec![];
    let mut found: BTreeMap<String, ReplayFile> = BTreeMap::new();
    let mut violating_runs = 0;
    for o in &res.outs {
        stats.merge(&o.stats);
        runs_done += o.runs_done;
        nontrivial_runs += o.nontrivial;
        violating_runs += o.total_violating_runs;
        if samples.len() < 3 {
            samples.extend(o.samples.iter().take(1).cloned());
        }
        for v in &o.violations {
            // keep, per signature, the replay with the lowest run index (independent of worker count)
            match found.get(&v.signature) {
                Some(existing) if existing.run_index <= v.run_index => {}
                _ => {
                    found.insert(v.signature.clone(), v.clone());
                }
            }
        }
    }
    for (why, inflight) in &res.crashes {
        let trace: Option<Trace> = inflight.as_ref().and_then(|v| serde_json::from_value(v["trace"].clone()).ok());
        let run_index = inflight.as_ref().and_then(|v| v["run_index"].as_u64()).unwrap_or(0);
        if let Some(trace) = trace {
            let sig = format!("{prop}/worker-abnormal-exit");
            found.entry(sig.clone()).or_insert(ReplayFile {
                property: prop.to_string(),
                signature: sig,
                detail: why.clone(),
                seed,
                run_index,
                run_seed: run_seed(seed, prop, run_index),
                minimised: false,
                minimise_executions: 0,
                trace,
                original_trace: None,
                proc_case: None,
            });
        } else {
            eprintln!("simplc: harness error: {why} and no in-flight trace was found");
            return 2;
        }
    }

    // process-level cross-check against the shipped binary (auxiliary, sampled, fault-free traces only)
    let mut proc_cases: Vec<crate::proc_check::ProcCase> = res.outs.iter().flat_map(|o| o.proc_cases.iter().cloned()).collect();
    proc_cases.sort_by_key(|c| c.run_index());
    let proc_limit = if tier == "quick" { if prop == "C13" { 150 } else { 40 } } else { 500 };
    proc_cases.truncate(proc_limit);
    let mut proc_run = 0;
    let mut proc_note = String::from("not applicable to this campaign");
    if !proc_cases.is_empty() {
        match std::env::var("SIMPLC_REPO_BIN").ok().map(PathBuf::from).filter(|p| p.exists()) {
            Some(bin) => {
                let (n, mismatches) = crate::proc_check::run_cases(prop, &bin, &proc_cases);
                proc_run = n;
                proc_note = format!("{n} fault-free (and, for the command line, static-fault) executions replayed against {} (built from the current tree without the verif feature)", bin.display());
                for (v, case) in mismatches {
                    let run_index = case.run_index();
                    found.entry(v.signature.clone()).or_insert(ReplayFile {
                        property: v.property.clone(),
                        signature: v.signature.clone(),
                        detail: v.detail.clone(),
                        seed,
                        run_index,
                        run_seed: run_seed(seed, prop, run_index),
                        minimised: false,
                        minimise_executions: 0,
                        trace: generate(prop, tier == "thorough", run_index, seed),
                        original_trace: None,
                        proc_case: Some(case),
                    });
                }
            }
            None => proc_note = "skipped: SIMPLC_REPO_BIN not set or binary missing (run through ./check)".into(),
        }
    }

    // known findings
    let known = load_known();
    let mut new_violations = 0;
    let mut known_hits = 0;
    let mut harness_errors = 0;
    for (sig, rf) in &found {
        if sig.ends_with("/harness-error") {
            harness_errors += 1;
            let path = write_replay(rf);
            eprintln!("simplc: harness error: the simulator's own code panicked ({}); trace kept at {}", rf.detail, path.display());
            continue;
        }
        let k = known.findings.iter().find(|k| k.property == rf.property && k.signature == *sig && k.status == "open");
        match k {
            Some(k) => {
                known_hits += 1;
                println!("KNOWN-FINDING: property={} {} [{}]", rf.property, k.what_fails, sig);
            }
            None => {
                new_violations += 1;
                let path = write_replay(rf);
                println!("VIOLATION property={} replay={}", rf.property, path.display());
                println!("  signature: {}", rf.signature);
                println!("  detail: {}", rf.detail);
            }
        }
    }

    // evidence
    let wall = started.elapsed().as_secs_f64();
    let distinct_nontrivial = stats.set_len("nontrivial_traces");
    let mut counters = serde_json::Map::new();
    for (k, v) in &stats.counters {
        counters.insert(k.clone(), json!(v));
    }
    let mut reach = serde_json::Map::new();
    for (k, v) in &stats.sets {
        if k != "nontrivial_traces" {
            reach.insert(format!("distinct.{k}"), json!(v.len()));
        }
    }
    let fault_kinds: BTreeMap<String, u64> =
        stats.counters.iter().filter(|(k, _)| k.starts_with("fault_fired.") || k.starts_with("event.")).map(|(k, v)| (k.clone(), *v)).collect();
    let evidence = json!({
        "property_id": prop,
        "tier": tier,
        "seed": seed,
        "level": plan.level,
        "coverage": {
            "evaluations": runs_done,
            "distinct_nontrivial": distinct_nontrivial,
            "rule": plan.rule,
            "samples": samples,
            "nontrivial_runs": nontrivial_runs,
            "runs_per_hour": if wall > 0.0 { (runs_done as f64 / wall * 3600.0) as u64 } else { 0 },
            "seeds_per_hour": if wall > 0.0 { (runs_done as f64 / wall * 3600.0) as u64 } else { 0 },
            "simulated_time": "ironplc reads no clock and has no timers; progress is measured in logical steps (counters variants_executed / lsp_steps), not simulated seconds",
            "fault_and_event_kinds_fired": fault_kinds,
            "counters": counters,
            "reach": reach,
            "workers": nworkers,
            "violating_runs": violating_runs,
            "known_findings_hit": known_hits,
            "process_level_sample": {"cases_run": proc_run, "note": proc_note},
            "components_real": REAL_COMPONENTS,
            "components_stubbed": STUBBED_COMPONENTS,
            "exhaustive": false
        },
        "assumptions": plan.assumptions,
        "wall_s": wall,
        "violations": new_violations
    });
    let edir = out_dir().join("evidence");
    let _ = std::fs::create_dir_all(&edir);
    if let Err(e) = std::fs::write(edir.join(format!("{prop}.json")), serde_json::to_vec_pretty(&evidence).unwrap()) {
        eprintln!("simplc: harness error: cannot write evidence: {e}");
        return 2;
    }
    println!(
        "simplc: {prop} {tier}: {runs_done} runs ({distinct_nontrivial} distinct non-trivial), {} variants/steps, {:.1}s, {} new violation signature(s), {} known",
        stats.get("variants_executed") + stats.get("lsp_steps"),
        wall,
        new_violations,
        known_hits
    );
    if new_violations > 0 {
        1
    } else if harness_errors > 0 {
        2
    } else {
        0
    }
}

// ---------------------------------------------------------------------------------------------
// Replay

pub fn replay(path: &str) -> i32 {
    let bytes = match std::fs::read(path) {
        Ok(b) => b,
        Err(e) => {
            eprintln!("simplc: cannot read {path}: {e}");
            return 2;
        }
    };
    let rf: ReplayFile = match serde_json::from_slice(&bytes) {
        Ok(r) => r,
        Err(e) => {
            eprintln!("simplc: {path} is not a replay file: {e}");
            return 2;
        }
    };
    if let Some(case) = &rf.proc_case {
        let Some(bin) = std::env::var("SIMPLC_REPO_BIN").ok().map(PathBuf::from).filter(|p| p.exists()) else {
            eprintln!("simplc: process-level replay needs SIMPLC_REPO_BIN (run through ./check)");
            return 2;
        };
        let (_, mismatches) = crate::proc_check::run_cases(&rf.property, &bin, std::slice::from_ref(case));
        return match mismatches.first() {
            Some((v, _)) => {
                println!("VIOLATION property={} replay={}", v.property, path);
                println!("  signature: {}", v.signature);
                println!("  detail: {}", v.detail);
                1
            }
            None => {
                println!("replay of {path}: the shipped binary now agrees with the in-process prediction");
                0
            }
        };
    }
    let dir = PathBuf::from(format!("/dev/shm/simplc-{}-replay", std::process::id()));
    let _ = std::fs::remove_dir_all(&dir);
    if std::fs::create_dir_all(&dir).is_err() {
        eprintln!("simplc: tmpfs unavailable");
        return 2;
    }
    std::fs::write(dir.join("replay.json"), &bytes).unwrap();
    let exe = std::env::current_exe().unwrap();
    // a replay of a hang must not hang the caller: 120 s of wall clock, then the worker is killed
    let status = match Command::new(exe).arg("replay-worker").arg(&dir).spawn() {
        Ok(mut child) => {
            let started = Instant::now();
            loop {
                match child.try_wait() {
                    Ok(Some(s)) => break Ok(s),
                    Ok(None) if started.elapsed() > Duration::from_secs(120) => {
                        let _ = child.kill();
                        break child.wait();
                    }
                    Ok(None) => std::thread::sleep(Duration::from_millis(20)),
                    Err(e) => break Err(e),
                }
            }
        }
        Err(e) => Err(e),
    };
    let result = std::fs::read(dir.join("result.json")).ok().and_then(|b| serde_json::from_slice::<Vec<Violation>>(&b).ok());
    let _ = std::fs::remove_dir_all(&dir);
    match (status, result) {
        (Ok(s), Some(vs)) if s.success() => {
            let same = vs.iter().find(|v| v.property == rf.property && v.signature == rf.signature);
            match same {
                Some(v) => {
                    println!("VIOLATION property={} replay={}", v.property, path);
                    println!("  signature: {}", v.signature);
                    println!("  detail: {}", v.detail);
                    1
                }
                None => {
                    println!("replay of {path}: the recorded violation ({}) did not occur; violations now: {:?}", rf.signature, vs.iter().map(|v| &v.signature).collect::<Vec<_>>());
                    if vs.is_empty() {
                        0
                    } else {
                        for v in &vs {
                            println!("VIOLATION property={} replay={}", v.property, path);
                        }
                        1
                    }
                }
            }
        }
        (Ok(s), _) => {
            if rf.signature.ends_with("/worker-abnormal-exit") && !s.success() {
                println!("VIOLATION property={} replay={}", rf.property, path);
                println!("  signature: {}", rf.signature);
                println!("  detail: replay process died again: {s}");
                1
            } else {
                eprintln!("simplc: replay worker failed: {s}");
                2
            }
        }
        (Err(e), _) => {
            eprintln!("simplc: cannot start replay worker: {e}");
            2
        }
    }
}

pub fn replay_worker(dir: &str) -> i32 {
    if let Err(e) = enter_sandbox(dir) {
        let _ = std::fs::write(format!("{dir}/err.txt"), e);
        return 2;
    }
    let bytes = std::fs::read("/replay.json").unwrap();
    let rf: ReplayFile = serde_json::from_slice(&bytes).unwrap();
    let mut stats = Stats::default();
    let report = execute(&rf.trace, &mut stats);
    let _ = std::fs::remove_dir_all("/r");
    std::fs::write("/result.json", serde_json::to_vec(&report.violations).unwrap()).unwrap();
    0
}

// ---------------------------------------------------------------------------------------------
// Self tests

/// Every run twice under two worker counts in separate processes; digests of (trace, every
/// observation) must agree.
pub fn selftest_determinism(prop: &str, extra: &[String]) -> i32 {
    if let Err(e) = seam::check_randomness_seam() {
        eprintln!("simplc: harness error: {e}");
        return 2;
    }
    if let Err(e) = seam::check_privilege_seam(Path::new("/dev/shm")) {
        eprintln!("simplc: harness error: {e}");
        return 2;
    }
    let nruns: u64 = extra.first().and_then(|s| s.parse().ok()).unwrap_or(2000);
    let seed = verif_seed();
    let mut all: Vec<BTreeMap<u64, u64>> = vec![];
    for workers in [16u64, 3, 7] {
        match run_workers(prop, "quick", seed, nruns, workers, true) {
            Ok(r) => {
                if !r.crashes.is_empty() {
                    eprintln!("simplc: determinism selftest: worker crashed: {:?}", r.crashes.iter().map(|c| &c.0).collect::<Vec<_>>());
                    return 2;
                }
                let mut m = BTreeMap::new();
                for o in &r.outs {
                    for (run, d) in &o.run_digests {
                        m.insert(*run, *d);
                    }
                }
                all.push(m);
            }
            Err(e) => {
                eprintln!("simplc: harness error: {e}");
                return 2;
            }
        }
    }
    let mut diverged = 0;
    let mut compared = 0;
    for (run, d) in &all[0] {
        for other in &all[1..] {
            if let Some(d2) = other.get(run) {
                compared += 1;
                if d2 != d {
                    diverged += 1;
                    if diverged <= 5 {
                        eprintln!("simplc: run {run} diverged between worker counts");
                    }
                }
            }
        }
    }
    println!("simplc: determinism selftest {prop}: {} runs x 3 executions (16, 3 and 7 workers), {compared} comparisons, {diverged} divergences", all[0].len());
    if diverged > 0 {
        2
    } else {
        0
    }
}

/// Debugging aid: executes run `r` of the quick campaign in a sandbox and prints, per variant, the
/// role, the arguments and the complete observation (world campaigns), or the recorded history.
pub fn observe(prop: &str, r: u64) -> i32 {
    let dir = PathBuf::from(format!("/dev/shm/simplc-{}-observe", std::process::id()));
    let _ = std::fs::remove_dir_all(&dir);
    if std::fs::create_dir_all(&dir).is_err() {
        return 2;
    }
    let exe = std::env::current_exe().unwrap();
    let st = Command::new(exe).arg("observe-worker").arg(&dir).arg(prop).arg(r.to_string()).arg(verif_seed().to_string()).status();
    if let Ok(b) = std::fs::read(dir.join("obs.json")) {
        println!("{}", String::from_utf8_lossy(&b));
    }
    let _ = std::fs::remove_dir_all(&dir);
    if matches!(st, Ok(s) if s.success()) { 0 } else { 2 }
}

pub fn observe_worker(dir: &str, prop: &str, r: u64, seed: u64) -> i32 {
    let t = generate(prop, false, r, seed);
    if enter_sandbox(dir).is_err() {
        return 2;
    }
    let out = match &t {
        Trace::World(w) => {
            let items: Vec<serde_json::Value> = w
                .variants
                .iter()
                .map(|v| {
                    let o = crate::world::exec_variant(&w.world, v);
                    serde_json::json!({"role": v.role, "entry": v.entry, "args": v.args, "extras": v.extras, "unprivileged": v.unprivileged, "faults": v.faults, "obs": o})
                })
                .collect();
            serde_json::json!({"mode": w.mode, "variants": items})
        }
        Trace::Lsp(l) => {
            let h = crate::lsp_oracles::run_history(l);
            serde_json::json!({"incarnations": h.incarnations})
        }
    };
    let _ = std::fs::remove_dir_all("/r");
    std::fs::write("/obs.json", serde_json::to_vec_pretty(&out).unwrap()).unwrap();
    0
}

pub fn dump(prop: &str, r: u64) -> i32 {
    let t = generate(prop, false, r, verif_seed());
    println!("{}", serde_json::to_string_pretty(&t).unwrap());
    0
}

#[allow(dead_code)]
fn _unused(_: &Path) {}
