//! The seams the simulator owns: OS randomness (hash order), stdout/stderr, panics,
//! and the hook object handed to the `verif` feature of ironplcc.

use std::{
    cell::RefCell,
    collections::BTreeMap,
    os::raw::{c_uint, c_void},
    path::{Path, PathBuf},
    sync::{Arc, Mutex},
};

use ironplcc::verif::{DiagnosticRecord, Hooks};
use serde::{Deserialize, Serialize};

use crate::prng::{hash_str, mix, Rng};

// ---------------------------------------------------------------------------------------------
// OS randomness.  std's RandomState draws its per-thread keys through the libc symbol
// `getrandom`; defining it here makes the hash order of every HashMap/HashSet created on a
// simulated thread a function of the run's seed.

thread_local! {
    static HASH_RNG: RefCell<Option<Rng>> = const { RefCell::new(None) };
    static GETRANDOM_CALLS: std::cell::Cell<u64> = const { std::cell::Cell::new(0) };
}

/// # Safety
/// libc contract of getrandom(2).
#[no_mangle]
pub unsafe extern "C" fn getrandom(buf: *mut c_void, len: usize, flags: c_uint) -> isize {
    let seeded = HASH_RNG
        .try_with(|r| {
            if let Ok(mut r) = r.try_borrow_mut() {
                if let Some(rng) = r.as_mut() {
                    let out = std::slice::from_raw_parts_mut(buf as *mut u8, len);
                    let mut i = 0;
                    while i < len {
                        let v = rng.next().to_le_bytes();
                        let n = (len - i).min(8);
                        out[i..i + n].copy_from_slice(&v[..n]);
                        i += n;
                    }
                    return true;
                }
            }
            false
        })
        .unwrap_or(false);
    if seeded {
        let _ = GETRANDOM_CALLS.try_with(|c| c.set(c.get() + 1));
        return len as isize;
    }
    libc::syscall(libc::SYS_getrandom, buf, len, flags) as isize
}

/// From now on this thread's "OS randomness" is the stream of `seed`.
pub fn seed_thread_randomness(seed: u64) {
    HASH_RNG.with(|r| *r.borrow_mut() = Some(Rng::new(mix(&[seed, 0x6861_7368]))));
}

pub fn getrandom_calls_on_this_thread() -> u64 {
    GETRANDOM_CALLS.with(|c| c.get())
}

/// Returns the iteration order of a small std HashMap created on a fresh thread under `seed`.
pub fn hash_order_probe(seed: u64) -> Vec<u32> {
    std::thread::spawn(move || {
        seed_thread_randomness(seed);
        let mut m = std::collections::HashMap::new();
        for i in 0..24u32 {
            m.insert(format!("k{i}"), i);
        }
        m.values().copied().collect::<Vec<_>>()
    })
    .join()
    .unwrap()
}

/// Harness self-check: the seam must control hash order. Err(reason) otherwise.
pub fn check_randomness_seam() -> Result<(), String> {
    let a = hash_order_probe(11);
    let b = hash_order_probe(11);
    if a != b {
        return Err("same seed gave different HashMap orders: getrandom seam not effective".into());
    }
    let distinct: std::collections::BTreeSet<Vec<u32>> =
        (0..8).map(|s| hash_order_probe(100 + s)).collect();
    if distinct.len() < 4 {
        return Err(format!(
            "8 seeds gave only {} distinct HashMap orders: getrandom seam not effective",
            distinct.len()
        ));
    }
    Ok(())
}

// ---------------------------------------------------------------------------------------------
// stdout / stderr of the code under test go to /dev/null so that the full rendering path runs.

pub fn redirect_stdio_to_devnull() {
    unsafe {
        let devnull = libc::open(c"/dev/null".as_ptr(), libc::O_WRONLY);
        if devnull >= 0 {
            libc::dup2(devnull, 1);
            libc::dup2(devnull, 2);
            libc::close(devnull);
        }
    }
}

/// stdout / stderr of the worker go to two capture files (inside the chroot) so that what the
/// code under test physically prints can be observed per simulated process.
pub fn redirect_stdio_to_capture_files() -> bool {
    unsafe {
        let flags = libc::O_CREAT | libc::O_RDWR | libc::O_APPEND | libc::O_TRUNC;
        let out = libc::open(c"/stdout.cap".as_ptr(), flags, 0o600);
        let err = libc::open(c"/stderr.cap".as_ptr(), flags, 0o600);
        if out < 0 || err < 0 {
            return false;
        }
        libc::dup2(out, 1);
        libc::dup2(err, 2);
        libc::close(out);
        libc::close(err);
        true
    }
}

pub fn capture_begin() {
    use std::io::Write;
    let _ = std::io::stdout().flush();
    let _ = std::io::stderr().flush();
    unsafe {
        libc::ftruncate(1, 0);
        libc::ftruncate(2, 0);
    }
}

/// Everything in the file behind a descriptor that was opened for reading and writing (read by
/// position through the descriptor itself, so it also works after the process gave up the
/// privileges it would need to open the path).
fn read_whole_fd(fd: i32) -> Vec<u8> {
    let mut data = Vec::new();
    let mut buf = [0u8; 65536];
    loop {
        let n = unsafe { libc::pread(fd, buf.as_mut_ptr() as *mut c_void, buf.len(), data.len() as libc::off_t) };
        if n <= 0 {
            break;
        }
        data.extend_from_slice(&buf[..n as usize]);
    }
    data
}

/// Returns what was written to stdout and stderr since `capture_begin`.
pub fn capture_end() -> (String, String) {
    use std::io::Write;
    let _ = std::io::stdout().flush();
    let _ = std::io::stderr().flush();
    let out = read_whole_fd(1);
    let err = read_whole_fd(2);
    (String::from_utf8_lossy(&out).to_string(), String::from_utf8_lossy(&err).to_string())
}

/// The temporary directory of the simulated machine (TMPDIR of every simulated process). It is
/// the one place outside the simulated disk where the code under test could keep durable state
/// (a cache, a lock, a log): it survives from one simulated process to the next within a run — a
/// server restart, the next command-line invocation on the same world — and is emptied at the start
/// of every run and before every reference execution, which stands for a clean machine.
pub const SIM_TMP: &str = "/t";

pub fn reset_sim_tmp() {
    use std::os::unix::fs::PermissionsExt;
    let p = Path::new(SIM_TMP);
    let _ = std::fs::remove_dir_all(p);
    let _ = std::fs::create_dir_all(p);
    let _ = std::fs::set_permissions(p, std::fs::Permissions::from_mode(0o1777));
}

/// The user a simulated process runs as when the variant asks for an unprivileged process (the
/// worker itself is root, for which permission bits mean nothing).
pub const UNPRIVILEGED_ID: u32 = 65534;

/// Gives up root in the calling (forked) process for good. False if that was not possible.
pub fn drop_privileges() -> bool {
    unsafe {
        libc::setgroups(0, std::ptr::null()) == 0
            && libc::setgid(UNPRIVILEGED_ID) == 0
            && libc::setuid(UNPRIVILEGED_ID) == 0
            && libc::geteuid() == UNPRIVILEGED_ID
    }
}

/// Hands a directory tree to the unprivileged user (symlinks themselves, never their targets).
pub fn chown_tree(path: &Path) {
    use std::os::unix::ffi::OsStrExt;
    if let Ok(c) = std::ffi::CString::new(path.as_os_str().as_bytes()) {
        unsafe {
            libc::lchown(c.as_ptr(), UNPRIVILEGED_ID, UNPRIVILEGED_ID);
        }
    }
    if path.is_dir() && !path.is_symlink() {
        if let Ok(rd) = std::fs::read_dir(path) {
            for e in rd.flatten() {
                chown_tree(&e.path());
            }
        }
    }
}

/// Harness self-check: an unprivileged forked child must really be refused a file of mode 000.
pub fn check_privilege_seam(scratch: &Path) -> Result<(), String> {
    use std::os::unix::fs::PermissionsExt;
    // (a name of its own: several checks may run side by side)
    let f = scratch.join(format!("simplc-privilege-probe-{}", std::process::id()));
    std::fs::write(&f, b"x").map_err(|e| format!("privilege probe: {e}"))?;
    std::fs::set_permissions(&f, std::fs::Permissions::from_mode(0o000)).map_err(|e| format!("privilege probe: {e}"))?;
    chown_tree(&f);
    let f2 = f.clone();
    let r: Result<(bool, String), String> = run_forked(move || {
        let dropped = drop_privileges();
        let kind = match std::fs::read(&f2) {
            Ok(_) => "readable".to_string(),
            Err(e) => format!("{:?}", e.kind()),
        };
        (dropped, kind)
    });
    let _ = std::fs::remove_file(&f);
    match r {
        Ok((true, kind)) if kind == "PermissionDenied" => Ok(()),
        other => Err(format!("an unprivileged simulated process is not refused a file of mode 000: {other:?}")),
    }
}

pub fn strip_ansi(s: &str) -> String {
    let mut out = String::new();
    let mut chars = s.chars();
    while let Some(c) = chars.next() {
        if c == '\u{1b}' {
            for d in chars.by_ref() {
                if d.is_ascii_alphabetic() {
                    break;
                }
            }
        } else {
            out.push(c);
        }
    }
    out
}

// ---------------------------------------------------------------------------------------------
// Panics: quiet hook, message and location kept per thread.

thread_local! {
    static LAST_PANIC: RefCell<Option<String>> = const { RefCell::new(None) };
}

pub fn install_quiet_panic_hook() {
    std::panic::set_hook(Box::new(|info| {
        let msg = if let Some(s) = info.payload().downcast_ref::<&str>() {
            s.to_string()
        } else if let Some(s) = info.payload().downcast_ref::<String>() {
            s.clone()
        } else {
            "<non-string panic>".to_string()
        };
        let loc = info
            .location()
            .map(|l| format!("{}:{}", l.file(), l.line()))
            .unwrap_or_default();
        let _ = LAST_PANIC.try_with(|p| *p.borrow_mut() = Some(format!("{msg} @ {loc}")));
    }));
}

pub fn take_last_panic() -> Option<String> {
    LAST_PANIC.with(|p| p.borrow_mut().take())
}

/// Shortens a panic text to something stable (no run-specific paths or payload dumps).
pub fn panic_signature(p: &str) -> String {
    // keep "message-prefix @ file:line"
    let (msg, loc) = match p.rsplit_once(" @ ") {
        Some((m, l)) => (m, l),
        None => (p, ""),
    };
    let loc = loc.rsplit('/').next().unwrap_or(loc);
    let msg: String = msg.chars().take(40).collect();
    let msg = msg.split(['{', '(', '"', '\'']).next().unwrap_or("").trim().to_string();
    format!("{msg}@{loc}")
}

// ---------------------------------------------------------------------------------------------
// Simulated disk faults.

#[derive(Clone, Debug, Serialize, Deserialize, PartialEq)]
pub enum FsAction {
    /// remove the path (file or directory tree)
    Vanish,
    /// replace a file by an (empty) directory of the same name
    FileToDir,
    /// replace a directory by a file of the same name
    DirToFile,
    /// replace the content
    Rewrite(Vec<u8>),
    /// cut the file at this many bytes
    Truncate(usize),
    /// xor one byte
    BitFlip { offset: usize, mask: u8 },
    /// append bytes
    Append(Vec<u8>),
    /// replace by a dangling symlink
    DanglingSymlink,
}

#[derive(Clone, Debug, Serialize, Deserialize, PartialEq)]
pub struct Fault {
    /// index of the fs-point (in execution order within one command) at which the storage
    /// actor acts, immediately before the real call
    pub at: usize,
    /// path relative to the run root; None = the path the fs-point is about
    pub target: Option<String>,
    pub action: FsAction,
}

pub fn apply_fs_action(path: &Path, action: &FsAction) -> bool {
    use std::fs;
    match action {
        FsAction::Vanish => {
            if path.is_dir() && !path.is_symlink() {
                fs::remove_dir_all(path).is_ok()
            } else {
                fs::remove_file(path).is_ok()
            }
        }
        FsAction::FileToDir => {
            let _ = fs::remove_file(path);
            fs::create_dir(path).is_ok()
        }
        FsAction::DirToFile => {
            let _ = fs::remove_dir_all(path);
            fs::write(path, b"PROGRAM was_a_dir\nEND_PROGRAM\n").is_ok()
        }
        FsAction::Rewrite(bytes) => path.is_file() && fs::write(path, bytes).is_ok(),
        FsAction::Truncate(n) => match fs::read(path) {
            Ok(b) => fs::write(path, &b[..(*n).min(b.len())]).is_ok(),
            Err(_) => false,
        },
        FsAction::BitFlip { offset, mask } => match fs::read(path) {
            Ok(mut b) if !b.is_empty() => {
                let i = offset % b.len();
                b[i] ^= mask;
                fs::write(path, &b).is_ok()
            }
            _ => false,
        },
        FsAction::Append(bytes) => match fs::read(path) {
            Ok(mut b) => {
                b.extend_from_slice(bytes);
                fs::write(path, &b).is_ok()
            }
            Err(_) => false,
        },
        FsAction::DanglingSymlink => {
            if path.is_dir() && !path.is_symlink() {
                let _ = fs::remove_dir_all(path);
            } else {
                let _ = fs::remove_file(path);
            }
            std::os::unix::fs::symlink("/nonexistent/simplc-dangling", path).is_ok()
        }
    }
}

pub fn action_kind(a: &FsAction) -> &'static str {
    match a {
        FsAction::Vanish => "vanish",
        FsAction::FileToDir => "file_to_dir",
        FsAction::DirToFile => "dir_to_file",
        FsAction::Rewrite(_) => "rewrite",
        FsAction::Truncate(_) => "truncate",
        FsAction::BitFlip { .. } => "bitflip",
        FsAction::Append(_) => "append",
        FsAction::DanglingSymlink => "dangling_symlink",
    }
}

// ---------------------------------------------------------------------------------------------
// The hook object.

#[derive(Default, Debug, Clone)]
pub struct HookLog {
    /// (op, path relative to the run root) in execution order
    pub fs_points: Vec<(String, String)>,
    /// faults that actually changed the disk: (fs-point index, kind)
    pub faults_fired: Vec<(usize, String)>,
    /// one entry per handle_diagnostics call
    pub diag_calls: Vec<(bool, Vec<DiagnosticRecord>)>,
    pub probes: BTreeMap<String, u32>,
    /// iteration order of the project's sources per semantic() call (paths relative to root)
    pub source_orders: Vec<Vec<String>>,
    /// delivery order of directory entries per read_dir
    pub dir_orders: Vec<Vec<String>>,
}

pub struct SimHooks {
    root: PathBuf,
    dir_seed: u64,
    faults: Vec<Fault>,
    log: Mutex<HookLog>,
}

impl SimHooks {
    pub fn new(root: &Path, dir_seed: u64, faults: Vec<Fault>) -> Arc<Self> {
        Arc::new(SimHooks {
            root: root.to_path_buf(),
            dir_seed,
            faults,
            log: Mutex::new(HookLog::default()),
        })
    }

    pub fn rel(&self, p: &Path) -> String {
        rel_path(&self.root, p)
    }

    pub fn take_log(&self) -> HookLog {
        std::mem::take(&mut *self.log.lock().unwrap())
    }
}

pub fn rel_path(root: &Path, p: &Path) -> String {
    match p.strip_prefix(root) {
        Ok(r) => r.to_string_lossy().to_string(),
        Err(_) => {
            let s = p.to_string_lossy().to_string();
            let r = root.to_string_lossy().to_string();
            s.replace(&r, "<root>")
        }
    }
}

impl Hooks for SimHooks {
    fn fs_point(&self, op: &'static str, path: &Path) {
        let mut log = self.log.lock().unwrap();
        let index = log.fs_points.len();
        log.fs_points.push((op.to_string(), rel_path(&self.root, path)));
        for f in self.faults.iter().filter(|f| f.at == index) {
            let target = match &f.target {
                Some(t) => self.root.join(t),
                None => path.to_path_buf(),
            };
            // never touch anything outside the run root
            if !target.starts_with(&self.root) {
                continue;
            }
            if apply_fs_action(&target, &f.action) {
                log.faults_fired.push((index, action_kind(&f.action).to_string()));
            }
        }
    }

    fn permute_dir(&self, dir: &Path, names: &[String]) -> Option<Vec<usize>> {
        // The delivered order is a function of (dir_seed, directory, set of names) only, never
        // of the order the OS produced.
        let mut idx: Vec<usize> = (0..names.len()).collect();
        idx.sort_by(|a, b| names[*a].cmp(&names[*b]));
        let mut rng = Rng::new(mix(&[self.dir_seed, hash_str(&rel_path(&self.root, dir))]));
        rng.shuffle(&mut idx);
        let mut log = self.log.lock().unwrap();
        log.dir_orders.push(idx.iter().map(|i| names[*i].clone()).collect());
        Some(idx)
    }

    fn diagnostics(&self, with_project: bool, mut records: Vec<DiagnosticRecord>) {
        let root = self.root.to_string_lossy().to_string();
        for r in records.iter_mut() {
            r.primary.file = r.primary.file.replace(&root, "<root>");
            r.primary.message = r.primary.message.replace(&root, "<root>");
            for s in r.secondary.iter_mut() {
                s.file = s.file.replace(&root, "<root>");
                s.message = s.message.replace(&root, "<root>");
            }
        }
        self.log.lock().unwrap().diag_calls.push((with_project, records));
    }

    fn probe(&self, name: &'static str) {
        *self.log.lock().unwrap().probes.entry(name.to_string()).or_insert(0) += 1;
    }

    fn source_order(&self, order: Vec<String>) {
        let root = self.root.to_string_lossy().to_string();
        let order = order.into_iter().map(|s| s.replace(&root, "<root>")).collect();
        self.log.lock().unwrap().source_orders.push(order);
    }
}

/// Runs `f` as a simulated process: fresh thread (8 MiB stack like a main thread), seeded OS
/// randomness, hooks installed, panics caught. Returns Err(panic text) on a panic.
pub fn run_simulated_process<T: Send + 'static>(
    hash_seed: u64,
    hooks: Option<Arc<SimHooks>>,
    f: impl FnOnce() -> T + Send + 'static,
) -> Result<T, String> {
    let handle = std::thread::Builder::new()
        .stack_size(8 << 20)
        .spawn(move || {
            seed_thread_randomness(hash_seed);
            ironplcc::verif::install(hooks.map(|h| h as Arc<dyn Hooks>));
            let r = std::panic::catch_unwind(std::panic::AssertUnwindSafe(f));
            ironplcc::verif::install(None);
            match r {
                Ok(v) => Ok(v),
                Err(_) => Err(take_last_panic().unwrap_or_else(|| "panic".to_string())),
            }
        })
        .expect("spawn");
    match handle.join() {
        Ok(r) => r,
        Err(_) => Err("panic outside catch_unwind".to_string()),
    }
}

const HARNESS_PANIC_MARK: &str = "\u{1}simplc-harness-panic\u{1}";

/// Runs `f` in a forked child of the (single-threaded) worker and returns its serialised result.
/// Simulated command-line processes get what a real process has: fresh process-global state
/// (statics, lazies, caches a change under test may introduce), and a crash (abort, stack
/// overflow) that ends only the child. Err(text) if the child died without a result.
pub fn run_forked<T: serde::Serialize + serde::de::DeserializeOwned>(f: impl FnOnce() -> T) -> Result<T, String> {
    use std::io::Write;
    let _ = std::io::stdout().flush();
    let _ = std::io::stderr().flush();
    let mut fds = [0i32; 2];
    unsafe {
        if libc::pipe(fds.as_mut_ptr()) != 0 {
            return Err("pipe() failed".into());
        }
        let pid = libc::fork();
        if pid < 0 {
            libc::close(fds[0]);
            libc::close(fds[1]);
            return Err("fork() failed".into());
        }
        if pid == 0 {
            libc::close(fds[0]);
            let r = std::panic::catch_unwind(std::panic::AssertUnwindSafe(f));
            let payload = match r {
                Ok(v) => serde_json::to_vec(&v).unwrap_or_default(),
                // the code under test always runs on threads of its own with their own catch_unwind:
                // a panic that arrives here is one of the simulator's own code (an oracle, a generator)
                Err(_) => format!("{HARNESS_PANIC_MARK}{}", take_last_panic().unwrap_or_else(|| "panic".into())).into_bytes(),
            };
            let mut off = 0;
            while off < payload.len() {
                let n = libc::write(fds[1], payload[off..].as_ptr() as *const c_void, payload.len() - off);
                if n <= 0 {
                    break;
                }
                off += n as usize;
            }
            libc::close(fds[1]);
            libc::_exit(0);
        }
        libc::close(fds[1]);
        let mut data = Vec::new();
        let mut buf = [0u8; 65536];
        loop {
            let n = libc::read(fds[0], buf.as_mut_ptr() as *mut c_void, buf.len());
            if n <= 0 {
                break;
            }
            data.extend_from_slice(&buf[..n as usize]);
        }
        libc::close(fds[0]);
        let mut status = 0i32;
        libc::waitpid(pid, &mut status, 0);
        if data.is_empty() {
            let why = if libc::WIFSIGNALED(status) { format!("killed by signal {}", libc::WTERMSIG(status)) } else { format!("exit status {}", libc::WEXITSTATUS(status)) };
            return Err(format!("simulated process ended without a result ({why})"));
        }
        if data.starts_with(HARNESS_PANIC_MARK.as_bytes()) {
            return Err(format!("harness panic: {}", String::from_utf8_lossy(&data[HARNESS_PANIC_MARK.len()..])));
        }
        serde_json::from_slice(&data).map_err(|e| format!("unreadable result from simulated process: {e}"))
    }
}
