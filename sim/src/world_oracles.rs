//! Generators, oracles and shrinking for the `world` campaigns (C03, C06, C13, C14).

use crate::{
    campaign::{RunReport, Stats, Violation},
    pool::{self, World},
    prng::Rng,
    seam::{Fault, FsAction},
    world::{exec_variant, file_bytes, file_text, map_offset, Enc, Entry, Extra, FileSpec, Obs, Outcome, Variant, WorldTrace},
};

pub const FILE_NAMES: &[&str] = &["a.st", "b.st", "c.st", "main.st", "lib.ST", "z_types.st", "m.iec", "0.st", "A.st", "LIB.st", "Main.st"];

fn viol(prop: &str, signature: String, detail: String) -> Violation {
    Violation { property: prop.to_string(), signature, detail }
}

fn world_kind(w: &World) -> String {
    match &w.fault {
        Some(f) => f.kind.clone(),
        None => "valid".to_string(),
    }
}

fn outcome_word(o: &Outcome) -> &'static str {
    match o {
        Outcome::Ok => "OK",
        Outcome::Err(_) => "failure",
        Outcome::Panic(_) => "panic",
    }
}

// ---------------------------------------------------------------------------------------------
// Variant construction helpers

/// Distributes `order` (declaration indices) over `k` files.
pub fn partition(rng: &mut Rng, order: &[usize], k: usize, enc: Enc) -> Vec<FileSpec> {
    let mut names: Vec<&str> = FILE_NAMES.to_vec();
    rng.shuffle(&mut names);
    let mut files: Vec<FileSpec> =
        (0..k).map(|i| FileSpec { name: names[i].to_string(), decls: vec![], enc, raw: None, via_symlink: false, name_bytes: None }).collect();
    for d in order {
        let f = rng.below(k);
        files[f].decls.push(*d);
    }
    // an empty file is legal but rarely interesting
    if rng.chance(9, 10) {
        files.retain(|f| !f.decls.is_empty());
    }
    if files.is_empty() {
        files.push(FileSpec { name: names[0].to_string(), decls: vec![], enc, raw: None, via_symlink: false, name_bytes: None });
    }
    rng.shuffle(&mut files);
    files
}

/// Spreads the files of a layout over two sub-directories (and the top level); two files in
/// different directories may share their base name.
pub fn spread_over_directories(rng: &mut Rng, files: &mut [FileSpec]) {
    let mut used: Vec<String> = vec![];
    for f in files.iter_mut() {
        let dir = *rng.pick(&["d1/", "d2/", "d1/", "d2/", ""]);
        let base = if rng.chance(1, 2) { "decls.st".to_string() } else { f.name.clone() };
        let mut name = format!("{dir}{base}");
        if used.contains(&name) {
            name = format!("{dir}{}", f.name);
        }
        if used.contains(&name) {
            continue;
        }
        used.push(name.clone());
        f.name = name;
    }
}

/// Chooses how the files are presented: list, directory or mixture; every file is covered.
pub fn present(rng: &mut Rng, files: &[FileSpec]) -> Vec<String> {
    let mut list: Vec<String> = files.iter().map(|f| format!("ws/{}", f.name)).collect();
    rng.shuffle(&mut list);
    if files.iter().any(|f| f.name.contains('/')) {
        // several directories: name each directory (or its files one by one) and the top-level files
        let mut args: Vec<String> = vec![];
        for d in ["d1", "d2"] {
            let inside: Vec<String> = list.iter().filter(|a| a.starts_with(&format!("ws/{d}/"))).cloned().collect();
            if inside.is_empty() {
                continue;
            }
            match rng.below(4) {
                0 => args.extend(inside),
                1 => {
                    // the directory and, again, one of its files
                    args.push(format!("ws/{d}"));
                    args.push(inside[rng.below(inside.len())].clone());
                }
                _ => args.push(format!("ws/{d}")),
            }
        }
        args.extend(list.iter().filter(|a| !a.starts_with("ws/d1/") && !a.starts_with("ws/d2/")).cloned());
        rng.shuffle(&mut args);
        return args;
    }
    match rng.below(5) {
        0 | 1 => list,
        2 | 3 => vec!["ws".to_string()],
        _ => {
            // mixture: a few files and the directory (which covers the rest)
            let keep = rng.below(list.len() + 1);
            list.truncate(keep);
            let pos = rng.below(list.len() + 1);
            list.insert(pos, "ws".to_string());
            list
        }
    }
}

/// Adds 6-17 more valid one-block files (unique names, no relation to the world) to a variant, with
/// file names that sort before, between and after the usual ones: a compilation set of 9-20 files.
/// The files are named as arguments unless a directory argument already covers them.
pub fn add_padding_files(rng: &mut Rng, v: &mut Variant) {
    let count = rng.range(6, 17);
    let covered = v.args.iter().any(|a| matches!(a.as_str(), "ws" | "ws/." | "ws/./" | "ws/../ws" | "ws/../ws/."));
    let style = rng.below(3);
    for i in 0..count {
        let prefix = match style {
            0 => "0pad",
            1 => "zpad",
            _ => *rng.pick(&["0pad", "kpad", "zpad"]),
        };
        let name = format!("{prefix}{i:02}.st");
        if v.files.iter().any(|f| f.name == name) {
            continue;
        }
        let text = format!("FUNCTION_BLOCK Pad{i}\n  VAR\n    k : INT;\n  END_VAR\n  k := {i};\nEND_FUNCTION_BLOCK\n");
        let pos = rng.below(v.files.len() + 1);
        v.files.insert(pos, FileSpec { name: name.clone(), decls: vec![], enc: Enc::Utf8, raw: Some(text.into_bytes()), via_symlink: false, name_bytes: None });
        if !covered && !v.args.is_empty() {
            let pos = rng.below(v.args.len() + 1);
            v.args.insert(pos, format!("ws/{name}"));
        }
    }
}

/// Comments holding characters of the Windows-1252 repertoire in front of the code (before each
/// declaration or at the start of its second line): verdicts and declaration-relative byte offsets
/// are unaffected, but what a wrongly chosen decoder makes of the file is not.
pub fn decorate_lightly(rng: &mut Rng, world: &mut World) {
    for d in world.decls.iter_mut() {
        if d.text.contains("(* never closed") {
            continue; // (worlds with an unterminated comment hold no other comment)
        }
        let extra = *rng.pick(&["Zähler", "Größe µ °C", "£ € ¥", "naïve façade"]);
        match rng.below(3) {
            0 => d.text = format!("(* {extra} *)\n{}", d.text),
            1 => {
                if let Some(p) = d.text.find('\n') {
                    d.text.insert_str(p + 1, &format!("(* {extra} *) "));
                }
            }
            _ => {}
        }
    }
}

/// Gives every file of a variant a stored encoding of its own (the set is mixed).
pub fn mix_encodings(rng: &mut Rng, world: &World, v: &mut Variant) {
    let allow_1252 = v.files.iter().all(|f| file_text(world, f).chars().all(|c| c.is_ascii() || encoding_rs::WINDOWS_1252.encode(&c.to_string()).2 == false));
    assign_encodings(rng, world, &mut v.files, allow_1252);
}

fn canonical_variant(world: &World, role: &str) -> Variant {
    Variant {
        role: role.to_string(),
        entry: Entry::Check,
        files: vec![FileSpec { name: "a.st".into(), decls: (0..world.decls.len()).collect(), enc: Enc::Utf8, raw: None, via_symlink: false, name_bytes: None }],
        extras: vec![],
        args: vec!["ws/a.st".into()],
        dir_seed: 0,
        hash_seed: 1,
        faults: vec![],
        unprivileged: false,
        cwd: None,
    }
}

fn random_variant(rng: &mut Rng, world: &World, role: &str, max_files: usize) -> Variant {
    let order = rng.perm(world.decls.len());
    let k = rng.range(1, max_files.min(world.decls.len().max(1)));
    let mut files = partition(rng, &order, k, Enc::Utf8);
    if rng.chance(1, 5) {
        spread_over_directories(rng, &mut files);
    }
    let args = present(rng, &files);
    let entry = if rng.chance(1, 5) { Entry::ApiText } else { Entry::Check };
    Variant { role: role.to_string(), entry, files, extras: vec![], args, dir_seed: rng.next(), hash_seed: rng.next(), faults: vec![], unprivileged: false, cwd: None }
}

// ---------------------------------------------------------------------------------------------
// C06

pub fn gen_c06(rng: &mut Rng, thorough: bool) -> WorldTrace {
    let size = if thorough { rng.range(1, 9) } else { rng.range(1, 6) };
    let world = if rng.chance(2, 5) {
        pool::gen_valid(rng, size)
    } else {
        let kind = *rng.pick(pool::FAULT_KINDS);
        pool::gen_faulty(rng, size, kind)
    };
    // a fifth of the worlds: multi-byte characters in comments, and every variant stores its files
    // in encodings of its own choice (a mixed set)
    let mixed = !world.decls.iter().any(|d| d.text.contains("(* never closed")) && rng.chance(1, 5);
    let mut world = world;
    if mixed {
        decorate_lightly(rng, &mut world);
    }
    let nvar = if thorough { 24 } else { 10 };
    let mut variants = vec![canonical_variant(&world, "canonical")];
    if let Some(f) = &world.fault {
        // reference: the world without the planted fault. Only if this is accepted is the world a
        // *single-fault* unit, for which C06 also fixes code and location.
        let mut v = canonical_variant(&world, "nofault");
        v.files[0].decls.retain(|d| !f.involved.contains(d));
        variants.push(v);
    }
    // the quantifier asks for all permutations of the top-level declarations of small worlds:
    // every permutation as a one-file layout (up to 3 declarations in quick, 5 in thorough)
    let n = world.decls.len();
    if n >= 2 && n <= if thorough { 5 } else { 3 } {
        let mut perm: Vec<usize> = (0..n).collect();
        // Heap's algorithm, iterative
        let mut c = vec![0usize; n];
        let mut i = 0;
        let mut all = vec![perm.clone()];
        while i < n {
            if c[i] < i {
                if i % 2 == 0 {
                    perm.swap(0, i);
                } else {
                    perm.swap(c[i], i);
                }
                all.push(perm.clone());
                c[i] += 1;
                i = 0;
            } else {
                c[i] = 0;
                i += 1;
            }
        }
        for p in all.into_iter().skip(1) {
            let mut v = canonical_variant(&world, "permutation");
            v.files[0].decls = p;
            v.hash_seed = rng.next();
            variants.push(v);
        }
    }
    let nvar = nvar + variants.len();
    let first_free = variants.len();
    while variants.len() < nvar {
        if variants.len() > first_free && rng.chance(1, 4) {
            // the identical configuration in "another run": only the OS randomness differs
            let mut v = variants[rng.range(first_free, variants.len() - 1)].clone();
            v.role = "repeat".into();
            v.hash_seed = rng.next();
            variants.push(v);
        } else {
            let mut v = random_variant(rng, &world, "variant", 3);
            if mixed && v.entry != Entry::ApiText {
                mix_encodings(rng, &world, &mut v);
            }
            if rng.chance(1, 8) && matches!(v.entry, Entry::Check) {
                add_padding_files(rng, &mut v);
            }
            variants.push(v);
        }
    }
    // "the particular run": a run may come after an earlier run on the same machine. For a quarter of
    // the faulty worlds one variant is preceded by a run on the *repaired* set under the very same
    // paths with the very same file sizes (every declaration of the fault replaced by a comment of
    // its length) - whatever that run leaves behind (the temporary directory survives within a
    // world) must not change the verdict of the run that follows.
    if let Some(f) = &world.fault {
        if rng.chance(1, 4) && !world.decls.iter().any(|d| d.text.contains("(* never closed")) {
            let candidates: Vec<usize> = variants.iter().enumerate().filter(|(_, v)| v.role == "variant" && v.entry == Entry::Check && v.files.iter().all(|x| x.raw.is_none())).map(|(i, _)| i).collect();
            if !candidates.is_empty() {
                let at = *rng.pick(&candidates);
                let mut repaired = variants[at].clone();
                repaired.role = "samesize_repair".into();
                for file in repaired.files.iter_mut() {
                    let mut text = String::new();
                    for d in &file.decls {
                        let t = &world.decls[*d].text;
                        if f.involved.contains(d) && t.len() >= 6 && t.is_ascii() {
                            text.push_str(&format!("(*{}*)\n", ".".repeat(t.len() - 5)));
                        } else {
                            text.push_str(t);
                        }
                    }
                    file.raw = Some(crate::world::encode(&text, file.enc));
                }
                variants.insert(at, repaired);
            }
        }
    }
    WorldTrace { prop: "C06".into(), world, variants, mode: String::new() }
}

/// Diagnostics of an observation as (code, mapped primary location).
fn mapped(world: &World, v: &Variant, obs: &Obs) -> Vec<(String, Option<(usize, usize)>)> {
    obs.diags
        .iter()
        .map(|d| {
            // a label 0..0 is the analyzer's way of saying "this file" (Label::file, default spans): no position
            let loc = if d.primary.start == 0 && d.primary.end == 0 { None } else { map_offset(world, &v.files, &d.primary.file, d.primary.start) };
            (d.code.clone(), loc)
        })
        .collect()
}

fn oracle_c06(t: &WorldTrace, obs: &[Obs], stats: &mut Stats) -> Vec<Violation> {
    let mut out = vec![];
    let kind = world_kind(&t.world);
    let canon = &obs[0];
    let nofault_ok = t.variants.iter().zip(obs).find(|(v, _)| v.role == "nofault").map(|(_, o)| !o.failed());
    for (i, o) in obs.iter().enumerate().skip(1) {
        // (the reference run without the fault and the run on the repaired set are other sets)
        if t.variants[i].role == "nofault" || t.variants[i].role == "samesize_repair" {
            continue;
        }
        if outcome_word(&o.outcome) != outcome_word(&canon.outcome) {
            out.push(viol(
                "C06",
                format!("C06/verdict-differs/{kind}"),
                format!(
                    "variant {i} ({:?}, files {:?}, args {:?}, hash_seed {}) gives {} ({:?}) but the canonical single-file layout gives {} ({:?})",
                    t.variants[i].entry,
                    t.variants[i].files.iter().map(|f| (&f.name, &f.decls)).collect::<Vec<_>>(),
                    t.variants[i].args,
                    t.variants[i].hash_seed,
                    outcome_word(&o.outcome),
                    o.codes(),
                    outcome_word(&canon.outcome),
                    canon.codes()
                ),
            ));
            break;
        }
    }
    // the identical configuration in another run (only the OS randomness differs): for single-fault
    // worlds the reported codes and locations are the same list, in the same order
    if nofault_ok == Some(true) && out.is_empty() {
        for (i, v) in t.variants.iter().enumerate() {
            if v.role != "repeat" {
                continue;
            }
            let twin = t.variants.iter().position(|w| w.role != "repeat" && w.files == v.files && w.args == v.args && w.entry == v.entry && w.dir_seed == v.dir_seed);
            if let Some(j) = twin {
                stats.count("c06.repeat_order_comparisons");
                let list = |o: &Obs| o.diags.iter().map(|d| (d.code.clone(), d.primary.file.clone(), d.primary.start)).collect::<Vec<_>>();
                if list(&obs[i]) != list(&obs[j]) {
                    out.push(viol(
                        "C06",
                        format!("C06/run-dependent-report/{kind}"),
                        format!("the same files, arguments and directory order in two runs (hash seeds {} and {}) report {:?} and {:?}", t.variants[j].hash_seed, v.hash_seed, list(&obs[j]), list(&obs[i])),
                    ));
                    break;
                }
            }
        }
    }
    // single-fault worlds: code and location are layout independent
    let canon_diags: Vec<_> = mapped(&t.world, &t.variants[0], canon).into_iter().filter(|(c, _)| c != "P0030").collect();
    if canon_diags.len() == 1 && out.is_empty() && nofault_ok == Some(true) {
        stats.count("c06.single_diagnostic_worlds");
        let (code, loc) = canon_diags[0].clone();
        let involved: Vec<usize> = t.world.fault.as_ref().map(|f| f.involved.clone()).unwrap_or_default();
        // the location is only compared when the canonical run places it inside the planted fault
        let loc_reliable = matches!(loc, Some((d, _)) if involved.contains(&d));
        let multi = involved.len() > 1;
        for (i, o) in obs.iter().enumerate().skip(1) {
            if t.variants[i].role == "nofault" || t.variants[i].role == "samesize_repair" {
                continue;
            }
            let m = mapped(&t.world, &t.variants[i], o);
            let ok = m.iter().any(|(c, l)| {
                if *c != code {
                    return false;
                }
                if !loc_reliable {
                    return true;
                }
                match (l, loc) {
                    // a fault made of several declarations (cycle, name clash) may be reported at any of them
                    (Some((d, _)), _) if multi => involved.contains(d),
                    (Some(a), Some(b)) => *a == b,
                    _ => false,
                }
            });
            if loc_reliable {
                stats.count("c06.location_comparisons");
            }
            if !ok {
                out.push(viol(
                    "C06",
                    format!("C06/code-or-location-differs/{kind}"),
                    format!(
                        "canonical layout reports {code} at declaration/offset {loc:?}; variant {i} (files {:?}, args {:?}, hash_seed {}) reports {:?}",
                        t.variants[i].files.iter().map(|f| (&f.name, &f.decls)).collect::<Vec<_>>(),
                        t.variants[i].args,
                        t.variants[i].hash_seed,
                        m
                    ),
                ));
                break;
            }
        }
    }
    out
}

// ---------------------------------------------------------------------------------------------
// C13: command-line contract

fn static_fault(rng: &mut Rng, v: &mut Variant) -> &'static str {
    match rng.below(14) {
        0 => {
            let pos = rng.below(v.args.len() + 1);
            // sometimes a long name of multi-byte characters (it is quoted in the diagnostic)
            let name = if rng.chance(1, 3) { format!("ws/{}{}.st", "x".repeat(rng.below(4)), rng.pick(&["ä", "€", "é"]).repeat(rng.range(60, 80))) } else { "ws/missing.st".to_string() };
            v.args.insert(pos, name);
            "missing_path"
        }
        1 => {
            v.extras.push(Extra::DanglingSymlink("dangling.st".into()));
            if !v.args.iter().any(|a| a == "ws") {
                v.args.push("ws/dangling.st".into());
            }
            "dangling_symlink"
        }
        2 => {
            v.extras.push(Extra::SymlinkLoop("loop.st".into()));
            if !v.args.iter().any(|a| a == "ws") {
                v.args.push("ws/loop.st".into());
            }
            "symlink_loop"
        }
        3 => {
            v.extras.push(Extra::EmptyDir("empty".into()));
            if rng.chance(1, 2) {
                v.args = vec!["ws/empty".into()];
            } else {
                let pos = rng.below(v.args.len() + 1);
                v.args.insert(pos, "ws/empty".into());
            }
            "empty_directory"
        }
        4 => {
            v.extras.push(Extra::SubDirWithFile("sub".into()));
            v.args = vec!["ws".into()];
            "sub_directory"
        }
        5 => {
            if let Some(f) = v.files.first() {
                v.extras.push(Extra::SymlinkToFile("link.st".into(), f.name.clone()));
            }
            "symlink_to_file"
        }
        6 => {
            v.args = vec!["ws/nodir".into()];
            "missing_directory"
        }
        7 => {
            v.args.clear();
            "no_arguments"
        }
        8 => {
            // directory given through a path with dot components
            v.args = vec!["ws/../ws/.".into()];
            "dotted_path"
        }
        // permission faults: the simulated process is an ordinary user, the path is there but
        // may not be read (EACCES from the real kernel)
        9 | 10 => {
            v.unprivileged = true;
            if let Some(f) = v.files.get(rng.below(v.files.len().max(1))) {
                v.extras.push(Extra::Mode(f.name.clone(), *rng.pick(&[0o000, 0o200, 0o333])));
            }
            "unreadable_file"
        }
        11 => {
            // the directory can be neither listed nor searched
            v.unprivileged = true;
            v.extras.push(Extra::Mode(String::new(), *rng.pick(&[0o000, 0o111, 0o300])));
            "unreadable_directory"
        }
        12 => {
            // the directory can be listed but its entries cannot be reached
            v.unprivileged = true;
            v.extras.push(Extra::Mode(String::new(), *rng.pick(&[0o444, 0o644])));
            "unsearchable_directory"
        }
        _ => {
            v.extras.push(Extra::SocketFile("sock.st".into()));
            if !v.args.iter().any(|a| a == "ws") {
                let pos = rng.below(v.args.len() + 1);
                v.args.insert(pos, "ws/sock.st".into());
            }
            "socket_file"
        }
    }
}

fn fs_point_estimate(v: &Variant) -> usize {
    let dirs = v.args.iter().filter(|a| *a == "ws").count();
    2 * v.args.len() + dirs + v.files.len() * (1 + dirs) + 1
}

fn dynamic_fault(rng: &mut Rng, world: &World, v: &mut Variant) {
    let at = rng.below(fs_point_estimate(v).max(1));
    let target = match rng.below(3) {
        0 => None,
        1 => Some("ws".to_string()),
        _ => v.files.get(rng.below(v.files.len().max(1))).map(|f| format!("ws/{}", f.name)),
    };
    let other_text = if world.decls.is_empty() { String::new() } else { world.decls[rng.below(world.decls.len())].text.clone() };
    let action = match rng.below(9) {
        0 | 1 => FsAction::Vanish,
        2 => FsAction::FileToDir,
        3 => FsAction::DirToFile,
        4 => FsAction::Rewrite(other_text.into_bytes()),
        5 => FsAction::Rewrite(b"PROGRAM rewritten\n  VAR\n    k : INT;\n  END_VAR\n  k := undefined_after_rewrite;\nEND_PROGRAM\n".to_vec()),
        6 => FsAction::Truncate(rng.below(40)),
        7 => FsAction::Append(b"\n?? garbage".to_vec()),
        _ => FsAction::DanglingSymlink,
    };
    v.faults.push(Fault { at, target, action });
}

/// Deterministic boundary cases of the C13 campaign (run indices 0..C13_BOUNDARY_RUNS): sets that
/// produce 255, 256 and 257 diagnostics (exit statuses are 8 bit wide, counters wrap).
pub const C13_BOUNDARY_RUNS: u64 = 12;

fn gen_c13_boundary(rng: &mut Rng, index: u64) -> WorldTrace {
    if index >= 9 {
        // valid files whose names need care when they pass through an argument parser or a shell-like
        // splitter: comma, blank, semicolon, quote, non-ASCII; named one by one (and as a directory)
        let names = ["motor,v2.st", "a b.st", "x;y.st", "q'uote.st", "ü ñ.st", "plain.st"];
        let mut decls = vec![];
        let mut files = vec![];
        for (i, name) in names.iter().enumerate() {
            decls.push(pool::Decl { text: format!("FUNCTION_BLOCK Odd{i}\n  VAR\n    k : INT;\n  END_VAR\n  k := {i};\nEND_FUNCTION_BLOCK\n"), kind: "fb".into(), name: format!("Odd{i}") });
            files.push(FileSpec { name: name.to_string(), decls: vec![i], enc: Enc::Utf8, raw: None, via_symlink: false, name_bytes: None });
        }
        let world = World { decls, fault: None };
        let entry = [Entry::Check, Entry::Echo, Entry::Tokenize][(index - 9) as usize % 3];
        let mut listed: Vec<String> = files.iter().map(|f| format!("ws/{}", f.name)).collect();
        rng.shuffle(&mut listed);
        let mk = |role: &str, args: Vec<String>, rng: &mut Rng| Variant { role: role.into(), entry, files: files.clone(), extras: vec![], args, dir_seed: rng.next(), hash_seed: rng.next(), faults: vec![], unprivileged: false, cwd: None };
        let variants = vec![mk(if entry == Entry::Check { "dir" } else { "parts" }, vec!["ws".into()], rng), mk(if entry == Entry::Check { "files" } else { "parts" }, listed, rng)];
        return WorldTrace { prop: "C13".into(), world, variants, mode: "boundary:names".into() };
    }
    let n = [255usize, 256, 257][(index % 3) as usize];
    let which = index / 3;
    let mut decls = vec![];
    let mut files = vec![];
    let (entry, role) = match which {
        0 => {
            // check: n files with one syntax error each, plus one valid file
            for i in 0..n {
                decls.push(pool::Decl { text: format!("FUNCTION_BLOCK Bad{i}\n  VAR\n    cnt : INT;\n  END_VAR\n  cnt := ;\nEND_FUNCTION_BLOCK\n"), kind: "fault".into(), name: format!("Bad{i}") });
                files.push(FileSpec { name: format!("bad{i:03}.st"), decls: vec![i], enc: Enc::Utf8, raw: None, via_symlink: false, name_bytes: None });
            }
            decls.push(pool::Decl { text: "FUNCTION_BLOCK Good\n  VAR\n    cnt : INT;\n  END_VAR\n  cnt := 1;\nEND_FUNCTION_BLOCK\n".into(), kind: "fb".into(), name: "Good".into() });
            files.push(FileSpec { name: "good.st".into(), decls: vec![n], enc: Enc::Utf8, raw: None, via_symlink: false, name_bytes: None });
            (Entry::Check, "dir")
        }
        1 => {
            // echo: n files that do not parse
            for i in 0..n {
                decls.push(pool::Decl { text: format!("PROGRAM Bad{i}\n  VAR\n    cnt INT;\n  END_VAR\nEND_PROGRAM\n"), kind: "fault".into(), name: format!("Bad{i}") });
                files.push(FileSpec { name: format!("bad{i:03}.st"), decls: vec![i], enc: Enc::Utf8, raw: None, via_symlink: false, name_bytes: None });
            }
            (Entry::Echo, "parts")
        }
        _ => {
            // tokenize: one file with n invalid characters
            decls.push(pool::Decl { text: format!("FUNCTION_BLOCK Lex\n  VAR\n    cnt : INT;\n  END_VAR\n  cnt := 1;\nEND_FUNCTION_BLOCK\n{}\n", "? ".repeat(n)), kind: "fault".into(), name: "Lex".into() });
            files.push(FileSpec { name: "lex.st".into(), decls: vec![0], enc: Enc::Utf8, raw: None, via_symlink: false, name_bytes: None });
            (Entry::Tokenize, "parts")
        }
    };
    let world = World { decls, fault: None };
    let v = Variant { role: role.into(), entry, files, extras: vec![], args: vec!["ws".into()], dir_seed: rng.next(), hash_seed: rng.next(), faults: vec![], unprivileged: false, cwd: None };
    WorldTrace { prop: "C13".into(), world, variants: vec![v], mode: format!("boundary:{n}") }
}

pub fn gen_c13(rng: &mut Rng, thorough: bool, run_index: u64) -> WorldTrace {
    if run_index < C13_BOUNDARY_RUNS {
        return gen_c13_boundary(rng, run_index);
    }
    let size = rng.range(1, if thorough { 7 } else { 5 });
    let world = if rng.chance(1, 3) {
        pool::gen_valid(rng, size)
    } else {
        let kind = *rng.pick(pool::FAULT_KINDS);
        pool::gen_faulty(rng, size, kind)
    };
    let order = rng.perm(world.decls.len());
    let k = rng.range(1, 3.min(world.decls.len().max(1)));
    let mut files = partition(rng, &order, k, Enc::Utf8);
    let mut world = world;
    if rng.chance(1, 4) {
        // a larger directory: 3-12 more one-declaration files, some with names that differ only
        // in letter case or extension from others, some hidden
        let odd = [".hidden.st", "A.ST", "a.iec", "b.st.bak", "B.st", "lib.st", "MAIN.st", "zz.txt"];
        let many = if rng.chance(1, 6) { rng.range(20, 70) } else { rng.range(3, 12) };
        for i in 0..many {
            let name = if rng.chance(1, 3) { odd[rng.below(odd.len())].to_string() } else { format!("x{i}.st") };
            if files.iter().any(|f| f.name == name) {
                continue;
            }
            let idx = world.decls.len();
            world.decls.push(pool::Decl { text: format!("FUNCTION_BLOCK Fill{i}\n  VAR\n    k : INT;\n  END_VAR\n  k := {i};\nEND_FUNCTION_BLOCK\n"), kind: "filler".into(), name: format!("Fill{i}") });
            files.push(FileSpec { name, decls: vec![idx], enc: Enc::Utf8, raw: None, via_symlink: false, name_bytes: None });
        }
        rng.shuffle(&mut files);
    }
    let base = |role: &str, entry: Entry, args: Vec<String>, rng: &mut Rng| Variant {
        role: role.to_string(),
        entry,
        files: files.clone(),
        extras: vec![],
        args,
        dir_seed: rng.next(),
        hash_seed: rng.next(),
        faults: vec![],
        unprivileged: false,
        cwd: None,
    };
    let file_args = |rng: &mut Rng| {
        let mut l: Vec<String> = files.iter().map(|f| format!("ws/{}", f.name)).collect();
        rng.shuffle(&mut l);
        l
    };
    let mut variants = vec![base("dir", Entry::Check, vec!["ws".into()], rng)];
    if let Some(f) = &world.fault {
        // reference run without the planted fault: only if it is accepted is the world a single-fault
        // unit, for which a directory and its file list must also report the same codes
        let mut v = canonical_variant(&world, "nofault");
        v.files[0].decls.retain(|d| !f.involved.contains(d));
        variants.push(v);
    }
    if files.len() <= 3 {
        // every argument order (the quantifier's "in every argument order")
        let mut names: Vec<String> = files.iter().map(|f| format!("ws/{}", f.name)).collect();
        names.sort();
        let n = names.len();
        let mut idx: Vec<usize> = (0..n).collect();
        let mut orders = vec![idx.clone()];
        let mut c = vec![0usize; n];
        let mut i = 0;
        while i < n {
            if c[i] < i {
                if i % 2 == 0 {
                    idx.swap(0, i);
                } else {
                    idx.swap(c[i], i);
                }
                orders.push(idx.clone());
                c[i] += 1;
                i = 0;
            } else {
                c[i] = 0;
                i += 1;
            }
        }
        for o in orders {
            let a: Vec<String> = o.iter().map(|i| names[*i].clone()).collect();
            variants.push(base("files", Entry::Check, a, rng));
        }
    } else {
        for _ in 0..rng.range(1, 3) {
            let a = file_args(rng);
            variants.push(base("files", Entry::Check, a, rng));
        }
    }
    // mixtures: the same file twice, a file plus its directory
    let mut a = file_args(rng);
    if rng.chance(1, 3) {
        let dup = a[rng.below(a.len())].clone();
        let pos = rng.below(a.len() + 1);
        a.insert(pos, dup);
    } else if rng.chance(1, 3) {
        // the directory under a non-canonical spelling, plus one of its own files given directly
        let direct = a[rng.below(a.len())].clone();
        a = vec![(*rng.pick(&["ws/.", "ws/../ws", "ws/./"])).to_string()];
        let pos = rng.below(2);
        a.insert(pos, direct);
    } else if rng.chance(1, 2) {
        // the same file once more, through a path with dot components
        let dup = a[rng.below(a.len())].clone();
        let dotted = if rng.chance(1, 2) { dup.replacen("ws/", "ws/./", 1) } else { dup.replacen("ws/", "ws/../ws/", 1) };
        let pos = rng.below(a.len() + 1);
        a.insert(pos, dotted);
    } else {
        let pos = rng.below(a.len() + 1);
        a.insert(pos, "ws".into());
    }
    variants.push(base("mix", Entry::Check, a, rng));
    for entry in [Entry::Echo, Entry::Tokenize] {
        let a = if rng.chance(1, 2) { vec!["ws".to_string()] } else { file_args(rng) };
        variants.push(base("parts", entry, a, rng));
    }
    if files.len() >= 2 && rng.chance(1, 3) {
        // the same files spread over two sub-directories: naming every file must be equivalent to
        // naming the directories (in any mixture and order)
        let mut spread = files.clone();
        spread_over_directories(rng, &mut spread);
        if spread.iter().any(|f| f.name.contains('/')) {
            let mut listed: Vec<String> = spread.iter().map(|f| format!("ws/{}", f.name)).collect();
            rng.shuffle(&mut listed);
            let mut v = base("files2", Entry::Check, listed, rng);
            v.files = spread.clone();
            variants.push(v);
            for entry in [Entry::Check, Entry::Echo, Entry::Tokenize] {
                let a = present(rng, &spread);
                let mut v = base(if entry == Entry::Check { "mix2" } else { "parts" }, entry, a, rng);
                v.files = spread.clone();
                variants.push(v);
            }
        }
    }
    // fault-injecting part (separate from the fault-free variants above)
    let nfault = if thorough { 6 } else { 3 };
    for _ in 0..nfault {
        let entry = *rng.pick(&[Entry::Check, Entry::Check, Entry::Check, Entry::Echo, Entry::Tokenize]);
        let a = if rng.chance(1, 2) { vec!["ws".to_string()] } else { file_args(rng) };
        let mut v = base("fault", entry, a, rng);
        if rng.chance(1, 2) {
            let kind = static_fault(rng, &mut v);
            v.role = format!("fault.static.{kind}");
        } else {
            dynamic_fault(rng, &world, &mut v);
            v.role = "fault.dynamic".into();
        }
        variants.push(v);
    }
    WorldTrace { prop: "C13".into(), world, variants, mode: String::new() }
}

fn is_problem_code(c: &str) -> bool {
    c.len() == 5 && c.starts_with('P') && c[1..].chars().all(|ch| ch.is_ascii_digit())
}

fn oracle_c13(t: &WorldTrace, obs: &[Obs], stats: &mut Stats) -> Vec<Violation> {
    let mut out = vec![];
    let kind = world_kind(&t.world);
    for (i, (v, o)) in t.variants.iter().zip(obs).enumerate() {
        let role = v.role.clone();
        let what = match role.as_str() {
            r if r.starts_with("fault.static.") => r.trim_start_matches("fault.static.").to_string(),
            "fault.dynamic" => {
                let f = v.faults.first();
                let point = f.and_then(|f| o.fs_points.get(f.at)).map(|p| p.0.clone()).unwrap_or_else(|| "none".into());
                format!("dynamic:{}@{}", f.map(|f| crate::seam::action_kind(&f.action)).unwrap_or("none"), point)
            }
            _ => "faultfree".to_string(),
        };
        if let Outcome::Panic(p) = &o.outcome {
            out.push(viol("C13", format!("C13/panic/{:?}/{}", v.entry, crate::seam::panic_signature(p)), format!("variant {i} ({role}, args {:?}) panicked: {p}", v.args)));
            continue;
        }
        let ndiag = o.diags.len() as u32;
        let emitfail = o.probe("emit.failed");
        if v.entry == Entry::Check {
            stats.count("c13.check_agreement_evaluations");
            let okp = o.probe("check.ok");
            let ok = matches!(o.outcome, Outcome::Ok);
            if ok && (okp != 1 || ndiag != 0) {
                out.push(viol("C13", format!("C13/ok-but-diagnostics/{what}"), format!("variant {i} ({role}, args {:?}): result Ok, OK printed {okp} time(s), but {ndiag} diagnostic(s) were emitted: {:?}", v.args, o.codes())));
            }
            if !ok {
                if okp != 0 {
                    out.push(viol("C13", format!("C13/err-but-ok-printed/{what}"), format!("variant {i} ({role}, args {:?}): non-zero result but OK was printed", v.args)));
                }
                if ndiag.saturating_sub(emitfail) < 1 {
                    out.push(viol(
                        "C13",
                        format!("C13/err-without-coded-diagnostic/{what}"),
                        format!(
                            "variant {i} ({role}, args {:?}, world {kind}): non-zero result ({:?}) but no coded diagnostic reached the terminal: {ndiag} diagnostic(s) handed to the renderer ({:?}), {emitfail} of them refused by it",
                            v.args,
                            o.outcome,
                            o.diags.iter().map(|d| (d.code.clone(), d.primary.file.clone(), d.with_project)).collect::<Vec<_>>()
                        ),
                    ));
                }
            }
        }
        // what was physically printed (captured stdout / stderr of the simulated process)
        // (the OK line is promised for `check` only: `echo` and `tokenize` are bound by their exit status)
        if matches!(v.entry, Entry::Check) {
            stats.count("c13.printed_output_evaluations");
            let ok = matches!(o.outcome, Outcome::Ok);
            if o.printed.ok_line != ok {
                out.push(viol(
                    "C13",
                    format!("C13/ok-line-disagrees-with-exit/{:?}/{what}", v.entry),
                    format!("variant {i} ({role}, args {:?}): result {:?} but stdout {} an OK line", v.args, o.outcome, if o.printed.ok_line { "has" } else { "has not" }),
                ));
            }
            if o.printed.ok_lines_stdout > 1 || o.printed.ok_lines_stderr > 0 {
                out.push(viol("C13", format!("C13/ok-line-misplaced/{:?}", v.entry), format!("variant {i} ({role}): OK printed {} time(s) on stdout and {} time(s) on stderr", o.printed.ok_lines_stdout, o.printed.ok_lines_stderr)));
            }
            if v.entry == Entry::Check {
                if ok && !o.printed.codes.is_empty() {
                    out.push(viol("C13", format!("C13/exit-0-but-diagnostic-printed/{what}"), format!("variant {i} ({role}, args {:?}): exit 0 and OK, but stderr carries {:?}", v.args, o.printed.codes)));
                }
                if !ok && o.printed.codes.is_empty() {
                    out.push(viol("C13", format!("C13/err-without-coded-diagnostic/{what}"), format!("variant {i} ({role}, args {:?}, world {kind}): non-zero result ({:?}) but stderr carries no error[Pnnnn] line", v.args, o.outcome)));
                }
                // (how often a code appears on stderr is not constrained: a summary may repeat it)
                let mut printed = o.printed.codes.clone();
                printed.sort();
                printed.dedup();
                let mut emitted = o.codes();
                emitted.dedup();
                if emitfail == 0 && !emitted.iter().all(|c| printed.contains(c)) {
                    out.push(viol("C13", format!("C13/emitted-diagnostic-not-printed/{what}"), format!("variant {i} ({role}): diagnostics handed to the renderer {:?}, codes found on stderr {:?}", o.codes(), printed)));
                }
            }
        }
        // `echo` / `tokenize` exit 0 exactly when every given file parses / tokenizes: with no file at
        // all (no argument, or nothing but an empty directory) that is the case
        if matches!(v.entry, Entry::Echo | Entry::Tokenize) && (role == "fault.static.no_arguments" || (role == "fault.static.empty_directory" && v.args == vec!["ws/empty".to_string()])) {
            stats.count("c13.empty_set_parts_evaluations");
            if !matches!(o.outcome, Outcome::Ok) {
                out.push(viol("C13", format!("C13/{:?}-fails-on-empty-set/{what}", v.entry), format!("variant {i} ({role}, args {:?}): there is no file that does not parse / tokenize, but the result is {:?}", v.args, o.outcome)));
            }
        }
        for d in &o.diags {
            if !is_problem_code(&d.code) {
                out.push(viol("C13", "C13/diagnostic-without-code".into(), format!("variant {i}: diagnostic with code {:?}", d.code)));
            }
        }
    }
    // fault-free equivalences
    let find = |role: &str| t.variants.iter().zip(obs).filter(|(v, _)| v.role == role).collect::<Vec<_>>();
    // codes are compared for valid and single-fault worlds only: with several faults an analysis that
    // stops at the first problem of a stage may legitimately report another one for another file order
    let single_fault = match &t.world.fault {
        None => true,
        Some(_) => find("nofault").first().map(|(_, o)| !o.failed()).unwrap_or(false),
    };
    if let Some((_, dir)) = find("dir").first() {
        for (v, o) in find("files").into_iter().chain(find("mix")) {
            stats.count("c13.dir_vs_files_comparisons");
            if outcome_word(&dir.outcome) != outcome_word(&o.outcome) {
                out.push(viol(
                    "C13",
                    format!("C13/dir-differs-from-files/{}/{kind}", v.role),
                    format!("check of the directory gives {} {:?} but check of args {:?} gives {} {:?}", outcome_word(&dir.outcome), dir.codes(), v.args, outcome_word(&o.outcome), o.codes()),
                ));
            } else if single_fault && dir.codes() != o.codes() {
                stats.count("c13.dir_vs_files_code_comparisons");
                out.push(viol(
                    "C13",
                    format!("C13/dir-codes-differ-from-files/{}/{kind}", v.role),
                    format!("check of the directory reports {:?} but check of args {:?} reports {:?}", dir.codes(), v.args, o.codes()),
                ));
            }
        }
    }
    if let Some((_, reference)) = find("files2").first() {
        for (v, o) in find("mix2") {
            stats.count("c13.dirs_vs_files_comparisons");
            if outcome_word(&reference.outcome) != outcome_word(&o.outcome) || (single_fault && reference.codes() != o.codes()) {
                out.push(viol(
                    "C13",
                    format!("C13/directories-differ-from-files/{kind}"),
                    format!("check of every file by name gives {} {:?} but check of args {:?} (files {:?}) gives {} {:?}", outcome_word(&reference.outcome), reference.codes(), v.args, v.files.iter().map(|f| &f.name).collect::<Vec<_>>(), outcome_word(&o.outcome), o.codes()),
                ));
            }
        }
    }
    for (v, o) in find("parts") {
        if matches!(o.outcome, Outcome::Panic(_)) {
            continue;
        }
        // composition oracle: the command agrees with its parts
        let mut all_ok = true;
        for f in &v.files {
            let text = file_text(&t.world, f);
            let id = ironplc_dsl::core::FileId::from_string(&f.name);
            let opts = ironplc_parser::options::ParseOptions::default();
            let file_ok = match v.entry {
                Entry::Echo => ironplc_parser::parse_program(&text, &id, &opts).is_ok(),
                _ => ironplc_parser::tokenize_program(&text, &id, &opts).1.is_empty(),
            };
            all_ok &= file_ok;
        }
        stats.count("c13.parts_comparisons");
        let ok = matches!(o.outcome, Outcome::Ok);
        if ok != all_ok {
            out.push(viol(
                "C13",
                format!("C13/{:?}-disagrees-with-parts/{kind}", v.entry),
                format!("{:?} of args {:?} returned {:?} although {} of its files {}", v.entry, v.args, o.outcome, if all_ok { "every one" } else { "not every one" }, if v.entry == Entry::Echo { "parses" } else { "tokenizes" }),
            ));
        }
    }
    out
}

// ---------------------------------------------------------------------------------------------
// C14: encodings and corrupted storage

const W1252_EXTRAS: &[&str] = &["Zähler", "Größe µ °C", "naïve façade", "£ € ¥", "Ÿ œ Š ž", "¿qué?", "×÷±", "c1 \u{81}\u{8d}\u{8f}\u{90}\u{9d} ctl",
    // text that quotes mojibake: as Windows-1252 bytes it holds several accidental well-formed UTF-8
    // pairs next to lone high bytes (a decoder must not guess from the majority)
    "nicht Ã¤ Ã¶ Ã¼ ÃŸ sondern ä", "Â°C Â°F Â°K neben °", "Ã© Ã¨ Ãª Ã  é",
    // the three characters whose Windows-1252 bytes are EF BB BF (a byte-order mark to a careless reader)
    "mitten im Text ï»¿ ä",
    // a rule of characters that take one byte in Windows-1252 and three in UTF-8, longer than the rest of a small file
    "————————————————————————————————————————————————————————————————————————————————————————————————————————————————————————————————————————————————————————————————————————————————————————————————————————————————————————————————————————————————————————————————————————————————————————————————————————————————————————————————————————————————————————————————————————————————————————————————————————————————————————————————————————————————————————————————————————————————————————————————"];
const UNICODE_EXTRAS: &[&str] = &["→ 日本語", "Ω ≈ ∑", "😀 emoji", "Привет", "ﬁ ligature", "\u{2028}sep"];

/// Adds non-ASCII characters in comments and string literals.
fn decorate(rng: &mut Rng, world: &mut World, repertoire_1252: bool, allow_big: bool) {
    for d in world.decls.iter_mut() {
        let extra = if repertoire_1252 || rng.chance(1, 2) { *rng.pick(W1252_EXTRAS) } else { *rng.pick(UNICODE_EXTRAS) };
        match rng.below(8) {
            6 if rng.chance(1, 3) => {
                // a no-break space between two tokens: not layout, the same lexical error in every encoding
                d.text = d.text.replacen(" : ", "\u{a0}: ", 1);
            }
            7 if rng.chance(1, 3) => {
                // DOS end-of-file character / no final line break
                if rng.chance(1, 2) {
                    d.text.push('\u{1a}');
                } else {
                    d.text = d.text.trim_end().to_string();
                }
            }
            6 | 7 => {}
            4 => {
                // an OSCAT description header (blanked by the preprocessor) holding non-ASCII text
                if let Some(p) = d.text.find('\n') {
                    d.text.insert_str(p + 1, &format!("(*@KEY@:DESCRIPTION*)\n{extra} {extra}\n(*@KEY@:END_DESCRIPTION*)\n"));
                }
            }
            5 => {
                // a large comment: decoders and position arithmetic must not depend on file size
                // (only for well-formed storage: rendering thousands of lexical errors of a corrupted
                // large file is a matter of running time, which C14 does not speak about)
                if allow_big && rng.chance(1, 8) {
                    // (rarely more than half a MiB of text, i.e. more than a MiB as UTF-16)
                    let kb = if rng.chance(1, 12) { rng.range(520, 700) } else { rng.range(1, 70) };
                    // the padding itself is ASCII half of the time, so that the first non-ASCII
                    // byte of the file lies beyond any sniffing window
                    let line = if rng.chance(1, 2) { format!("(* {} *)\n", "padding ".repeat(12)) } else { format!("(* {extra} {} *)\n", "padding ".repeat(12)) };
                    d.text = format!("{}{}", line.repeat(kb * 1024 / line.len()), d.text);
                }
            }
            0 if allow_big && rng.chance(1, 12) => {
                // one very long line
                d.text = format!("(* {extra} {} *)\n{}", "x".repeat(rng.range(2_000, 70_000)), d.text);
            }
            0 => d.text = format!("(* {extra} *)\n{}", d.text),
            1 => {
                // a string variable inside the first VAR block of a POU
                if let Some(p) = d.text.find("  VAR\n") {
                    d.text.insert_str(p + 6, &format!("    txt : STRING := '{}';\n", extra.replace('\'', "")));
                }
            }
            2 => {
                if let Some(p) = d.text.find('\n') {
                    d.text.insert_str(p + 1, &format!("(* {extra} *) "));
                }
            }
            _ => {}
        }
    }
}

fn draw_enc(rng: &mut Rng, allow_1252: bool) -> Enc {
    loop {
        let e = *rng.pick(&crate::world::ALL_ENCODINGS);
        if e != Enc::Win1252 || allow_1252 {
            return e;
        }
    }
}

fn assign_encodings(rng: &mut Rng, world: &World, files: &mut [FileSpec], allow_1252: bool) {
    for f in files.iter_mut() {
        f.enc = draw_enc(rng, allow_1252);
        if f.enc == Enc::Win1252 {
            // the inherently ambiguous case: the Windows-1252 bytes happen to be valid UTF-8 too
            let text = file_text(world, f);
            let bytes = crate::world::encode(&text, Enc::Win1252);
            if !text.is_ascii() && std::str::from_utf8(&bytes).is_ok() {
                f.enc = Enc::Utf8;
            }
        }
    }
}

pub const SWEEP_RUNS: u64 = 1024;

fn sweep_bytes(position: usize, byte: u8) -> Vec<u8> {
    let template: [&[u8]; 5] = [
        b"FUNCTION_BLOCK Sweep\n  VAR\n    s : STRING := 'a",
        b"b';\n    cnt : INT;\n  END_VAR\n  cnt := 0; (* c",
        b"d *) cnt := cnt + 2;\n  cnt ",
        b":= cn",
        b"t + 1;\nEND_FUNCTION_BLOCK\n",
    ];
    let mut out = vec![];
    for (i, part) in template.iter().enumerate() {
        out.extend_from_slice(part);
        if i == position {
            out.push(byte);
        }
    }
    out
}

pub fn gen_c14(rng: &mut Rng, thorough: bool, run_index: u64) -> WorldTrace {
    if run_index < SWEEP_RUNS {
        // exhaustive part of the quantifier: every byte value at four positions
        let position = (run_index / 256) as usize;
        let byte = (run_index % 256) as u8;
        let world = World { decls: vec![], fault: None };
        let file = FileSpec { name: "sweep.st".into(), decls: vec![], enc: Enc::Utf8, raw: Some(sweep_bytes(position, byte)), via_symlink: false, name_bytes: None };
        let mut variants = vec![];
        for entry in [Entry::Check, Entry::Tokenize, Entry::ApiPush, Entry::Echo, Entry::LspTokens] {
            variants.push(Variant { role: "corrupt".into(), entry, files: vec![file.clone()], extras: vec![], args: vec!["ws/sweep.st".into()], dir_seed: 1, hash_seed: rng.next(), faults: vec![], unprivileged: false, cwd: None });
        }
        return WorldTrace { prop: "C14".into(), world, variants, mode: format!("sweep:{}:{byte}", ["string", "comment", "between_tokens", "identifier"][position]) };
    }
    let size = rng.range(1, if thorough { 6 } else { 4 });
    let mut world = if rng.chance(1, 2) {
        pool::gen_valid(rng, size)
    } else {
        let kind = *rng.pick(pool::FAULT_KINDS);
        pool::gen_faulty(rng, size, kind)
    };
    let allow_1252 = rng.chance(1, 2);
    let twins = rng.chance(3, 5);
    decorate(rng, &mut world, allow_1252, twins);
    let twin_entry = *rng.pick(&[Entry::Check, Entry::Check, Entry::ApiPush, Entry::Tokenize, Entry::Echo, Entry::LspOpenOne]);
    if twins && twin_entry == Entry::LspOpenOne && rng.chance(1, 2) && !world.decls.is_empty() {
        // one declaration sits behind more than half a MiB of comments (more than a MiB as UTF-16)
        let i = rng.below(world.decls.len());
        if !world.decls[i].text.contains("(* never closed") {
            let line = format!("(* {} *)\n", "padding ".repeat(12));
            world.decls[i].text = format!("{}{}", line.repeat(rng.range(520, 700) * 1024 / line.len()), world.decls[i].text);
        }
    }
    let order = rng.perm(world.decls.len());
    let k = rng.range(1, 3.min(world.decls.len().max(1)));
    let files = partition(rng, &order, k, Enc::Utf8);
    let mut variants = vec![];
    if twins {
        // twin worlds: same texts, independently drawn stored encodings
        let args = present(rng, &files);
        let dir_seed = rng.next();
        let hash_seed = rng.next();
        let entry = twin_entry;
        // (the language server announces the directory itself as its folder)
        let args = if entry == Entry::LspOpenOne { vec!["ws".to_string()] } else { args };
        for role in ["twin", "twin", "twin"] {
            let mut f = files.clone();
            assign_encodings(rng, &world, &mut f, allow_1252);
            variants.push(Variant { role: role.into(), entry, files: f, extras: vec![], args: args.clone(), dir_seed, hash_seed, faults: vec![], unprivileged: false, cwd: None });
        }
        // reference twin: plain UTF-8
        variants.insert(0, Variant { role: "reference".into(), entry, files: files.clone(), extras: vec![], args, dir_seed, hash_seed, faults: vec![], unprivileged: false, cwd: None });
        WorldTrace { prop: "C14".into(), world, variants, mode: "twins".into() }
    } else {
        // corrupted storage
        for _ in 0..3 {
            let mut f = files.clone();
            assign_encodings(rng, &world, &mut f, true);
            let args = present(rng, &f);
            let entry = *rng.pick(&[Entry::Check, Entry::Check, Entry::ApiPush, Entry::Tokenize, Entry::Echo, Entry::LspTokens]);
            let mut v = Variant { role: "corrupt".into(), entry, files: f, extras: vec![], args, dir_seed: rng.next(), hash_seed: rng.next(), faults: vec![], unprivileged: false, cwd: None };
            let fi = rng.below(v.files.len());
            let mut bytes = file_bytes(&world, &v.files[fi]);
            match rng.below(7) {
                0 if !bytes.is_empty() => {
                    let i = rng.below(bytes.len());
                    bytes[i] ^= 1 << rng.below(8);
                    v.role = "corrupt.bitflip".into();
                }
                1 => {
                    let n = rng.below(bytes.len() + 1);
                    bytes.truncate(n);
                    v.role = "corrupt.truncate".into();
                }
                2 => {
                    // cut inside the BOM or the first multi-byte sequence
                    let n = rng.below(4.min(bytes.len() + 1));
                    bytes.truncate(n);
                    v.role = "corrupt.truncate_bom".into();
                }
                3 => {
                    let mut g: Vec<u8> = (0..rng.range(1, 8)).map(|_| rng.below(256) as u8).collect();
                    g.extend_from_slice(&bytes);
                    bytes = g;
                    v.role = "corrupt.garbage_prefix".into();
                }
                4 => {
                    bytes.extend((0..rng.range(1, 8)).map(|_| rng.below(256) as u8));
                    v.role = "corrupt.garbage_suffix".into();
                }
                5 => {
                    bytes = (0..rng.range(0, 200)).map(|_| rng.below(256) as u8).collect();
                    v.role = "corrupt.random_binary".into();
                }
                _ => {
                    // concurrent rewrite between enumeration and read: the storage actor replaces the
                    // stored bytes right before the read of this file
                    let other = crate::world::encode(&world.decls[rng.below(world.decls.len())].text, draw_enc(rng, true));
                    let at = rng.below(fs_point_estimate(&v));
                    v.faults.push(Fault { at, target: Some(format!("ws/{}", v.files[fi].name)), action: if rng.chance(1, 2) { FsAction::Rewrite(other) } else { FsAction::Truncate(rng.below(bytes.len() + 1)) } });
                    v.role = "corrupt.concurrent_rewrite".into();
                }
            }
            if v.faults.is_empty() {
                v.files[fi].raw = Some(bytes);
            }
            variants.push(v);
        }
        WorldTrace { prop: "C14".into(), world, variants, mode: "corrupt".into() }
    }
}

fn line_col(text: &str, offset: usize) -> Option<(usize, usize)> {
    if offset > text.len() || !text.is_char_boundary(offset) {
        return None;
    }
    let before = &text[..offset];
    let line = before.matches('\n').count();
    let col = before.rsplit('\n').next().map(|l| l.chars().count()).unwrap_or(0);
    Some((line, col))
}

fn oracle_c14(t: &WorldTrace, obs: &[Obs], stats: &mut Stats) -> Vec<Violation> {
    let mut out = vec![];
    let kind = world_kind(&t.world);
    // structural oracle (every variant): a Result, labels inside the decoded text on char boundaries
    for (i, (v, o)) in t.variants.iter().zip(obs).enumerate() {
        let tag = if t.mode.starts_with("sweep:") { format!("sweep.{}", t.mode.split(':').nth(1).unwrap_or("")) } else { v.role.clone() };
        if let Outcome::Panic(p) = &o.outcome {
            out.push(viol("C14", format!("C14/crash/{tag}/{:?}/{}", v.entry, crate::seam::panic_signature(p)), format!("variant {i} ({}, {:?}, mode {}) crashed: {p}", v.role, v.entry, t.mode)));
            continue;
        }
        stats.count(&format!("c14.structural.{}", v.role));
        let mut all_labels_fine = true;
        for d in &o.diags {
            for l in std::iter::once(&d.primary).chain(d.secondary.iter()) {
                if let Some(len) = l.text_len {
                    let inside = l.start <= l.end && l.end <= len;
                    let boundary = l.on_char_boundary == Some(true);
                    if !inside || !boundary {
                        all_labels_fine = false;
                        out.push(viol(
                            "C14",
                            format!("C14/label-outside-decoded-text/{tag}/{}", d.code),
                            format!("variant {i} ({}, {:?}): diagnostic {} has label {}..{} in {} whose decoded text has {len} bytes (on char boundary: {:?})", v.role, v.entry, d.code, l.start, l.end, l.file, l.on_char_boundary),
                        ));
                    }
                } else if !l.file.is_empty() && d.with_project {
                    // a label naming a file the project does not hold cannot be rendered
                    all_labels_fine = false;
                }
            }
        }
        if all_labels_fine && o.probe("emit.failed") > 0 && o.diags.iter().all(|d| d.primary.text_len.is_some()) {
            out.push(viol("C14", format!("C14/renderer-refused-diagnostic/{tag}"), format!("variant {i}: every label lies inside its file's decoded text, yet the renderer refused {} diagnostic(s): {:?}", o.probe("emit.failed"), o.codes())));
        }
    }
    // twin oracle
    if t.mode == "twins" {
        let reference = &obs[0];
        let rv = &t.variants[0];
        let describe = |v: &Variant| v.files.iter().map(|f| format!("{}:{:?}", f.name, f.enc)).collect::<Vec<_>>().join(",");
        let positions = |v: &Variant, o: &Obs| -> Option<Vec<(String, String, Option<(usize, usize)>)>> {
            let mut p = vec![];
            for d in &o.diags {
                let found = crate::world::find_file(&v.files, &d.primary.file);
                let name = found.map(|f| f.name.clone()).unwrap_or_else(|| crate::world::ws_relative(&d.primary.file).to_string());
                let pos = match found {
                    Some(f) => {
                        let text = file_text(&t.world, f);
                        // offsets are comparable only if the program saw a text of the same length
                        if d.primary.text_len.is_some() && d.primary.text_len != Some(text.len()) {
                            return None;
                        }
                        line_col(&text, d.primary.start)
                    }
                    None => None,
                };
                p.push((d.code.clone(), name, pos));
            }
            p.sort();
            Some(p)
        };
        for (i, (v, o)) in t.variants.iter().zip(obs).enumerate().skip(1) {
            stats.count("c14.twin_comparisons");
            for f in &v.files {
                stats.count(&format!("c14.encoding.{:?}", f.enc));
            }
            let encs: Vec<String> = {
                let mut e: Vec<String> = v.files.iter().map(|f| format!("{:?}", f.enc)).collect();
                e.sort();
                e.dedup();
                e
            };
            if outcome_word(&o.outcome) != outcome_word(&reference.outcome) {
                out.push(viol(
                    "C14",
                    format!("C14/twin-verdict-differs/{}", encs.join("+")),
                    format!("the same texts ({kind}) stored as [{}] give {} {:?} but stored as [{}] give {} {:?}", describe(rv), outcome_word(&reference.outcome), reference.codes(), describe(v), outcome_word(&o.outcome), o.codes()),
                ));
                continue;
            }
            if o.codes() != reference.codes() {
                out.push(viol("C14", format!("C14/twin-codes-differ/{}", encs.join("+")), format!("stored as [{}]: {:?}; stored as [{}]: {:?}", describe(rv), reference.codes(), describe(v), o.codes())));
                continue;
            }
            // what was physically printed: codes, file:line:col of every rendered diagnostic, and
            // (tokenize) the Ln/Col of every token
            if reference.printed.codes != o.printed.codes || reference.printed.locations != o.printed.locations {
                out.push(viol(
                    "C14",
                    format!("C14/twin-printed-positions-differ/{}", encs.join("+")),
                    format!("variant {i}: stored as [{}] the terminal shows {:?} at {:?}; stored as [{}] it shows {:?} at {:?}", describe(rv), reference.printed.codes, reference.printed.locations, describe(v), o.printed.codes, o.printed.locations),
                ));
                continue;
            }
            if v.entry == Entry::Tokenize {
                stats.count("c14.twin_token_dump_comparisons");
                if reference.printed.token_positions != o.printed.token_positions {
                    let first = reference.printed.token_positions.iter().zip(&o.printed.token_positions).position(|(a, b)| a != b);
                    out.push(viol(
                        "C14",
                        format!("C14/twin-token-positions-differ/{}", encs.join("+")),
                        format!("variant {i}: `tokenize` prints {} token positions for [{}] and {} for [{}]; first difference at token {first:?}", reference.printed.token_positions.len(), describe(rv), o.printed.token_positions.len(), describe(v)),
                    ));
                    continue;
                }
            }
            // what the diagnostics say in words (the lexer states line and column in its message)
            let messages = |o: &Obs| {
                let mut m: Vec<(String, String)> = o.diags.iter().map(|d| (d.code.clone(), d.primary.message.clone())).collect();
                m.sort();
                m
            };
            if messages(reference) != messages(o) {
                out.push(viol(
                    "C14",
                    format!("C14/twin-messages-differ/{}", encs.join("+")),
                    format!("variant {i}: stored as [{}] the diagnostics read {:?}; stored as [{}] they read {:?}", describe(rv), messages(reference), describe(v), messages(o)),
                ));
                continue;
            }
            match (positions(rv, reference), positions(v, o)) {
                (Some(a), Some(b)) => {
                    stats.count("c14.twin_position_comparisons");
                    if a != b {
                        out.push(viol("C14", format!("C14/twin-positions-differ/{}", encs.join("+")), format!("variant {i}: stored as [{}]: {a:?}; stored as [{}]: {b:?}", describe(rv), describe(v))));
                    }
                }
                _ => stats.count("c14.twin_decoded_length_differs"),
            }
        }
    }
    out
}

// ---------------------------------------------------------------------------------------------
// C03: no error is masked

pub fn gen_c03(rng: &mut Rng, thorough: bool) -> WorldTrace {
    // a faulty module (the `involved` declarations) plus up to 8 accompanying declarations
    let size = rng.range(1, if thorough { 9 } else { 6 });
    let kinds: Vec<&str> = pool::FAULT_KINDS.iter().copied().filter(|k| pool::is_standalone(k) && *k != "dup_one_faulty").collect();
    let kind = *rng.pick(&kinds);
    let mut world = pool::gen_faulty(rng, size, kind);
    let clash_world = pool::is_name_clash(kind);
    if !clash_world && rng.chance(1, 4) {
        // a faulty module with a second, different fault caught by another rule: adding files must
        // not make either of the two disappear
        let second = pool::second_fault(rng, world.decls.len());
        let idx = world.decls.len();
        world.decls.push(second);
        world.fault.as_mut().unwrap().involved.push(idx);
    }
    let involved = world.fault.as_ref().unwrap().involved.clone();
    // optionally an accompanying declaration that reuses the faulty declaration's name
    let mut name_reuse = false;
    if !clash_world && rng.chance(1, 3) {
        let name = world.decls[involved[0]].name.clone();
        let reuse = match rng.below(3) {
            0 => format!("FUNCTION_BLOCK {name}\n  VAR\n    fine : INT;\n  END_VAR\n  fine := 1;\nEND_FUNCTION_BLOCK\n"),
            1 => format!("TYPE\n  {name} : (ReuseA, ReuseB) := ReuseA;\nEND_TYPE\n"),
            _ => format!("PROGRAM {}\n  VAR\n    fine : INT;\n  END_VAR\n  fine := 1;\nEND_PROGRAM\n", name.to_uppercase()),
        };
        world.decls.push(pool::Decl { text: reuse, kind: "reuse".into(), name });
        name_reuse = true;
    }
    if kind == "unsupported_stdlib_type" && !name_reuse && rng.chance(1, 2) {
        // an accompanying, individually valid type that carries the name of the standard function
        // block the faulty declaration refers to
        let std_name = world.decls[involved[0]].text.split("t : ").nth(1).and_then(|r| r.split(';').next()).unwrap_or("TON").trim().to_string();
        let reuse = if rng.chance(1, 2) { format!("TYPE\n  {std_name} : (StdA, StdB) := StdA;\nEND_TYPE\n") } else { format!("TYPE\n  {} : STRUCT\n    f0 : INT;\n  END_STRUCT;\nEND_TYPE\n", std_name.to_lowercase()) };
        world.decls.push(pool::Decl { text: reuse, kind: "reuse".into(), name: std_name });
        name_reuse = true;
    }
    let company: Vec<usize> = (0..world.decls.len()).filter(|d| !involved.contains(d)).collect();
    let faulty_file = |name: &str| FileSpec { name: name.to_string(), decls: involved.clone(), enc: Enc::Utf8, raw: None, via_symlink: false, name_bytes: None };
    let mk = |role: &str, entry: Entry, files: Vec<FileSpec>, args: Vec<String>, rng: &mut Rng| Variant { role: role.into(), entry, files, extras: vec![], args, dir_seed: rng.next(), hash_seed: rng.next(), faults: vec![], unprivileged: false, cwd: None };
    let mut variants = vec![mk("alone", Entry::Check, vec![faulty_file("faulty.st")], vec!["ws/faulty.st".into()], rng)];
    // reference for "the company is valid": the accompanying declarations alone
    let mut company_only = mk("company", Entry::Check, vec![FileSpec { name: "company.st".into(), decls: company.clone(), enc: Enc::Utf8, raw: None, via_symlink: false, name_bytes: None }], vec!["ws/company.st".into()], rng);
    company_only.role = "nofault".into();
    variants.push(company_only);
    let nvar = if thorough { 12 } else { 6 };
    for _ in 0..nvar {
        let entry = if rng.chance(1, 4) { Entry::ApiText } else { Entry::Check };
        let mut files;
        if rng.chance(1, 2) {
            // faulty file kept as a file of its own among 0-4 accompanying files
            let k = rng.range(0, 4.min(company.len()));
            let mut shuffled = company.clone();
            rng.shuffle(&mut shuffled);
            files = if k == 0 { vec![] } else { partition(rng, &shuffled, k, Enc::Utf8) };
            files.retain(|f| f.name != "faulty.st");
            if k == 0 && !company.is_empty() {
                // company left out entirely: same as alone
            }
            let pos = rng.below(files.len() + 1);
            files.insert(pos, faulty_file("faulty.st"));
            // all accompanying declarations must be somewhere, otherwise references dangle
            let placed: Vec<usize> = files.iter().flat_map(|f| f.decls.clone()).collect();
            let missing: Vec<usize> = company.iter().copied().filter(|d| !placed.contains(d)).collect();
            if !missing.is_empty() {
                files.push(FileSpec { name: "rest.st".into(), decls: missing, enc: Enc::Utf8, raw: None, via_symlink: false, name_bytes: None });
            }
        } else {
            // faulty declarations placed among the others inside shared files
            let order = rng.perm(world.decls.len());
            let k = rng.range(1, 3.min(world.decls.len()));
            files = partition(rng, &order, k, Enc::Utf8);
        }
        if rng.chance(1, 4) {
            spread_over_directories(rng, &mut files);
        }
        let args = present(rng, &files);
        let mut v = mk("company", entry, files, args, rng);
        if rng.chance(1, 8) && matches!(v.entry, Entry::Check) {
            // more company than the quantifier asks for: "whatever other files accompany it"
            add_padding_files(rng, &mut v);
        }
        variants.push(v);
    }
    // An earlier run on the same machine: the accompanying files alone are checked first (whatever
    // that run leaves in the temporary directory is there for the next one), then the same files
    // plus the faulty file plus a byte-identical copy of it under another name. Two identical
    // faulty files are as much a failing set as one.
    if rng.chance(1, 5) {
        let candidates: Vec<usize> = variants.iter().enumerate().filter(|(_, v)| v.role == "company" && v.entry == Entry::Check && v.files.len() >= 2 && v.files.iter().any(|f| f.name == "faulty.st") && v.files.iter().all(|f| f.raw.is_none())).map(|(i, _)| i).collect();
        if !candidates.is_empty() {
            let base = variants[*rng.pick(&candidates)].clone();
            let mut pre = base.clone();
            pre.role = "precheck".into();
            pre.files.retain(|f| f.name != "faulty.st");
            pre.args.retain(|a| a != "ws/faulty.st");
            let mut dup = base.clone();
            dup.role = "company_dup".into();
            let mut copy = dup.files.iter().find(|f| f.name == "faulty.st").unwrap().clone();
            copy.name = "faulty_copy.st".into();
            dup.files.push(copy);
            if dup.args.iter().any(|a| a == "ws/faulty.st") {
                let pos = rng.below(dup.args.len() + 1);
                dup.args.insert(pos, "ws/faulty_copy.st".into());
            }
            if !pre.args.is_empty() {
                variants.push(pre);
                variants.push(dup);
            }
        }
    }
    // File names that are not valid UTF-8 (legal on this platform): the faulty file and one valid
    // accompanying file carry names that differ only in such bytes - two files, whatever a lossy
    // rendering of their names looks like. Reached through the directory only.
    if rng.chance(1, 8) {
        let candidates: Vec<usize> = variants.iter().enumerate().filter(|(_, v)| v.role == "company" && v.entry == Entry::Check && v.files.len() >= 2 && v.files.iter().any(|f| f.name == "faulty.st") && v.files.iter().all(|f| f.raw.is_none() && !f.name.contains('/'))).map(|(i, _)| i).collect();
        if !candidates.is_empty() {
            let mut v = variants[*rng.pick(&candidates)].clone();
            v.role = "company_rawnames".into();
            v.args = vec!["ws".into()];
            let mut other_done = false;
            // the accompanying file's name either differs in another non-UTF-8 byte, or it is — in
            // valid UTF-8 — literally what a lossy rendering of the faulty file's name looks like
            let literal_twin = rng.chance(1, 2);
            for f in v.files.iter_mut() {
                if f.name == "faulty.st" {
                    f.name = "z\u{fffd}hler.st".into();
                    f.name_bytes = Some(b"z\xE4hler.st".to_vec());
                } else if !other_done {
                    f.name = "z\u{fffd}hler.st".into();
                    f.name_bytes = if literal_twin { None } else { Some(b"z\xF6hler.st".to_vec()) };
                    other_done = true;
                }
            }
            if literal_twin {
                v.role = "company_rawnames_twin".into();
            }
            variants.push(v);
        }
    }
    WorldTrace { prop: "C03".into(), world, variants, mode: if name_reuse { "name_reuse".into() } else if clash_world { "clash".into() } else { "plain".into() } }
}

const CURABLE: &[&str] = &["P0012", "P0021", "P0022", "P0030"];

fn oracle_c03(t: &WorldTrace, obs: &[Obs], stats: &mut Stats) -> Vec<Violation> {
    let mut out = vec![];
    let kind = world_kind(&t.world);
    let alone = &obs[0];
    let clash = t.mode == "clash";
    if matches!(alone.outcome, Outcome::Panic(_)) {
        return out; // crashes are C13/C14 territory
    }
    if !clash && !alone.failed() {
        // The smallest composition: the faulty file with no company at all. For the declaration-local
        // faults that are violations beyond doubt of a documented rule or of the lexical / syntactic
        // rules (no feature could make them legal), acceptance is already a masked error.
        const BEYOND_DOUBT: &[&str] = &["struct_dup_elem", "subrange_order", "enum_dup_value", "enum_dup_value_typed", "const_no_init", "lex_char", "syntax_stmt", "syntax_type", "syntax_var"];
        if BEYOND_DOUBT.contains(&kind.as_str()) {
            out.push(viol("C03", format!("C03/rule-violation-accepted/{kind}"), format!("the file that holds the planted fault ({kind}) and nothing else is accepted: {:?}", t.world.fault.as_ref().map(|f| f.involved.iter().map(|d| t.world.decls[*d].text.clone()).collect::<Vec<_>>()))));
            return out;
        }
        // otherwise: not a stand-alone fault for this analyzer, C03 says nothing
        stats.count("c03.discarded_alone_run_ok");
        return out;
    }
    stats.count("c03.worlds_with_failing_reference");
    let company_valid = t.variants.iter().zip(obs).find(|(v, _)| v.role == "nofault").map(|(_, o)| !o.failed()).unwrap_or(false);
    let alone_mapped: Vec<(String, Option<(usize, usize)>)> = mapped(&t.world, &t.variants[0], alone).into_iter().filter(|(c, _)| !CURABLE.contains(&c.as_str())).collect();
    let involved = t.world.fault.as_ref().map(|f| f.involved.clone()).unwrap_or_default();
    for (i, (v, o)) in t.variants.iter().zip(obs).enumerate() {
        if v.role != "company" && v.role != "company_dup" && v.role != "company_rawnames" && v.role != "company_rawnames_twin" && !(clash && v.role == "alone") {
            continue;
        }
        if matches!(o.outcome, Outcome::Panic(_)) {
            continue;
        }
        stats.count("c03.company_variants");
        let layout = v.files.iter().map(|f| (f.name.clone(), f.decls.clone())).collect::<Vec<_>>();
        if !o.failed() {
            out.push(viol(
                "C03",
                format!("C03/masked/{kind}/{}", t.mode),
                format!(
                    "{} but in company (variant {i}, {:?}, files {layout:?}, args {:?}, hash_seed {}) the set is accepted",
                    if clash { "two declarations share a name".to_string() } else { format!("the faulty file alone fails with {:?}", alone.codes()) },
                    v.entry,
                    v.args,
                    v.hash_seed
                ),
            ));
            continue;
        }
        // valid company without name clash: every non-curable code of the alone-run is reported again at the same place
        // (with a second copy of the faulty file the duplicated names may be what is reported)
        if company_valid && t.mode == "plain" && !clash && v.role == "company" {
            let m = mapped(&t.world, v, o);
            for (code, loc) in &alone_mapped {
                stats.count("c03.code_relocation_checks");
                let loc_reliable = matches!(loc, Some((d, _)) if involved.contains(d));
                let found = m.iter().any(|(c, l)| {
                    c == code
                        && (!loc_reliable
                            || match (l, loc) {
                                (Some((d, _)), _) if involved.len() > 1 => involved.contains(d),
                                (Some(a), Some(b)) => a == b,
                                _ => false,
                            })
                });
                if !found {
                    out.push(viol(
                        "C03",
                        format!("C03/error-hidden-by-company/{kind}/{code}"),
                        format!("alone the faulty file reports {code} at {loc:?}; in valid company (variant {i}, files {layout:?}, args {:?}) the set reports only {m:?}", v.args),
                    ));
                    break;
                }
            }
        }
    }
    out
}

// ---------------------------------------------------------------------------------------------
// Execution

pub fn execute(t: &WorldTrace, stats: &mut Stats) -> RunReport {
    // a clean machine at the start of the run; what a simulated process leaves in the temporary
    // directory is there for the next variant (the next invocation on the same machine)
    crate::seam::reset_sim_tmp();
    let mut obs = vec![];
    for v in &t.variants {
        let o = exec_variant(&t.world, v);
        stats.observe(&o);
        stats.count("variants_executed");
        stats.add("fs_points", o.fs_points.len() as u64);
        for (_, kind) in &o.faults_fired {
            stats.count(&format!("fault_fired.{kind}"));
        }
        for order in &o.source_orders {
            if order.len() >= 2 && order.len() <= 4 {
                let mut sorted = order.clone();
                sorted.sort();
                // which permutation of the sorted file list was iterated
                let p: Vec<usize> = order.iter().map(|x| sorted.iter().position(|y| y == x).unwrap()).collect();
                stats.distinct_str(&format!("source_iteration_orders.{}files", order.len()), &format!("{p:?}"));
            }
        }
        for order in &o.dir_orders {
            if order.len() >= 2 && order.len() <= 4 {
                let mut sorted = order.clone();
                sorted.sort();
                let p: Vec<usize> = order.iter().map(|x| sorted.iter().position(|y| y == x).unwrap()).collect();
                stats.distinct_str(&format!("readdir_orders.{}entries", order.len()), &format!("{p:?}"));
            }
        }
        stats.count(&format!("entry.{:?}", v.entry));
        if v.role.starts_with("fault.static.") || v.role.starts_with("corrupt") {
            stats.count(&format!("fault_fired.{}", v.role));
        }
        stats.count(&format!("outcome.{}", outcome_word(&o.outcome)));
        obs.push(o);
    }
    stats.count(&format!("world_kind.{}", world_kind(&t.world)));
    let nperm = t.variants.iter().filter(|v| v.role == "permutation").count();
    if nperm > 0 {
        stats.count(&format!("c06.worlds_with_all_permutations.{}decls", t.world.decls.len()));
    }
    let violations = match t.prop.as_str() {
        "C06" => oracle_c06(t, &obs, stats),
        "C13" => oracle_c13(t, &obs, stats),
        "C14" => oracle_c14(t, &obs, stats),
        "C03" => oracle_c03(t, &obs, stats),
        other => panic!("no world oracle for {other}"),
    };
    // non-trivial: the oracle had something to compare (several executions of a non-empty world, or
    // the byte sweep's raw file; for C03 the reference run must have failed or the world is a clash)
    let nontrivial = (t.variants.len() >= 2 || t.mode.starts_with("boundary:"))
        && (!t.world.decls.is_empty() || t.variants.iter().any(|v| v.files.iter().any(|f| f.raw.is_some())))
        && (t.prop != "C03" || t.mode == "clash" || obs.first().map(|o| o.failed()).unwrap_or(false));
    // fault-free executions of the command line can be cross-checked against the shipped binary
    let mut proc_cases = vec![];
    if t.prop == "C13" {
        for (v, o) in t.variants.iter().zip(&obs) {
            let cmd = match v.entry {
                Entry::Check => "check",
                Entry::Echo => "echo",
                Entry::Tokenize => "tokenize",
                _ => continue,
            };
            // fault-free executions and those with a static fault (missing path, dangling symlink, …)
            // are deterministic and can be repeated by the shipped binary; dynamic faults cannot
            let repeatable = matches!(v.role.as_str(), "dir" | "files" | "mix" | "parts" | "files2" | "mix2") || (v.role.starts_with("fault.static.") && v.faults.is_empty());
            if !repeatable || matches!(o.outcome, Outcome::Panic(_)) {
                continue;
            }
            proc_cases.push(crate::proc_check::ProcCase::Cli {
                run_index: 0,
                label: format!("{} {}", v.role, world_kind(&t.world)),
                files: v.files.iter().map(|f| (f.name.clone(), file_bytes(&t.world, f))).collect(),
                symlinked: v.files.iter().filter(|f| f.via_symlink).map(|f| f.name.clone()).collect(),
                extras: v.extras.clone(),
                unprivileged: v.unprivileged,
                cwd: v.cwd.clone(),
                cmd: cmd.to_string(),
                args: v.args.clone(),
                predicted_ok: !o.failed(),
                predicted_codes: o.codes(),
            });
        }
    }
    RunReport { violations, nontrivial, proc_cases }
}

pub fn generate(prop: &str, rng: &mut Rng, thorough: bool, run_index: u64) -> WorldTrace {
    let mut t = match prop {
        "C06" => gen_c06(rng, thorough),
        "C13" => gen_c13(rng, thorough, run_index),
        "C14" => gen_c14(rng, thorough, run_index),
        "C03" => gen_c03(rng, thorough),
        other => panic!("no world generator for {other}"),
    };
    add_symlinked_files(rng, &mut t);
    // one command-line variant in six is started inside the simulated disk (in its root or in ws/)
    // and names its arguments by relative paths
    for v in t.variants.iter_mut() {
        if matches!(v.entry, Entry::Check | Entry::Echo | Entry::Tokenize) && !v.role.starts_with("fault.") && rng.chance(1, 6) {
            v.cwd = Some((*rng.pick(&["", "ws"])).to_string());
        }
    }
    t
}

/// In a third of the worlds one file per layout is in its directory only by way of a symbolic link
/// to content kept elsewhere. Only variants that present every file once (directories only, or files
/// only) get the link: a file argument is canonicalised and a directory entry is not, so naming a
/// linked file directly *and* through its directory presents it under two names — whether those
/// count as one file is not something the properties speak about.
fn add_symlinked_files(rng: &mut Rng, t: &mut WorldTrace) {
    // (not in C14: its twins are two different layouts of one text and must stay comparable line by line)
    if t.prop == "C14" || t.mode.starts_with("boundary:") || !rng.chance(1, 3) {
        return;
    }
    let mut layouts: Vec<(Vec<FileSpec>, String)> = vec![];
    for v in t.variants.iter_mut() {
        if v.files.is_empty() {
            continue;
        }
        let chosen = match layouts.iter().find(|(l, _)| *l == v.files) {
            Some((_, name)) => name.clone(),
            None => {
                let name = v.files[rng.below(v.files.len())].name.clone();
                layouts.push((v.files.clone(), name.clone()));
                name
            }
        };
        let is_file_arg = |a: &String| v.files.iter().any(|f| a.ends_with(&f.name) && a.strip_suffix(f.name.as_str()).is_some_and(|p| p.ends_with('/')));
        let nfile = v.args.iter().filter(|a| is_file_arg(a)).count();
        let pure = nfile == 0 || nfile == v.args.len();
        if pure {
            if let Some(f) = v.files.iter_mut().find(|f| f.name == chosen) {
                f.via_symlink = true;
            }
        }
    }
}

// ---------------------------------------------------------------------------------------------
// Shrinking

fn drop_decl(t: &WorldTrace, idx: usize) -> Option<WorldTrace> {
    if let Some(f) = &t.world.fault {
        if f.involved.contains(&idx) {
            return None;
        }
    }
    let mut n = t.clone();
    n.world.decls.remove(idx);
    if let Some(f) = n.world.fault.as_mut() {
        for i in f.involved.iter_mut() {
            if *i > idx {
                *i -= 1;
            }
        }
    }
    for v in n.variants.iter_mut() {
        for f in v.files.iter_mut() {
            f.decls.retain(|d| *d != idx);
            for d in f.decls.iter_mut() {
                if *d > idx {
                    *d -= 1;
                }
            }
        }
    }
    Some(n)
}

/// Every file of the variant is named by an argument or lies in a named directory.
pub fn covers_all_files(v: &Variant) -> bool {
    if matches!(v.entry, Entry::ApiText | Entry::ApiPush | Entry::LspTokens | Entry::LspOpenOne) {
        return true;
    }
    if v.role == "free" {
        return true;
    }
    let sub = v.files.iter().any(|f| f.name.contains('/'));
    let whole_dir = |a: &String| matches!(a.as_str(), "ws" | "ws/." | "ws/../ws" | "ws/./");
    if sub && v.args.iter().any(whole_dir) {
        // a directory that holds sub-directories is a different scenario (fault kind of C13)
        return false;
    }
    v.files.iter().all(|f| {
        v.args.contains(&format!("ws/{}", f.name))
            || v.args.contains(&format!("ws/./{}", f.name))
            || v.args.contains(&format!("ws/../ws/{}", f.name))
            || match f.name.split_once('/') {
                Some((d, _)) => v.args.contains(&format!("ws/{d}")),
                None => v.args.iter().any(whole_dir),
            }
    })
}

pub fn shrink(t: &WorldTrace) -> Vec<WorldTrace> {
    let mut out = vec![];
    // 1. fewer variants (the first one is the reference of every oracle and stays)
    let nv = t.variants.len();
    let is_ref = |v: &Variant| matches!(v.role.as_str(), "canonical" | "nofault" | "alone" | "reference");
    let refs: Vec<Variant> = t.variants.iter().filter(|v| is_ref(v)).cloned().collect();
    if nv > refs.len() + 1 {
        // keep only the references and one other
        for i in 0..nv {
            if !is_ref(&t.variants[i]) {
                let mut n = t.clone();
                n.variants = refs.clone();
                n.variants.push(t.variants[i].clone());
                out.push(n);
            }
        }
    }
    for i in (0..nv).rev() {
        if !is_ref(&t.variants[i]) {
            let mut n = t.clone();
            n.variants.remove(i);
            out.push(n);
        }
    }
    // 2. fewer declarations
    for i in (0..t.world.decls.len()).rev() {
        if let Some(n) = drop_decl(t, i) {
            out.push(n);
        }
    }
    // 3. fewer faults, extras, arguments
    for (vi, v) in t.variants.iter().enumerate() {
        for fi in 0..v.faults.len() {
            let mut n = t.clone();
            n.variants[vi].faults.remove(fi);
            out.push(n);
        }
        for ei in 0..v.extras.len() {
            let mut n = t.clone();
            n.variants[vi].extras.remove(ei);
            out.push(n);
        }
        if v.args.len() > 1 {
            for ai in 0..v.args.len() {
                let mut n = t.clone();
                n.variants[vi].args.remove(ai);
                // a variant must keep presenting every file of the world
                if covers_all_files(&n.variants[vi]) {
                    out.push(n);
                }
            }
        }
        // 4. towards the identity layout: sorted declarations, sorted files, fewer files. Variants
        // that share a layout (C13: a directory and the list of its files) change together.
        let same_layout: Vec<usize> = (0..t.variants.len()).filter(|j| t.variants[*j].files == v.files).collect();
        if same_layout.first() != Some(&vi) {
            continue;
        }
        let mut n = t.clone();
        let mut changed = false;
        for j in &same_layout {
            for f in n.variants[*j].files.iter_mut() {
                let mut s = f.decls.clone();
                s.sort();
                if s != f.decls {
                    f.decls = s;
                    changed = true;
                }
            }
        }
        if changed {
            out.push(n);
        }
        if v.files.len() > 1 {
            // merge the last file into the first
            let mut n = t.clone();
            for j in &same_layout {
                let last = n.variants[*j].files.pop().unwrap();
                n.variants[*j].files[0].decls.extend(last.decls);
                let gone = format!("ws/{}", last.name);
                n.variants[*j].args.retain(|a| *a != gone);
                if n.variants[*j].args.is_empty() {
                    n.variants[*j].args = n.variants[*j].files.iter().map(|f| format!("ws/{}", f.name)).collect();
                }
            }
            out.push(n);
        }
        if v.files.iter().any(|f| f.name.contains('/')) {
            // towards one flat directory (only if the base names stay distinct)
            let mut n = t.clone();
            let mut names: Vec<String> = vec![];
            let mut ok = true;
            for f in n.variants[vi].files.iter_mut() {
                let base = f.name.rsplit('/').next().unwrap_or(&f.name).to_string();
                if names.contains(&base) {
                    ok = false;
                    break;
                }
                names.push(base.clone());
                f.name = base;
            }
            if ok {
                n.variants[vi].args = n.variants[vi].files.iter().map(|f| format!("ws/{}", f.name)).collect();
                out.push(n);
            }
        }
        if v.entry == Entry::ApiText {
            let mut n = t.clone();
            n.variants[vi].entry = Entry::Check;
            n.variants[vi].args = n.variants[vi].files.iter().map(|f| format!("ws/{}", f.name)).collect();
            out.push(n);
        }
    }
    // every candidate must still present every file of every variant
    out.retain(|n| n.variants.iter().all(covers_all_files));
    out
}
