//! Generators, oracles and shrinking for the `world` campaigns (C03, C06, C13, C14).

use crate::{
    campaign::{RunReport, Stats, Violation},
    pool::{self, World},
    prng::Rng,
    world::{exec_variant, map_offset, Enc, Entry, FileSpec, Obs, Outcome, Variant, WorldTrace},
};

pub const FILE_NAMES: &[&str] = &["a.st", "b.st", "c.st", "main.st", "lib.ST", "z_types.st", "m.iec", "0.st"];

fn viol(prop: &str, signature: String, detail: String) -> Violation {
    Violation { property: prop.to_string(), signature, detail }
}

fn world_kind(w: &World) -> String {
    match &w.fault {
        Some(f) => f.kind.clone(),
        None => "valid".to_string(),
    }
}

fn outcome_word(o: &Outcome) -> &'static str {
    match o {
        Outcome::Ok => "OK",
        Outcome::Err(_) => "failure",
        Outcome::Panic(_) => "panic",
    }
}

// ---------------------------------------------------------------------------------------------
// Variant construction helpers

/// Distributes `order` (declaration indices) over `k` files.
pub fn partition(rng: &mut Rng, order: &[usize], k: usize, enc: Enc) -> Vec<FileSpec> {
    let mut names: Vec<&str> = FILE_NAMES.to_vec();
    rng.shuffle(&mut names);
    let mut files: Vec<FileSpec> =
        (0..k).map(|i| FileSpec { name: names[i].to_string(), decls: vec![], enc, raw: None }).collect();
    for d in order {
        let f = rng.below(k);
        files[f].decls.push(*d);
    }
    // an empty file is legal but rarely interesting
    if rng.chance(9, 10) {
        files.retain(|f| !f.decls.is_empty());
    }
    if files.is_empty() {
        files.push(FileSpec { name: names[0].to_string(), decls: vec![], enc, raw: None });
    }
    rng.shuffle(&mut files);
    files
}

/// Chooses how the files are presented: list, directory or mixture; every file is covered.
pub fn present(rng: &mut Rng, files: &[FileSpec]) -> Vec<String> {
    let mut list: Vec<String> = files.iter().map(|f| format!("ws/{}", f.name)).collect();
    rng.shuffle(&mut list);
    match rng.below(5) {
        0 | 1 => list,
        2 | 3 => vec!["ws".to_string()],
        _ => {
            // mixture: a few files and the directory (which covers the rest)
            let keep = rng.below(list.len() + 1);
            list.truncate(keep);
            let pos = rng.below(list.len() + 1);
            list.insert(pos, "ws".to_string());
            list
        }
    }
}

fn canonical_variant(world: &World, role: &str) -> Variant {
    Variant {
        role: role.to_string(),
        entry: Entry::Check,
        files: vec![FileSpec { name: "a.st".into(), decls: (0..world.decls.len()).collect(), enc: Enc::Utf8, raw: None }],
        extras: vec![],
        args: vec!["ws/a.st".into()],
        dir_seed: 0,
        hash_seed: 1,
        faults: vec![],
    }
}

fn random_variant(rng: &mut Rng, world: &World, role: &str, max_files: usize) -> Variant {
    let order = rng.perm(world.decls.len());
    let k = rng.range(1, max_files.min(world.decls.len().max(1)));
    let files = partition(rng, &order, k, Enc::Utf8);
    let args = present(rng, &files);
    let entry = if rng.chance(1, 5) { Entry::ApiText } else { Entry::Check };
    Variant { role: role.to_string(), entry, files, extras: vec![], args, dir_seed: rng.next(), hash_seed: rng.next(), faults: vec![] }
}

// ---------------------------------------------------------------------------------------------
// C06

pub fn gen_c06(rng: &mut Rng, thorough: bool) -> WorldTrace {
    let size = if thorough { rng.range(1, 9) } else { rng.range(1, 6) };
    let world = if rng.chance(2, 5) {
        pool::gen_valid(rng, size)
    } else {
        let kind = *rng.pick(pool::FAULT_KINDS);
        pool::gen_faulty(rng, size, kind)
    };
    let nvar = if thorough { 24 } else { 10 };
    let mut variants = vec![canonical_variant(&world, "canonical")];
    if let Some(f) = &world.fault {
        // reference: the world without the planted fault. Only if this is accepted is the world a
        // *single-fault* unit, for which C06 also fixes code and location.
        let mut v = canonical_variant(&world, "nofault");
        v.files[0].decls.retain(|d| !f.involved.contains(d));
        variants.push(v);
    }
    let first_free = variants.len();
    while variants.len() < nvar {
        if variants.len() > first_free && rng.chance(1, 4) {
            // the identical configuration in "another run": only the OS randomness differs
            let mut v = variants[rng.range(first_free, variants.len() - 1)].clone();
            v.role = "repeat".into();
            v.hash_seed = rng.next();
            variants.push(v);
        } else {
            variants.push(random_variant(rng, &world, "variant", 3));
        }
    }
    WorldTrace { prop: "C06".into(), world, variants, mode: String::new() }
}

/// Diagnostics of an observation as (code, mapped primary location).
fn mapped(world: &World, v: &Variant, obs: &Obs) -> Vec<(String, Option<(usize, usize)>)> {
    obs.diags
        .iter()
        .map(|d| {
            // a label 0..0 is the analyzer's way of saying "this file" (Label::file, default spans): no position
            let loc = if d.primary.start == 0 && d.primary.end == 0 { None } else { map_offset(world, &v.files, &d.primary.file, d.primary.start) };
            (d.code.clone(), loc)
        })
        .collect()
}

fn oracle_c06(t: &WorldTrace, obs: &[Obs], stats: &mut Stats) -> Vec<Violation> {
    let mut out = vec![];
    let kind = world_kind(&t.world);
    let canon = &obs[0];
    let nofault_ok = t.variants.iter().zip(obs).find(|(v, _)| v.role == "nofault").map(|(_, o)| !o.failed());
    for (i, o) in obs.iter().enumerate().skip(1) {
        if t.variants[i].role == "nofault" {
            continue;
        }
        if outcome_word(&o.outcome) != outcome_word(&canon.outcome) {
            out.push(viol(
                "C06",
                format!("C06/verdict-differs/{kind}"),
                format!(
                    "variant {i} ({:?}, files {:?}, args {:?}, hash_seed {}) gives {} ({:?}) but the canonical single-file layout gives {} ({:?})",
                    t.variants[i].entry,
                    t.variants[i].files.iter().map(|f| (&f.name, &f.decls)).collect::<Vec<_>>(),
                    t.variants[i].args,
                    t.variants[i].hash_seed,
                    outcome_word(&o.outcome),
                    o.codes(),
                    outcome_word(&canon.outcome),
                    canon.codes()
                ),
            ));
            break;
        }
    }
    // single-fault worlds: code and location are layout independent
    let canon_diags: Vec<_> = mapped(&t.world, &t.variants[0], canon).into_iter().filter(|(c, _)| c != "P0030").collect();
    if canon_diags.len() == 1 && out.is_empty() && nofault_ok == Some(true) {
        stats.count("c06.single_diagnostic_worlds");
        let (code, loc) = canon_diags[0].clone();
        let involved: Vec<usize> = t.world.fault.as_ref().map(|f| f.involved.clone()).unwrap_or_default();
        // the location is only compared when the canonical run places it inside the planted fault
        let loc_reliable = matches!(loc, Some((d, _)) if involved.contains(&d));
        let multi = involved.len() > 1;
        for (i, o) in obs.iter().enumerate().skip(1) {
            if t.variants[i].role == "nofault" {
                continue;
            }
            let m = mapped(&t.world, &t.variants[i], o);
            let ok = m.iter().any(|(c, l)| {
                if *c != code {
                    return false;
                }
                if !loc_reliable {
                    return true;
                }
                match (l, loc) {
                    // a fault made of several declarations (cycle, name clash) may be reported at any of them
                    (Some((d, _)), _) if multi => involved.contains(d),
                    (Some(a), Some(b)) => *a == b,
                    _ => false,
                }
            });
            if loc_reliable {
                stats.count("c06.location_comparisons");
            }
            if !ok {
                out.push(viol(
                    "C06",
                    format!("C06/code-or-location-differs/{kind}"),
                    format!(
                        "canonical layout reports {code} at declaration/offset {loc:?}; variant {i} (files {:?}, args {:?}, hash_seed {}) reports {:?}",
                        t.variants[i].files.iter().map(|f| (&f.name, &f.decls)).collect::<Vec<_>>(),
                        t.variants[i].args,
                        t.variants[i].hash_seed,
                        m
                    ),
                ));
                break;
            }
        }
    }
    out
}

// ---------------------------------------------------------------------------------------------
// Execution

pub fn execute(t: &WorldTrace, stats: &mut Stats) -> RunReport {
    let mut obs = vec![];
    for v in &t.variants {
        let o = exec_variant(&t.world, v);
        stats.observe(&o);
        stats.count("variants_executed");
        stats.add("fs_points", o.fs_points.len() as u64);
        for (_, kind) in &o.faults_fired {
            stats.count(&format!("fault_fired.{kind}"));
        }
        for order in &o.source_orders {
            if order.len() >= 2 && order.len() <= 4 {
                let mut sorted = order.clone();
                sorted.sort();
                // which permutation of the sorted file list was iterated
                let p: Vec<usize> = order.iter().map(|x| sorted.iter().position(|y| y == x).unwrap()).collect();
                stats.distinct_str(&format!("source_iteration_orders.{}files", order.len()), &format!("{p:?}"));
            }
        }
        for order in &o.dir_orders {
            if order.len() >= 2 && order.len() <= 4 {
                let mut sorted = order.clone();
                sorted.sort();
                let p: Vec<usize> = order.iter().map(|x| sorted.iter().position(|y| y == x).unwrap()).collect();
                stats.distinct_str(&format!("readdir_orders.{}entries", order.len()), &format!("{p:?}"));
            }
        }
        stats.count(&format!("entry.{:?}", v.entry));
        stats.count(&format!("outcome.{}", outcome_word(&o.outcome)));
        obs.push(o);
    }
    stats.count(&format!("world_kind.{}", world_kind(&t.world)));
    let violations = match t.prop.as_str() {
        "C06" => oracle_c06(t, &obs, stats),
        other => panic!("no world oracle for {other}"),
    };
    let nontrivial = t.variants.len() >= 2 && !t.world.decls.is_empty();
    RunReport { violations, nontrivial }
}

pub fn generate(prop: &str, rng: &mut Rng, thorough: bool) -> WorldTrace {
    match prop {
        "C06" => gen_c06(rng, thorough),
        other => panic!("no world generator for {other}"),
    }
}

// ---------------------------------------------------------------------------------------------
// Shrinking

fn drop_decl(t: &WorldTrace, idx: usize) -> Option<WorldTrace> {
    if let Some(f) = &t.world.fault {
        if f.involved.contains(&idx) {
            return None;
        }
    }
    let mut n = t.clone();
    n.world.decls.remove(idx);
    if let Some(f) = n.world.fault.as_mut() {
        for i in f.involved.iter_mut() {
            if *i > idx {
                *i -= 1;
            }
        }
    }
    for v in n.variants.iter_mut() {
        for f in v.files.iter_mut() {
            f.decls.retain(|d| *d != idx);
            for d in f.decls.iter_mut() {
                if *d > idx {
                    *d -= 1;
                }
            }
        }
    }
    Some(n)
}

/// Every file of the variant is named by an argument or lies in a named directory.
pub fn covers_all_files(v: &Variant) -> bool {
    if matches!(v.entry, Entry::ApiText | Entry::ApiPush) {
        return true;
    }
    if v.role == "free" {
        return true;
    }
    let dir = v.args.iter().any(|a| a == "ws");
    dir || v.files.iter().all(|f| v.args.contains(&format!("ws/{}", f.name)))
}

pub fn shrink(t: &WorldTrace) -> Vec<WorldTrace> {
    let mut out = vec![];
    // 1. fewer variants (the first one is the reference of every oracle and stays)
    let nv = t.variants.len();
    let is_ref = |v: &Variant| matches!(v.role.as_str(), "canonical" | "nofault" | "alone" | "reference");
    let refs: Vec<Variant> = t.variants.iter().filter(|v| is_ref(v)).cloned().collect();
    if nv > refs.len() + 1 {
        // keep only the references and one other
        for i in 0..nv {
            if !is_ref(&t.variants[i]) {
                let mut n = t.clone();
                n.variants = refs.clone();
                n.variants.push(t.variants[i].clone());
                out.push(n);
            }
        }
    }
    for i in (0..nv).rev() {
        if !is_ref(&t.variants[i]) {
            let mut n = t.clone();
            n.variants.remove(i);
            out.push(n);
        }
    }
    // 2. fewer declarations
    for i in (0..t.world.decls.len()).rev() {
        if let Some(n) = drop_decl(t, i) {
            out.push(n);
        }
    }
    // 3. fewer faults, extras, arguments
    for (vi, v) in t.variants.iter().enumerate() {
        for fi in 0..v.faults.len() {
            let mut n = t.clone();
            n.variants[vi].faults.remove(fi);
            out.push(n);
        }
        for ei in 0..v.extras.len() {
            let mut n = t.clone();
            n.variants[vi].extras.remove(ei);
            out.push(n);
        }
        if v.args.len() > 1 {
            for ai in 0..v.args.len() {
                let mut n = t.clone();
                n.variants[vi].args.remove(ai);
                // a variant must keep presenting every file of the world
                if covers_all_files(&n.variants[vi]) {
                    out.push(n);
                }
            }
        }
        // 4. towards the identity layout: sorted declarations, sorted files, fewer files
        let mut n = t.clone();
        let mut changed = false;
        for f in n.variants[vi].files.iter_mut() {
            let mut s = f.decls.clone();
            s.sort();
            if s != f.decls {
                f.decls = s;
                changed = true;
            }
        }
        if changed {
            out.push(n);
        }
        if v.files.len() > 1 {
            // merge the last file into the first
            let mut n = t.clone();
            let last = n.variants[vi].files.pop().unwrap();
            n.variants[vi].files[0].decls.extend(last.decls);
            let gone = format!("ws/{}", last.name);
            n.variants[vi].args.retain(|a| *a != gone);
            if n.variants[vi].args.is_empty() {
                n.variants[vi].args.push("ws".into());
            }
            out.push(n);
        }
        if v.entry == Entry::ApiText {
            let mut n = t.clone();
            n.variants[vi].entry = Entry::Check;
            n.variants[vi].args = n.variants[vi].files.iter().map(|f| format!("ws/{}", f.name)).collect();
            out.push(n);
        }
    }
    // every candidate must still present every file of every variant
    out.retain(|n| n.variants.iter().all(covers_all_files));
    out
}
