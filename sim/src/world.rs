//! Simulated worlds: a set of declarations laid out on the simulated disk (tmpfs) and presented
//! to the real command line / project code in scheduler-chosen ways, under a storage fault plan.

use std::{
    collections::BTreeMap,
    path::{Path, PathBuf},
    sync::OnceLock,
};

use ironplc_dsl::core::FileId;
use ironplcc::project::{FileBackedProject, Project};
use serde::{Deserialize, Serialize};

use crate::{
    pool::World,
    seam::{run_simulated_process, Fault, HookLog, SimHooks},
};

static ROOT: OnceLock<PathBuf> = OnceLock::new();

/// The directory that holds the simulated disk of the current run.
pub fn root() -> &'static Path {
    ROOT.get_or_init(|| PathBuf::from("/r"))
}

pub fn set_root(p: PathBuf) {
    let _ = ROOT.set(p);
}

#[derive(Clone, Copy, Debug, Serialize, Deserialize, PartialEq, Eq, PartialOrd, Ord)]
pub enum Enc {
    Utf8,
    Utf8Bom,
    Utf16Le,
    Utf16Be,
    Win1252,
}

pub const ALL_ENCODINGS: [Enc; 5] = [Enc::Utf8, Enc::Utf8Bom, Enc::Utf16Le, Enc::Utf16Be, Enc::Win1252];

pub fn encode(text: &str, enc: Enc) -> Vec<u8> {
    match enc {
        Enc::Utf8 => text.as_bytes().to_vec(),
        Enc::Utf8Bom => {
            let mut v = vec![0xEF, 0xBB, 0xBF];
            v.extend_from_slice(text.as_bytes());
            v
        }
        Enc::Utf16Le => {
            let mut v = vec![0xFF, 0xFE];
            for u in text.encode_utf16() {
                v.extend_from_slice(&u.to_le_bytes());
            }
            v
        }
        Enc::Utf16Be => {
            let mut v = vec![0xFE, 0xFF];
            for u in text.encode_utf16() {
                v.extend_from_slice(&u.to_be_bytes());
            }
            v
        }
        Enc::Win1252 => encoding_rs::WINDOWS_1252.encode(text).0.to_vec(),
    }
}

#[derive(Clone, Debug, Serialize, Deserialize, PartialEq)]
pub struct FileSpec {
    /// name inside ws/
    pub name: String,
    /// declarations (indices into the world) in file order
    pub decls: Vec<usize>,
    pub enc: Enc,
    /// stored bytes that replace the encoded declarations (corruption, binary files)
    pub raw: Option<Vec<u8>>,
    /// the content lives outside ws/ (in store/, under the same relative name) and ws/<name> is a
    /// symbolic link to it: the file is in the directory only by way of the link
    #[serde(default)]
    pub via_symlink: bool,
    /// the file name on disk when it is not valid UTF-8 (`name` is then its lossy spelling); such a
    /// file can only be reached through its directory
    #[serde(default)]
    pub name_bytes: Option<Vec<u8>>,
}

#[derive(Clone, Debug, Serialize, Deserialize, PartialEq)]
pub enum Extra {
    EmptyDir(String),
    SubDirWithFile(String),
    DanglingSymlink(String),
    SymlinkLoop(String),
    SymlinkToFile(String, String),
    /// permission bits of ws/<name> ("" = ws itself), set after everything else exists; they only
    /// bite in an unprivileged simulated process
    Mode(String, u32),
    /// a unix-domain socket file: exists, is neither a regular file nor a directory, cannot be read
    SocketFile(String),
}

#[derive(Clone, Copy, Debug, Serialize, Deserialize, PartialEq, Eq, PartialOrd, Ord)]
pub enum Entry {
    Check,
    Echo,
    Tokenize,
    /// FileBackedProject::change_text_document per file + semantic() (what the language server does)
    ApiText,
    /// FileBackedProject::push per file (reads and decodes from disk) + semantic()
    ApiPush,
    /// a language server whose workspace folder is the directory (it reads and decodes the files
    /// at initialize), asked for the semantic tokens of every file
    LspTokens,
    /// a language server whose workspace folder is the directory: the files stay on disk in their
    /// stored encodings, except the last one (in name order), which the editor opens with its text;
    /// the observation is what the server publishes for that document
    LspOpenOne,
}

#[derive(Clone, Debug, Serialize, Deserialize, PartialEq)]
pub struct Variant {
    pub role: String,
    pub entry: Entry,
    /// files in creation order
    pub files: Vec<FileSpec>,
    pub extras: Vec<Extra>,
    /// arguments, relative to the run root ("ws", "ws/a.st", "ws/missing.st")
    pub args: Vec<String>,
    pub dir_seed: u64,
    pub hash_seed: u64,
    pub faults: Vec<Fault>,
    /// the simulated process runs as an ordinary user that owns the simulated disk (permission
    /// bits are honoured), not as root
    #[serde(default)]
    pub unprivileged: bool,
    /// the simulated process is started in this directory (relative to the run root: "" or "ws")
    /// and is given its arguments as relative paths
    #[serde(default)]
    pub cwd: Option<String>,
}

/// An argument (relative to the run root) as typed from the working directory `cwd`.
pub fn relative_arg(arg: &str, cwd: &str) -> String {
    if cwd.is_empty() {
        return arg.to_string();
    }
    if arg == cwd {
        return ".".to_string();
    }
    match arg.strip_prefix(&format!("{cwd}/")) {
        Some(rest) => rest.to_string(),
        None => format!("../{arg}"),
    }
}

#[derive(Clone, Debug, Serialize, Deserialize, PartialEq)]
pub struct WorldTrace {
    pub prop: String,
    pub world: World,
    pub variants: Vec<Variant>,
    /// free-form generator parameters that select oracle clauses
    pub mode: String,
}

#[derive(Clone, Debug, Serialize, Deserialize, PartialEq)]
pub struct LabelRec {
    pub file: String,
    pub start: usize,
    pub end: usize,
    #[serde(default)]
    pub message: String,
    pub text_len: Option<usize>,
    pub on_char_boundary: Option<bool>,
}

#[derive(Clone, Debug, Serialize, Deserialize, PartialEq)]
pub struct DiagRec {
    pub code: String,
    pub primary: LabelRec,
    pub secondary: Vec<LabelRec>,
    /// whether handle_diagnostics was given the project for this batch
    pub with_project: bool,
}

#[derive(Clone, Debug, Serialize, Deserialize, PartialEq)]
pub enum Outcome {
    Ok,
    Err(String),
    Panic(String),
}

#[derive(Clone, Debug, Serialize, Deserialize, PartialEq)]
pub struct Obs {
    pub outcome: Outcome,
    pub diags: Vec<DiagRec>,
    pub probes: BTreeMap<String, u32>,
    pub fs_points: Vec<(String, String)>,
    pub faults_fired: Vec<(usize, String)>,
    pub source_orders: Vec<Vec<String>>,
    pub dir_orders: Vec<Vec<String>>,
    /// what the command physically printed (command-line entries only)
    pub printed: Printed,
}

#[derive(Clone, Debug, Default, Serialize, Deserialize, PartialEq)]
pub struct Printed {
    /// stdout has a line that is exactly "OK"
    pub ok_line: bool,
    /// number of such lines on stdout, and on stderr
    #[serde(default)]
    pub ok_lines_stdout: u32,
    #[serde(default)]
    pub ok_lines_stderr: u32,
    /// codes of the `error[Pnnnn]` headers on stderr, in order
    pub codes: Vec<String>,
    /// the `file:line:col` location lines of the rendered diagnostics, in order
    pub locations: Vec<String>,
    /// (Ln, Col) of every token line on stdout (tokenize), in order
    pub token_positions: Vec<(u32, u32)>,
    pub stdout_lines: usize,
    pub stdout_hash: u64,
}

/// The first `Pnnnn` that stands as a word of its own in the line.
fn find_problem_code(line: &str) -> Option<String> {
    let b = line.as_bytes();
    let mut i = 0;
    while i + 5 <= b.len() {
        if b[i] == b'P' && b[i + 1..i + 5].iter().all(|c| c.is_ascii_digit()) {
            let before_ok = i == 0 || !(b[i - 1].is_ascii_alphanumeric() || b[i - 1] == b'_');
            let after_ok = i + 5 == b.len() || !(b[i + 5].is_ascii_alphanumeric() || b[i + 5] == b'_');
            if before_ok && after_ok {
                return Some(line[i..i + 5].to_string());
            }
        }
        i += 1;
    }
    None
}

pub fn parse_printed(stdout: &str, stderr: &str) -> Printed {
    let err = crate::seam::strip_ansi(stderr);
    let mut p = Printed { stdout_lines: stdout.lines().count(), stdout_hash: crate::prng::hash_str(stdout), ..Printed::default() };
    for line in stdout.lines() {
        if line.trim_end() == "OK" {
            p.ok_line = true;
            p.ok_lines_stdout += 1;
        }
        if let Some(at) = line.rfind(", At: Ln ") {
            let rest = &line[at + 9..];
            if let Some((l, c)) = rest.split_once(",Col ") {
                if let (Ok(l), Ok(c)) = (l.trim().parse(), c.trim().parse()) {
                    p.token_positions.push((l, c));
                }
            }
        }
    }
    for line in err.lines() {
        if line.trim_end() == "OK" {
            p.ok_lines_stderr += 1;
        }
        // a coded diagnostic: the header `error[Pnnnn]` of the current renderer, or — should the
        // format change — any line that carries a problem code as a word of its own
        if let Some(rest) = line.strip_prefix("error[") {
            if let Some(end) = rest.find(']') {
                p.codes.push(rest[..end].to_string());
            }
        } else if !line.contains('│') && !line.contains("┌─") {
            if let Some(code) = find_problem_code(line) {
                p.codes.push(code);
            }
        }
        if let Some(pos) = line.find("┌─ ") {
            p.locations.push(line[pos + "┌─ ".len()..].trim().to_string());
        }
    }
    p
}

impl Obs {
    pub fn failed(&self) -> bool {
        !matches!(self.outcome, Outcome::Ok)
    }
    pub fn probe(&self, name: &str) -> u32 {
        self.probes.get(name).copied().unwrap_or(0)
    }
    pub fn codes(&self) -> Vec<String> {
        let mut c: Vec<String> = self.diags.iter().map(|d| d.code.clone()).collect();
        c.sort();
        c
    }
}

/// The name of a file relative to the ws/ directory of the simulated disk ("a.st", "d1/a.st").
pub fn ws_relative(file: &str) -> &str {
    if let Some(p) = file.find("/ws/") {
        return &file[p + 4..];
    }
    // a file that is in ws/ by way of a symbolic link is named by its target once canonicalised
    if let Some(p) = file.find("/store/") {
        return &file[p + 7..];
    }
    file.rsplit('/').next().unwrap_or(file)
}

pub fn file_text(world: &World, f: &FileSpec) -> String {
    let mut s = String::new();
    for d in &f.decls {
        s.push_str(&world.decls[*d].text);
    }
    s
}

pub fn file_bytes(world: &World, f: &FileSpec) -> Vec<u8> {
    match &f.raw {
        Some(r) => r.clone(),
        None => encode(&file_text(world, f), f.enc),
    }
}

/// Maps (file name inside ws, byte offset in the decoded text) to (declaration index, offset
/// inside that declaration).
/// The file of a layout that a diagnostic's file name denotes, however the tool spells it (absolute,
/// canonical, through store/, or relative to some working directory): the file whose name inside
/// ws/ is the longest path suffix of the spelling.
pub fn find_file<'a>(files: &'a [FileSpec], spelled: &str) -> Option<&'a FileSpec> {
    let name = ws_relative(spelled);
    if let Some(f) = files.iter().find(|f| f.name == name) {
        return Some(f);
    }
    let clean = spelled.trim_start_matches("./");
    files
        .iter()
        .filter(|f| clean == f.name || clean.ends_with(&format!("/{}", f.name)))
        .max_by_key(|f| f.name.len())
}

pub fn map_offset(world: &World, files: &[FileSpec], file: &str, offset: usize) -> Option<(usize, usize)> {
    let f = find_file(files, file)?;
    if f.raw.is_some() {
        return None;
    }
    let mut pos = 0;
    for d in &f.decls {
        let len = world.decls[*d].text.len();
        if offset < pos + len {
            return Some((*d, offset - pos));
        }
        pos += len;
    }
    None
}

fn convert_label(l: &ironplcc::verif::LabelRecord) -> LabelRec {
    LabelRec { file: l.file.clone(), start: l.start, end: l.end, message: l.message.clone(), text_len: l.text_len, on_char_boundary: l.on_char_boundary }
}

fn convert_log(log: &HookLog) -> Vec<DiagRec> {
    let mut out = vec![];
    for (with_project, records) in &log.diag_calls {
        for r in records {
            out.push(DiagRec {
                code: r.code.clone(),
                primary: convert_label(&r.primary),
                secondary: r.secondary.iter().map(convert_label).collect(),
                with_project: *with_project,
            });
        }
    }
    out
}

fn api_diag(d: &ironplc_dsl::diagnostic::Diagnostic, project: &FileBackedProject, root: &str) -> DiagRec {
    let lab = |l: &ironplc_dsl::diagnostic::Label| {
        let text = project.get(&l.file_id).map(|s| s.as_string());
        LabelRec {
            file: l.file_id.to_string().replace(root, "<root>"),
            start: l.location.start,
            end: l.location.end,
            message: l.message.replace(root, "<root>"),
            text_len: text.map(|t| t.len()),
            on_char_boundary: text.map(|t| {
                l.location.start <= l.location.end && t.is_char_boundary(l.location.start) && t.is_char_boundary(l.location.end)
            }),
        }
    };
    DiagRec { code: d.code.clone(), primary: lab(&d.primary), secondary: d.secondary.iter().map(lab).collect(), with_project: true }
}

/// Creates the simulated disk for a variant (removing whatever the previous run left).
pub fn lay_out(world: &World, v: &Variant) {
    let r = root();
    let _ = std::fs::remove_dir_all(r);
    let ws = r.join("ws");
    std::fs::create_dir_all(&ws).expect("create ws");
    for f in &v.files {
        let path = match &f.name_bytes {
            Some(b) => ws.join(<std::ffi::OsStr as std::os::unix::ffi::OsStrExt>::from_bytes(b)),
            None => ws.join(&f.name),
        };
        if let Some(parent) = path.parent() {
            let _ = std::fs::create_dir_all(parent);
        }
        if f.via_symlink {
            let target = r.join("store").join(&f.name);
            if let Some(parent) = target.parent() {
                let _ = std::fs::create_dir_all(parent);
            }
            std::fs::write(&target, file_bytes(world, f)).expect("write file");
            std::os::unix::fs::symlink(&target, &path).expect("link file");
        } else {
            std::fs::write(path, file_bytes(world, f)).expect("write file");
        }
    }
    for e in &v.extras {
        match e {
            Extra::EmptyDir(n) => {
                let _ = std::fs::create_dir_all(ws.join(n));
            }
            Extra::SubDirWithFile(n) => {
                let _ = std::fs::create_dir_all(ws.join(n));
                let _ = std::fs::write(ws.join(n).join("inner.st"), b"PROGRAM inner\nVAR\n k : INT;\nEND_VAR\nEND_PROGRAM\n");
            }
            Extra::DanglingSymlink(n) => {
                let _ = std::os::unix::fs::symlink("/nonexistent/simplc", ws.join(n));
            }
            Extra::SymlinkLoop(n) => {
                let _ = std::os::unix::fs::symlink(ws.join(n), ws.join(n));
            }
            Extra::SymlinkToFile(n, target) => {
                let _ = std::os::unix::fs::symlink(ws.join(target), ws.join(n));
            }
            Extra::SocketFile(n) => {
                let _ = std::os::unix::net::UnixListener::bind(ws.join(n));
            }
            Extra::Mode(..) => {}
        }
    }
    if v.unprivileged {
        crate::seam::chown_tree(r);
    }
    apply_modes(&ws, &v.extras);
}

/// Permission bits last, deepest path first is not needed: a name is a file or ws itself.
pub fn apply_modes(ws: &Path, extras: &[Extra]) {
    use std::os::unix::fs::PermissionsExt;
    for e in extras {
        if let Extra::Mode(n, mode) = e {
            let p = if n.is_empty() { ws.to_path_buf() } else { ws.join(n) };
            let _ = std::fs::set_permissions(&p, std::fs::Permissions::from_mode(*mode));
        }
    }
}

/// Executes one variant against the real code.
pub fn exec_variant(world: &World, v: &Variant) -> Obs {
    lay_out(world, v);
    let r = root().to_path_buf();
    let hooks = SimHooks::new(&r, v.dir_seed, v.faults.clone());
    let args: Vec<PathBuf> = match &v.cwd {
        Some(c) => v.args.iter().map(|a| PathBuf::from(relative_arg(a, c))).collect(),
        None => v.args.iter().map(|a| r.join(a)).collect(),
    };
    let cwd = v.cwd.as_ref().map(|c| r.join(c));
    let entry = v.entry;
    let texts: Vec<(PathBuf, String)> = v.files.iter().map(|f| (r.join("ws").join(&f.name), file_text(world, f))).collect();
    let root_str = r.to_string_lossy().to_string();

    if entry == Entry::LspTokens || entry == Entry::LspOpenOne {
        // also a forked child: the server reads the files at initialize
        let v2 = v.clone();
        let opened: Option<(String, String)> = if entry == Entry::LspOpenOne {
            let mut names: Vec<&FileSpec> = v.files.iter().filter(|f| f.raw.is_none()).collect();
            names.sort_by(|a, b| a.name.cmp(&b.name));
            names.last().map(|f| (f.name.clone(), file_text(world, f)))
        } else {
            None
        };
        return match crate::seam::run_forked(move || if v2.entry == Entry::LspOpenOne { exec_lsp_open_one(&v2, opened.clone()) } else { exec_lsp_tokens(&v2) }) {
            Ok(obs) => obs,
            Err(why) => Obs { outcome: Outcome::Panic(why), diags: vec![], probes: BTreeMap::new(), fs_points: vec![], faults_fired: vec![], source_orders: vec![], dir_orders: vec![], printed: Printed::default() },
        };
    }
    // the whole simulated process runs in a forked child (fresh process-global state, isolated
    // crashes); inside it the entry point runs on a fresh thread so that the hash keys of std are
    // drawn anew from the seeded randomness
    let hash_seed = v.hash_seed;
    let unprivileged = v.unprivileged;
    let forked = crate::seam::run_forked(move || {
    if let Some(dir) = &cwd {
        // (the working directory is process-wide: this is a forked child)
        let _ = std::env::set_current_dir(dir);
    }
    if unprivileged && !crate::seam::drop_privileges() {
        // (the worker checked at start that this works)
        unsafe { libc::_exit(97) };
    }
    crate::seam::capture_begin();
    let result = run_simulated_process(hash_seed, Some(hooks.clone()), move || match entry {
        Entry::Check => (ironplcc::cli::check(&args, false), vec![]),
        Entry::Echo => (ironplcc::cli::echo(&args, false), vec![]),
        Entry::Tokenize => (ironplcc::cli::tokenize(&args, false), vec![]),
        Entry::LspTokens | Entry::LspOpenOne => unreachable!("handled by exec_lsp_tokens / exec_lsp_open_one"),
        Entry::ApiText | Entry::ApiPush => {
            let mut project = FileBackedProject::new();
            let mut diags = vec![];
            for (path, text) in &texts {
                let id = FileId::from_path(path);
                if entry == Entry::ApiText {
                    project.change_text_document(&id, text.clone());
                } else if let Err(d) = project.push(id) {
                    diags.push(api_diag(&d, &project, &root_str));
                }
            }
            match project.semantic() {
                Ok(()) if diags.is_empty() => (Ok(()), diags),
                Ok(()) => (Err("push failed".to_string()), diags),
                Err(ds) => {
                    for d in &ds {
                        diags.push(api_diag(d, &project, &root_str));
                    }
                    (Err("semantic".to_string()), diags)
                }
            }
        }
    });
    let (stdout, stderr) = crate::seam::capture_end();
    let printed = parse_printed(&stdout, &stderr);
    let log = hooks.take_log();
    let (outcome, api_diags) = match result {
        Ok((Ok(()), d)) => (Outcome::Ok, d),
        Ok((Err(e), d)) => (Outcome::Err(e), d),
        Err(p) => (Outcome::Panic(p), vec![]),
    };
    let mut diags = convert_log(&log);
    diags.extend(api_diags);
    Obs {
        outcome,
        diags,
        probes: log.probes,
        fs_points: log.fs_points,
        faults_fired: log.faults_fired,
        source_orders: log.source_orders,
        dir_orders: log.dir_orders,
        printed,
    }
    });
    match forked {
        Ok(obs) => obs,
        Err(why) => Obs {
            outcome: Outcome::Panic(why),
            diags: vec![],
            probes: BTreeMap::new(),
            fs_points: vec![],
            faults_fired: vec![],
            source_orders: vec![],
            dir_orders: vec![],
            printed: Printed::default(),
        },
    }
}

/// The never-opened files of a workspace folder as the language server decodes them, judged by what
/// it publishes for one opened document that may depend on them.
fn exec_lsp_open_one(v: &Variant, opened: Option<(String, String)>) -> Obs {
    use crate::lsp::{Event, Session};
    let r = root().to_path_buf();
    let hooks = SimHooks::new(&r, v.dir_seed, v.faults.clone());
    let ws_uri = format!("file://{}/ws", r.display());
    let mut s = Session::start(v.hash_seed, hooks.clone(), Some(ws_uri));
    let mut diags = vec![];
    let mut published = false;
    if let Some((name, text)) = &opened {
        let ev = Event::Open { uri: format!("ws:{name}"), version: 1, text: text.clone() };
        s.deliver(Some(0), "didOpen", crate::lsp::event_message(&ev, 0).unwrap());
    }
    let inc = s.shutdown_and_exit();
    for st in inc.steps.iter().filter(|st| st.label == "didOpen") {
        for o in &st.outputs {
            if o["method"].as_str() == Some("textDocument/publishDiagnostics") {
                published = true;
                for d in o["params"]["diagnostics"].as_array().cloned().unwrap_or_default() {
                    // (positions are line/column here, not offsets: only the code takes part in comparisons)
                    let lab = LabelRec { file: opened.as_ref().map(|x| x.0.clone()).unwrap_or_default(), start: 0, end: 0, message: String::new(), text_len: None, on_char_boundary: None };
                    diags.push(DiagRec { code: d["code"].as_str().unwrap_or("").to_string(), primary: lab, secondary: vec![], with_project: true });
                }
            }
        }
    }
    let log = hooks.take_log();
    let outcome = match (&inc.died, &inc.result) {
        (Some(d), _) => Outcome::Panic(d.clone()),
        (None, Some(Ok(()))) if opened.is_none() || (published && diags.is_empty()) => Outcome::Ok,
        (None, Some(Ok(()))) if published => Outcome::Err("diagnostics published".into()),
        (None, other) => Outcome::Panic(format!("no publishDiagnostics for the opened document, server result {other:?}")),
    };
    Obs { outcome, diags, probes: log.probes, fs_points: log.fs_points, faults_fired: log.faults_fired, source_orders: log.source_orders, dir_orders: log.dir_orders, printed: Printed::default() }
}

/// The decoded files as the language server sees them: initialize on the workspace folder, then a
/// semanticTokens/full request per file, then shutdown and exit. Outcome::Panic if the server dies.
fn exec_lsp_tokens(v: &Variant) -> Obs {
    use crate::lsp::{Event, Session};
    let r = root().to_path_buf();
    let hooks = SimHooks::new(&r, v.dir_seed, v.faults.clone());
    let ws_uri = format!("file://{}/ws", r.display());
    let mut s = Session::start(v.hash_seed, hooks.clone(), Some(ws_uri));
    for (i, f) in v.files.iter().enumerate() {
        let ev = Event::SemTok { uri: format!("ws:{}", f.name), id_kind: 0 };
        if let Some(m) = crate::lsp::event_message(&ev, i) {
            s.deliver(Some(i), "semanticTokens", m);
        }
    }
    let inc = s.shutdown_and_exit();
    let log = hooks.take_log();
    let answered = inc.steps.iter().filter(|st| st.label == "semanticTokens" && st.outputs.iter().any(|o| o.get("id").is_some() && o.get("method").is_none())).count();
    let outcome = match (&inc.died, &inc.result) {
        (Some(d), _) => Outcome::Panic(d.clone()),
        (None, Some(Ok(()))) if answered == v.files.len() => Outcome::Ok,
        (None, other) => Outcome::Err(format!("{answered} of {} token requests answered, server result {other:?}", v.files.len())),
    };
    Obs {
        outcome,
        diags: vec![],
        probes: log.probes,
        fs_points: log.fs_points,
        faults_fired: log.faults_fired,
        source_orders: log.source_orders,
        dir_orders: log.dir_orders,
        printed: Printed::default(),
    }
}
