//! LSP traces (placeholder until the lsp campaign is built).
use serde::{Deserialize, Serialize};

#[derive(Clone, Debug, Serialize, Deserialize, PartialEq)]
pub struct LspTrace {
    pub prop: String,
}
