//! The simulated editor session: a client actor driving the real language server thread in
//! strict lockstep over capacity-0 channels.

use std::{
    sync::Arc,
    thread::JoinHandle,
};

use crossbeam_channel::{bounded, Receiver, Sender, TryRecvError, TrySendError};
use ironplcc::{lsp_project::LspProject, project::FileBackedProject, verif::Hooks};
use lsp_server::{Connection, Message, Notification, Request, RequestId, Response, ResponseError};
use serde::{Deserialize, Serialize};
use serde_json::{json, Value};

use crate::{
    seam::{seed_thread_randomness, take_last_panic, SimHooks},
    world::root,
};

#[derive(Clone, Debug, Serialize, Deserialize, PartialEq)]
pub enum Event {
    Open { uri: String, version: i32, text: String },
    /// full-text sync: 0, 1 or several content changes (the last one wins)
    Change { uri: String, version: i32, texts: Vec<String> },
    SemTok {
        uri: String,
        #[serde(default)]
        id_kind: u8,
    },
    UnknownRequest { method: String, uri: String, id_kind: u8 },
    UnknownNotification {
        method: String,
        uri: String,
        /// for $/cancelRequest: (event index, id kind) of an earlier request of this session whose id is named
        #[serde(default)]
        refers_to: Option<(usize, u8)>,
    },
    ClientResponse { id: i32, error: bool },
    /// the transport delivers the previous notification a second time
    DupPrev,
    /// the server process dies and is started again; the editor re-opens what it believes open
    Restart,
    /// another process (the editor saving a buffer, a checkout) writes or removes ws/<name> on the
    /// simulated disk between two messages; nothing is sent to the server
    Disk { name: String, text: Option<String> },
    /// the client is silent for this long — REAL time (ironplc reads no clock, so on the pinned
    /// tree nothing can depend on it; a change that adds an idle timer would). Rare and short.
    Pause { millis: u64 },
}

impl Event {
    pub fn kind(&self) -> &'static str {
        match self {
            Event::Open { .. } => "didOpen",
            Event::Change { texts, .. } => match texts.len() {
                0 => "didChange.0changes",
                1 => "didChange.1change",
                _ => "didChange.2changes",
            },
            Event::SemTok { .. } => "semanticTokens",
            Event::UnknownRequest { .. } => "unknownRequest",
            Event::UnknownNotification { .. } => "unknownNotification",
            Event::ClientResponse { .. } => "clientResponse",
            Event::DupPrev => "duplicateDelivery",
            Event::Restart => "crashRestart",
            Event::Disk { text: Some(_), .. } => "diskWrite",
            Event::Disk { text: None, .. } => "diskRemove",
            Event::Pause { .. } => "pause",
        }
    }
}

#[derive(Clone, Debug, Serialize, Deserialize, PartialEq)]
pub struct LspTrace {
    pub prop: String,
    /// files present on the simulated disk in ws/ (name, text)
    pub ws_files: Vec<(String, String)>,
    /// whether the client announces ws/ as workspace folder in initialize
    pub use_ws_folder: bool,
    pub events: Vec<Event>,
    /// OS randomness of each server incarnation (restart takes the next one, cyclically)
    pub hash_seeds: Vec<u64>,
    pub dir_seed: u64,
    pub mode: String,
    /// entries of ws/ that cannot be read as a source file (dangling symlink, directory named like a
    /// source file, symlink loop): the workspace folder the server meets at initialize is not clean
    #[serde(default)]
    pub ws_extras: Vec<crate::world::Extra>,
    /// a client that makes use of incremental synchronisation when — and only when — the server
    /// advertises it: single-text didChange notifications are then sent as one ranged edit
    #[serde(default)]
    pub ranged_edits: bool,
    /// which legal shape the initialize request of the history's server takes (0 = the plain one)
    #[serde(default)]
    pub init_shape: u8,
}

pub const INIT_SHAPES: u8 = 12;

pub fn init_shape_name(shape: u8) -> &'static str {
    match shape {
        1 => "folders_empty_list",
        2 => "root_uri_only",
        3 => "two_folders",
        4 => "folder_missing_on_disk",
        5 => "folder_is_a_file",
        6 => "folder_not_a_file_uri",
        7 => "folder_trailing_slash",
        8 => "rich_client_params",
        9 => "folder_percent_encoded",
        10 => "rich_client_own_token_type_order",
        11 => "rich_client_without_modifier_token_type",
        _ => "plain",
    }
}

/// The params of the initialize request for a shape. `ws` is the URI of the workspace folder the
/// client announces (None: the client has no folder; shapes that need one fall back to the plain form).
pub fn initialize_params(ws: Option<&str>, shape: u8) -> Value {
    let plain = |folders: Value| json!({"processId": null, "rootUri": null, "capabilities": {}, "workspaceFolders": folders});
    let one = |uri: &str| json!([{"uri": uri, "name": "ws"}]);
    let root_dir = format!("file://{}", root().display());
    match (shape, ws) {
        (1, None) => plain(json!([])),
        (2, None) => json!({"processId": 4711, "rootUri": format!("{root_dir}/ws"), "rootPath": format!("{}/ws", root().display()), "capabilities": {}}),
        (3, None) => plain(json!([{"uri": format!("{root_dir}/ws"), "name": "ws"}, {"uri": format!("{root_dir}/ws2"), "name": "second"}])),
        (4, None) => plain(one(&format!("{root_dir}/nowhere"))),
        (5, None) => plain(one(&format!("{root_dir}/ws/a.st"))),
        (6, None) => plain(one("untitled:ws")),
        (7, Some(uri)) => plain(one(&format!("{uri}/"))),
        (8 | 10 | 11, ws) => json!({
            "processId": 4711,
            "clientInfo": {"name": "simplc editor", "version": "1.0"},
            "locale": "en",
            "rootPath": ws.map(|_| format!("{}/ws", root().display())),
            "rootUri": ws,
            "trace": "off",
            "capabilities": {
                "workspace": {"workspaceFolders": true, "configuration": true},
                "textDocument": {
                    "synchronization": {"dynamicRegistration": false, "didSave": true},
                    "publishDiagnostics": {"relatedInformation": true, "versionSupport": true},
                    "semanticTokens": {"requests": {"full": {"delta": true}, "range": true}, "tokenTypes": match shape {
                        // every type the server knows, in an order of the client's own
                        10 => json!(["comment", "string", "operator", "keyword", "modifier", "variable", "namespace"]),
                        // a client that cannot show one of the earlier entries of the server's legend
                        11 => json!(["variable", "keyword", "comment", "string", "operator"]),
                        _ => json!(["keyword", "variable"]),
                    }, "tokenModifiers": [], "formats": ["relative"], "multilineTokenSupport": shape != 11, "overlappingTokenSupport": false}
                },
                "general": {"positionEncodings": ["utf-16"]}
            },
            "workspaceFolders": match ws { Some(uri) => one(uri), None => Value::Null },
        }),
        (9, Some(uri)) => plain(one(&uri.replace("/ws", "/%77s"))),
        (_, Some(uri)) => plain(one(uri)),
        (_, None) => plain(Value::Null),
    }
}

/// Expands a symbolic URI ("ws:a.st") to the real one.
pub fn expand_uri(uri: &str) -> String {
    if let Some(name) = uri.strip_prefix("ws:") {
        return format!("file://{}/ws/{}", root().display(), name);
    }
    // the same directory reached through a symbolic link (<root>/wsl -> <root>/ws)
    if let Some(name) = uri.strip_prefix("wsl:") {
        return format!("file://{}/wsl/{}", root().display(), name);
    }
    uri.to_string()
}

/// The path a file URI denotes on this platform, if any (the client-side model of `to_file_path`).
pub fn uri_path(uri: &str) -> Option<String> {
    let full = expand_uri(uri);
    let url = lsp_types::Url::parse(&full).ok()?;
    if url.scheme() != "file" {
        return None;
    }
    url.to_file_path().ok().map(|p| p.to_string_lossy().to_string())
}

/// (line, UTF-16 column) of a byte offset, lines ending at LF (used only for texts without CR).
pub fn lsp_position(text: &str, offset: usize) -> (u32, u32) {
    let mut line = 0u32;
    let mut col = 0u32;
    for c in text[..offset].chars() {
        if c == '\n' {
            line += 1;
            col = 0;
        } else {
            col += c.len_utf16() as u32;
        }
    }
    (line, col)
}

/// The byte offset of an LSP position (UTF-16 columns, LF lines); positions beyond a line's end
/// or the text's end are clamped, as the protocol asks of a server.
pub fn lsp_offset(text: &str, line: u32, character: u32) -> usize {
    let mut l = 0u32;
    let mut col = 0u32;
    for (i, c) in text.char_indices() {
        if l == line && col >= character {
            return i;
        }
        if c == '\n' {
            if l == line {
                return i;
            }
            l += 1;
            col = 0;
        } else if l == line {
            col += c.len_utf16() as u32;
        }
    }
    text.len()
}

/// One ranged content change that turns `old` into `new` (common prefix and suffix kept).
pub fn ranged_change(old: &str, new: &str) -> Value {
    let mut p = 0;
    for ((i, a), b) in old.char_indices().zip(new.chars()) {
        if a != b {
            break;
        }
        p = i + a.len_utf8();
    }
    let mut s = 0;
    for (a, b) in old[p..].chars().rev().zip(new[p..].chars().rev()) {
        if a != b {
            break;
        }
        s += a.len_utf8();
    }
    let (sl, sc) = lsp_position(old, p);
    let (el, ec) = lsp_position(old, old.len() - s);
    json!({"range": {"start": {"line": sl, "character": sc}, "end": {"line": el, "character": ec}}, "text": &new[p..new.len() - s]})
}

/// Request ids are unique per session; the kind varies their JSON shape.
fn req_id(index: usize, id_kind: u8) -> RequestId {
    match id_kind {
        1 => RequestId::from(format!("req-{index}")),
        // a string that looks like a number, and (once per session at most: index 0) the empty string
        2 => RequestId::from(format!("{}", 5000 + index)),
        3 if index == 0 => RequestId::from(String::new()),
        // 0 is a valid id (and falsy in many languages); initialize uses 1 and shutdown 2
        4 if index == 0 => RequestId::from(0),
        5 => RequestId::from(-(1000 + index as i32)),
        _ => RequestId::from(1000 + index as i32),
    }
}

pub fn event_message(ev: &Event, index: usize) -> Option<Message> {
    Some(match ev {
        Event::Open { uri, version, text } => Message::Notification(Notification {
            method: "textDocument/didOpen".into(),
            params: json!({"textDocument": {"uri": expand_uri(uri), "languageId": "61131-3-st", "version": version, "text": text}}),
        }),
        Event::Change { uri, version, texts } => Message::Notification(Notification {
            method: "textDocument/didChange".into(),
            params: json!({"textDocument": {"uri": expand_uri(uri), "version": version}, "contentChanges": texts.iter().map(|t| json!({"text": t})).collect::<Vec<_>>()}),
        }),
        Event::SemTok { uri, id_kind } => Message::Request(Request {
            id: req_id(index, *id_kind),
            method: "textDocument/semanticTokens/full".into(),
            params: json!({"textDocument": {"uri": expand_uri(uri)}}),
        }),
        Event::UnknownRequest { method, uri, id_kind } => {
            let params = match method.as_str() {
                "textDocument/hover" | "textDocument/completion" | "textDocument/definition" => {
                    json!({"textDocument": {"uri": expand_uri(uri)}, "position": {"line": 0, "character": 0}})
                }
                "workspace/symbol" => json!({"query": ""}),
                "textDocument/documentSymbol" | "textDocument/formatting" => json!({"textDocument": {"uri": expand_uri(uri)}, "options": {"tabSize": 2, "insertSpaces": true}}),
                "textDocument/semanticTokens/full/delta" => json!({"textDocument": {"uri": expand_uri(uri)}, "previousResultId": "1"}),
                "textDocument/semanticTokens" => json!({"textDocument": {"uri": expand_uri(uri)}}),
                // the params the like-named notification would carry
                "textDocument/didOpen" => json!({"textDocument": {"uri": expand_uri(uri), "languageId": "61131-3-st", "version": 1, "text": "PROGRAM asked\nVAR\n k : INT;\nEND_VAR\nEND_PROGRAM\n"}}),
                "textDocument/didChange" => json!({"textDocument": {"uri": expand_uri(uri), "version": 2}, "contentChanges": [{"text": "PROGRAM asked\nVAR\n k : INT;\nEND_VAR\n k := undeclared_name;\nEND_PROGRAM\n"}]}),
                "textDocument/didClose" => json!({"textDocument": {"uri": expand_uri(uri)}}),
                "$/cancelRequest" => json!({"id": 1}),
                _ => json!({}),
            };
            Message::Request(Request { id: req_id(index, *id_kind), method: method.clone(), params })
        }
        Event::UnknownNotification { method, uri, refers_to } => {
            let params = match method.as_str() {
                "$/cancelRequest" if refers_to.is_some() => {
                    let (i, k) = refers_to.unwrap();
                    json!({"id": serde_json::to_value(req_id(i, k)).unwrap_or(Value::Null)})
                }
                "textDocument/didClose" | "textDocument/didSave" | "textDocument/semanticTokens/full" => json!({"textDocument": {"uri": expand_uri(uri)}}),
                "textDocument/hover" => json!({"textDocument": {"uri": expand_uri(uri)}, "position": {"line": 0, "character": 0}}),
                "shutdown" => Value::Null,
                "$/cancelRequest" => json!({"id": 1}),
                "$/setTrace" => json!({"value": "off"}),
                "workspace/didChangeConfiguration" => json!({"settings": {}}),
                "workspace/didChangeWatchedFiles" => json!({"changes": [{"uri": expand_uri(uri), "type": 2}]}),
                _ => json!({}),
            };
            Message::Notification(Notification { method: method.clone(), params })
        }
        Event::ClientResponse { id, error } => Message::Response(Response {
            id: RequestId::from(*id),
            result: if *error { None } else { Some(Value::Null) },
            error: if *error { Some(ResponseError { code: -32601, message: "method not found".into(), data: None }) } else { None },
        }),
        Event::DupPrev | Event::Restart | Event::Disk { .. } | Event::Pause { .. } => return None,
    })
}

// ---------------------------------------------------------------------------------------------
// Recorded history

#[derive(Clone, Debug, Serialize, Deserialize, PartialEq)]
pub struct Step {
    /// index into the trace's events; None for protocol frames the executor adds itself
    pub event: Option<usize>,
    pub label: String,
    /// the message as sent (JSON)
    pub sent: Value,
    /// everything the server emitted while processing this message
    pub outputs: Vec<Value>,
}

#[derive(Clone, Debug, Serialize, Deserialize, PartialEq)]
pub struct Incarnation {
    pub hash_seed: u64,
    pub steps: Vec<Step>,
    /// Some(panic text or reason) when the server thread ended before `exit`
    pub died: Option<String>,
    /// index of the step during whose processing the server died
    pub died_at_step: Option<usize>,
    /// return value of start_with_connection (what main would turn into the exit status)
    pub result: Option<Result<(), String>>,
    /// true if this incarnation was ended by a simulated crash rather than shutdown/exit
    pub crashed_by_simulator: bool,
    /// after `exit` the server was found idle in `recv` again (it accepted another message)
    /// instead of terminating
    #[serde(default)]
    pub still_receiving_after_exit: bool,
}

pub fn message_json(m: &Message) -> Value {
    serde_json::to_value(m).unwrap_or(Value::Null)
}

pub struct Session {
    c2s: Option<Sender<Message>>,
    s2c: Receiver<Message>,
    handle: Option<JoinHandle<Result<Result<(), String>, String>>>,
    pub inc: Incarnation,
    dead: bool,
}

impl Session {
    /// Starts a server thread and performs the initialize handshake.
    pub fn start(hash_seed: u64, hooks: Arc<SimHooks>, ws_folder: Option<String>) -> Session {
        Self::start_shaped(hash_seed, hooks, ws_folder, 0)
    }

    /// As `start`, with the initialize request in one of the legal shapes of `initialize_params`.
    pub fn start_shaped(hash_seed: u64, hooks: Arc<SimHooks>, ws_folder: Option<String>, init_shape: u8) -> Session {
        let (c2s_tx, c2s_rx) = bounded::<Message>(0);
        let (s2c_tx, s2c_rx) = bounded::<Message>(0);
        let handle = std::thread::Builder::new()
            .stack_size(8 << 20)
            .spawn(move || {
                seed_thread_randomness(hash_seed);
                ironplcc::verif::install(Some(hooks as Arc<dyn Hooks>));
                let r = std::panic::catch_unwind(std::panic::AssertUnwindSafe(|| {
                    let connection = Connection { sender: s2c_tx, receiver: c2s_rx };
                    let project = LspProject::new(Box::new(FileBackedProject::new()));
                    ironplcc::lsp::verif_start_with_connection(connection, project)
                }));
                ironplcc::verif::install(None);
                match r {
                    Ok(v) => Ok(v),
                    Err(_) => Err(take_last_panic().unwrap_or_else(|| "panic".into())),
                }
            })
            .expect("spawn server");
        let mut s = Session {
            c2s: Some(c2s_tx),
            s2c: s2c_rx,
            handle: Some(handle),
            inc: Incarnation { hash_seed, steps: vec![], died: None, died_at_step: None, result: None, crashed_by_simulator: false, still_receiving_after_exit: false },
            dead: false,
        };
        s.deliver(
            None,
            "initialize",
            Message::Request(Request { id: RequestId::from(1), method: "initialize".into(), params: initialize_params(ws_folder.as_deref(), init_shape) }),
        );
        s.deliver(None, "initialized", Message::Notification(Notification { method: "initialized".into(), params: json!({}) }));
        s
    }

    fn take_outputs(&mut self) -> bool {
        // returns false once the channel is disconnected
        loop {
            match self.s2c.try_recv() {
                Ok(m) => {
                    if let Some(last) = self.inc.steps.last_mut() {
                        last.outputs.push(message_json(&m));
                    }
                }
                Err(TryRecvError::Empty) => return true,
                Err(TryRecvError::Disconnected) => return false,
            }
        }
    }

    fn note_death(&mut self) {
        if self.dead {
            return;
        }
        self.dead = true;
        // drain what is left, then join
        while let Ok(m) = self.s2c.try_recv() {
            if let Some(last) = self.inc.steps.last_mut() {
                last.outputs.push(message_json(&m));
            }
        }
        if let Some(h) = self.handle.take() {
            match h.join() {
                Ok(Ok(r)) => {
                    self.inc.result = Some(r.clone());
                    self.inc.died = Some(match r {
                        Ok(()) => "server returned Ok before exit".to_string(),
                        Err(e) => format!("server returned Err({e}) before exit"),
                    });
                }
                Ok(Err(p)) => self.inc.died = Some(format!("panic: {p}")),
                Err(_) => self.inc.died = Some("panic outside catch_unwind".into()),
            }
            self.inc.died_at_step = Some(self.inc.steps.len().saturating_sub(1));
        }
    }

    /// Delivers one message. It is accepted only when the server is idle in `recv`; until then
    /// every output on offer is taken and attributed to the previous message.
    pub fn deliver(&mut self, event: Option<usize>, label: &str, msg: Message) {
        if self.dead {
            return;
        }
        let sent = message_json(&msg);
        let mut msg = msg;
        let mut spins = 0u32;
        loop {
            let connected = self.take_outputs();
            let finished = self.handle.as_ref().map(|h| h.is_finished()).unwrap_or(true);
            if !connected || finished {
                self.note_death();
                return;
            }
            match self.c2s.as_ref().unwrap().try_send(msg) {
                Ok(()) => {
                    self.inc.steps.push(Step { event, label: label.to_string(), sent, outputs: vec![] });
                    return;
                }
                Err(TrySendError::Full(m)) => {
                    msg = m;
                    spins += 1;
                    if spins < 200 {
                        std::hint::spin_loop();
                    } else {
                        std::thread::yield_now();
                    }
                }
                Err(TrySendError::Disconnected(_)) => {
                    self.note_death();
                    return;
                }
            }
        }
    }

    pub fn is_dead(&self) -> bool {
        self.dead
    }

    /// Whether the initialize result advertises incremental text synchronisation (change kind 2).
    pub fn advertises_incremental_sync(&self) -> bool {
        self.inc.steps.first().is_some_and(|st| {
            st.outputs.iter().any(|o| {
                let sync = &o["result"]["capabilities"]["textDocumentSync"];
                sync.as_u64() == Some(2) || sync["change"].as_u64() == Some(2)
            })
        })
    }

    /// Records something that happened beside the connection (a change of the simulated disk) at
    /// its place in the history. The caller delivers a barrier notification first: once that has
    /// been *accepted* the server had finished everything before it, so the change falls between
    /// two messages (while the server handles the barrier, which it ignores).
    pub fn note(&mut self, event: Option<usize>, label: &str, what: Value) {
        if self.dead {
            return;
        }
        self.inc.steps.push(Step { event, label: label.to_string(), sent: what, outputs: vec![] });
    }

    /// Clean end: shutdown request, exit notification, join.
    pub fn shutdown_and_exit(mut self) -> Incarnation {
        if !self.dead {
            self.deliver(None, "shutdown", Message::Request(Request { id: RequestId::from(2), method: "shutdown".into(), params: Value::Null }));
        }
        if !self.dead {
            // exit is offered at the rendezvous right after the shutdown response is taken: no
            // real time passes at lsp-server's 30 s recv_timeout
            self.deliver(None, "exit", Message::Notification(Notification { method: "exit".into(), params: Value::Null }));
        }
        if !self.dead {
            self.finish(false);
        }
        self.inc
    }

    /// Simulated crash: the connection is cut; whatever the server was emitting is still taken.
    pub fn crash(mut self) -> Incarnation {
        if !self.dead {
            self.inc.crashed_by_simulator = true;
            self.finish(true);
        }
        self.inc
    }

    fn finish(&mut self, crash: bool) {
        if crash {
            self.c2s = None;
        }
        loop {
            let connected = self.take_outputs();
            let finished = self.handle.as_ref().map(|h| h.is_finished()).unwrap_or(true);
            if finished || !connected {
                break;
            }
            if !crash {
                // after `exit` the server has to terminate. A capacity-0 send succeeds only if it is
                // (again) blocked in `recv`: then it did not terminate, and the connection is cut so
                // that the run can end.
                let accepted = match self.c2s.as_ref() {
                    Some(tx) => tx.try_send(Message::Notification(Notification { method: "$/simplc/afterExit".into(), params: Value::Null })).is_ok(),
                    None => false,
                };
                if accepted {
                    self.inc.still_receiving_after_exit = true;
                    self.c2s = None;
                }
            }
            std::thread::yield_now();
        }
        // the thread may still be unwinding its stack after dropping the sender
        while let Ok(m) = self.s2c.recv() {
            if let Some(last) = self.inc.steps.last_mut() {
                last.outputs.push(message_json(&m));
            }
        }
        self.c2s = None;
        if let Some(h) = self.handle.take() {
            match h.join() {
                Ok(Ok(r)) => self.inc.result = Some(r),
                Ok(Err(p)) => {
                    self.inc.died = Some(format!("panic: {p}"));
                    self.inc.died_at_step = Some(self.inc.steps.len().saturating_sub(1));
                }
                Err(_) => self.inc.died = Some("panic outside catch_unwind".into()),
            }
        }
        self.dead = true;
    }
}
