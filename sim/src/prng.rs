//! The only source of randomness of the simulator: xoshiro256** seeded through SplitMix64.

#[derive(Clone, Debug)]
pub struct Rng {
    s: [u64; 4],
}

pub fn splitmix(x: &mut u64) -> u64 {
    *x = x.wrapping_add(0x9E37_79B9_7F4A_7C15);
    let mut z = *x;
    z = (z ^ (z >> 30)).wrapping_mul(0xBF58_476D_1CE4_E5B9);
    z = (z ^ (z >> 27)).wrapping_mul(0x94D0_49BB_1331_11EB);
    z ^ (z >> 31)
}

/// Mixes several integers into one seed (order sensitive).
pub fn mix(parts: &[u64]) -> u64 {
    let mut acc = 0x1234_5678_9ABC_DEF0u64;
    for p in parts {
        let mut x = acc ^ p.wrapping_mul(0xD6E8_FEB8_6659_FD93);
        acc = splitmix(&mut x);
    }
    acc
}

pub fn hash_str(s: &str) -> u64 {
    // FNV-1a, then one splitmix round
    let mut h = 0xcbf2_9ce4_8422_2325u64;
    for b in s.as_bytes() {
        h ^= *b as u64;
        h = h.wrapping_mul(0x0000_0100_0000_01B3);
    }
    let mut x = h;
    splitmix(&mut x)
}

impl Rng {
    pub fn new(seed: u64) -> Self {
        let mut x = seed;
        let s = [
            splitmix(&mut x),
            splitmix(&mut x),
            splitmix(&mut x),
            splitmix(&mut x),
        ];
        Rng { s }
    }

    pub fn next(&mut self) -> u64 {
        let result = self.s[1].wrapping_mul(5).rotate_left(7).wrapping_mul(9);
        let t = self.s[1] << 17;
        self.s[2] ^= self.s[0];
        self.s[3] ^= self.s[1];
        self.s[1] ^= self.s[2];
        self.s[0] ^= self.s[3];
        self.s[2] ^= t;
        self.s[3] = self.s[3].rotate_left(45);
        result
    }

    /// Uniform in 0..n (n > 0).
    pub fn below(&mut self, n: usize) -> usize {
        debug_assert!(n > 0);
        ((self.next() >> 11) % (n as u64)) as usize
    }

    /// Uniform in lo..=hi.
    pub fn range(&mut self, lo: usize, hi: usize) -> usize {
        lo + self.below(hi - lo + 1)
    }

    /// True with probability num/den.
    pub fn chance(&mut self, num: usize, den: usize) -> bool {
        self.below(den) < num
    }

    pub fn pick<'a, T>(&mut self, items: &'a [T]) -> &'a T {
        &items[self.below(items.len())]
    }

    pub fn shuffle<T>(&mut self, items: &mut [T]) {
        for i in (1..items.len()).rev() {
            let j = self.below(i + 1);
            items.swap(i, j);
        }
    }

    pub fn perm(&mut self, n: usize) -> Vec<usize> {
        let mut p: Vec<usize> = (0..n).collect();
        self.shuffle(&mut p);
        p
    }

    pub fn fork(&mut self) -> Rng {
        Rng::new(self.next())
    }
}
