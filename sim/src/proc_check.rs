//! Process-level cross-check (auxiliary, sampled): replays fault-free traces against the shipped
//! binary built from the current tree WITHOUT the `verif` feature, over real pipes and a real
//! directory, to keep the in-process stubs (stdio transport, exit status, terminal output) honest.
//! This part is runtime observation, not simulation; only run-independent observables are compared.

use std::{
    io::{Read, Write},
    path::{Path, PathBuf},
    process::{Command, Stdio},
};

use serde::{Deserialize, Serialize};
use serde_json::Value;

use crate::campaign::Violation;

#[derive(Clone, Debug, Serialize, Deserialize, PartialEq)]
pub enum ProcCase {
    Cli {
        run_index: u64,
        label: String,
        /// files inside ws/ (name, stored bytes)
        files: Vec<(String, Vec<u8>)>,
        /// names among `files` that are symbolic links to content kept outside ws/
        #[serde(default)]
        symlinked: Vec<String>,
        /// static oddities of the directory (dangling symlink, empty directory, …)
        #[serde(default)]
        extras: Vec<crate::world::Extra>,
        /// run the binary as an ordinary user that owns the directory (permission bits bite)
        #[serde(default)]
        unprivileged: bool,
        /// start the binary in this directory (relative to the case directory) with relative arguments
        #[serde(default)]
        cwd: Option<String>,
        cmd: String,
        /// arguments relative to the case directory
        args: Vec<String>,
        predicted_ok: bool,
        predicted_codes: Vec<String>,
    },
    Lsp {
        run_index: u64,
        /// every message the simulated client sent, in order (initialize ... exit)
        frames: Vec<Value>,
        /// summary of what the in-process server emitted, in order
        predicted: Vec<String>,
        predicted_exit_ok: bool,
    },
}

impl ProcCase {
    pub fn run_index(&self) -> u64 {
        match self {
            ProcCase::Cli { run_index, .. } | ProcCase::Lsp { run_index, .. } => *run_index,
        }
    }
}

/// One line per server output that the properties make run-independent.
pub fn summarise_output(v: &Value) -> Option<String> {
    if v.get("method").and_then(|m| m.as_str()) == Some("textDocument/publishDiagnostics") {
        let p = &v["params"];
        let mut codes: Vec<String> = p["diagnostics"].as_array().map(|a| a.iter().map(|d| d["code"].as_str().unwrap_or("").to_string()).collect()).unwrap_or_default();
        codes.sort();
        return Some(format!("publish uri={} version={} codes={codes:?}", p["uri"].as_str().unwrap_or(""), p["version"]));
    }
    if v.get("id").is_some() && v.get("method").is_none() {
        let kind = if v.get("error").map(|e| !e.is_null()).unwrap_or(false) { "error" } else { "result" };
        return Some(format!("response id={} {kind}", v["id"]));
    }
    // whatever else a server chooses to send (log and show messages, progress, requests of its own) is
    // not constrained by the properties and may come at a moment that depends on real scheduling
    None
}

#[allow(dead_code)]
fn strip_ansi(s: &str) -> String {
    let mut out = String::new();
    let mut chars = s.chars().peekable();
    while let Some(c) = chars.next() {
        if c == '\u{1b}' {
            // skip until a letter terminates the sequence
            for d in chars.by_ref() {
                if d.is_ascii_alphabetic() {
                    break;
                }
            }
        } else {
            out.push(c);
        }
    }
    out
}

#[allow(dead_code)]
fn error_codes(stderr: &str) -> Vec<String> {
    let mut codes = vec![];
    for line in strip_ansi(stderr).lines() {
        if let Some(rest) = line.strip_prefix("error[") {
            if let Some(end) = rest.find(']') {
                codes.push(rest[..end].to_string());
            }
        }
    }
    codes.sort();
    codes
}

fn viol(prop: &str, what: &str, detail: String) -> Violation {
    Violation { property: prop.to_string(), signature: format!("{prop}/process-level-mismatch/{what}"), detail }
}

fn run_cli_case(prop: &str, bin: &Path, dir: &Path, case: &ProcCase) -> Option<Violation> {
    let ProcCase::Cli { label, files, symlinked, extras, unprivileged, cwd, cmd, args, predicted_ok, predicted_codes, .. } = case else { return None };
    let ws = dir.join("ws");
    std::fs::create_dir_all(&ws).ok()?;
    for (name, bytes) in files {
        let path = ws.join(name);
        if let Some(parent) = path.parent() {
            std::fs::create_dir_all(parent).ok()?;
        }
        if symlinked.contains(name) {
            let target = dir.join("store").join(name);
            if let Some(parent) = target.parent() {
                std::fs::create_dir_all(parent).ok()?;
            }
            std::fs::write(&target, bytes).ok()?;
            std::os::unix::fs::symlink(&target, &path).ok()?;
        } else {
            std::fs::write(path, bytes).ok()?;
        }
    }
    for e in extras {
        use crate::world::Extra;
        match e {
            Extra::EmptyDir(n) => {
                let _ = std::fs::create_dir_all(ws.join(n));
            }
            Extra::SubDirWithFile(n) => {
                let _ = std::fs::create_dir_all(ws.join(n));
                let _ = std::fs::write(ws.join(n).join("inner.st"), b"PROGRAM inner\nVAR\n k : INT;\nEND_VAR\nEND_PROGRAM\n");
            }
            Extra::DanglingSymlink(n) => {
                let _ = std::os::unix::fs::symlink("/nonexistent/simplc", ws.join(n));
            }
            Extra::SymlinkLoop(n) => {
                let _ = std::os::unix::fs::symlink(ws.join(n), ws.join(n));
            }
            Extra::SymlinkToFile(n, target) => {
                let _ = std::os::unix::fs::symlink(ws.join(target), ws.join(n));
            }
            Extra::SocketFile(n) => {
                let _ = std::os::unix::net::UnixListener::bind(ws.join(n));
            }
            Extra::Mode(..) => {}
        }
    }
    let tmp = dir.join("tmp");
    std::fs::create_dir_all(&tmp).ok()?;
    if *unprivileged {
        crate::seam::chown_tree(dir);
    }
    crate::world::apply_modes(&ws, extras);
    // stdout/stderr go to files so that a process that hangs can be killed without losing a reader
    let out_path = dir.join("stdout.txt");
    let err_path = dir.join("stderr.txt");
    let mut command = Command::new(bin);
    command.arg(cmd);
    match cwd {
        Some(c) => {
            command.args(args.iter().map(|a| crate::world::relative_arg(a, c))).current_dir(dir.join(c));
        }
        None => {
            command.args(args.iter().map(|a| dir.join(a)));
        }
    }
    command
        .env("TMPDIR", &tmp)
        .stdin(Stdio::null())
        .stdout(std::fs::File::create(&out_path).ok()?)
        .stderr(std::fs::File::create(&err_path).ok()?);
    if *unprivileged {
        use std::os::unix::process::CommandExt;
        command.uid(crate::seam::UNPRIVILEGED_ID).gid(crate::seam::UNPRIVILEGED_ID);
    }
    let mut child = command.spawn().ok()?;
    let status = match wait_with_deadline(&mut child, 60) {
        Some(s) => s,
        None => return Some(viol(prop, "hang", format!("`ironplcc {cmd} {args:?}` ({label}) did not terminate within 60 s and was killed"))),
    };
    let stdout = String::from_utf8_lossy(&std::fs::read(&out_path).unwrap_or_default()).to_string();
    let stderr = String::from_utf8_lossy(&std::fs::read(&err_path).unwrap_or_default()).to_string();
    let code = status.code();
    let exit_ok = code == Some(0);
    // the same tolerant reading of stdout/stderr as for the in-process capture
    let printed = crate::world::parse_printed(&stdout, &stderr);
    let mut codes = printed.codes.clone();
    codes.sort();
    codes.dedup();
    let mut predicted_set = predicted_codes.clone();
    predicted_set.sort();
    predicted_set.dedup();
    let describe = format!("`ironplcc {cmd} {args:?}` ({label}) exit={code:?} stdout-tail={:?} codes={codes:?}; in-process prediction: ok={predicted_ok} codes={predicted_codes:?}", stdout.lines().last().unwrap_or(""));
    // killed by a signal, or Rust's panic status: abnormal. Any other non-zero status is "failure"
    // (the property distinguishes zero from non-zero only).
    if code.is_none() || code == Some(101) {
        return Some(viol(prop, "abnormal-exit", describe));
    }
    if exit_ok != *predicted_ok {
        return Some(viol(prop, "exit-status", describe));
    }
    if cmd == "check" {
        let ok_line = printed.ok_line;
        if ok_line != exit_ok {
            return Some(viol(prop, "ok-line", describe));
        }
        if !exit_ok && codes.is_empty() {
            return Some(viol(prop, "no-coded-diagnostic", describe));
        }
        if exit_ok && !codes.is_empty() {
            return Some(viol(prop, "diagnostic-but-exit-0", describe));
        }
        // every code the in-process run handed to the renderer appears on the real stderr and vice
        // versa (how often is not constrained)
        if codes != predicted_set {
            return Some(viol(prop, "codes", describe));
        }
    }
    None
}

/// Waits for the child for at most `secs` seconds of wall clock (used for nothing else); kills it
/// and returns None if it is still running then.
fn wait_with_deadline(child: &mut std::process::Child, secs: u64) -> Option<std::process::ExitStatus> {
    let started = std::time::Instant::now();
    loop {
        match child.try_wait() {
            Ok(Some(s)) => return Some(s),
            Ok(None) if started.elapsed().as_secs() >= secs => {
                let _ = child.kill();
                let _ = child.wait();
                return None;
            }
            Ok(None) => std::thread::sleep(std::time::Duration::from_millis(5)),
            Err(_) => return None,
        }
    }
}

fn frame(v: &Value) -> Vec<u8> {
    let body = serde_json::to_vec(v).unwrap();
    let mut out = format!("Content-Length: {}\r\n\r\n", body.len()).into_bytes();
    out.extend(body);
    out
}

fn parse_frames(mut data: &[u8]) -> Vec<Value> {
    let mut out = vec![];
    loop {
        let Some(pos) = data.windows(4).position(|w| w == b"\r\n\r\n") else { break };
        let header = String::from_utf8_lossy(&data[..pos]).to_string();
        let len = header.lines().find_map(|l| l.strip_prefix("Content-Length: ").and_then(|n| n.trim().parse::<usize>().ok()));
        let Some(len) = len else { break };
        let start = pos + 4;
        if data.len() < start + len {
            break;
        }
        if let Ok(v) = serde_json::from_slice::<Value>(&data[start..start + len]) {
            out.push(v);
        }
        data = &data[start + len..];
    }
    out
}

fn run_lsp_case(prop: &str, bin: &Path, dir: &Path, case: &ProcCase) -> Option<Violation> {
    let ProcCase::Lsp { frames, predicted, predicted_exit_ok, .. } = case else { return None };
    let tmp = dir.join("tmp");
    std::fs::create_dir_all(&tmp).ok()?;
    let mut child = Command::new(bin).arg("lsp").arg("--stdio").env("TMPDIR", &tmp).stdin(Stdio::piped()).stdout(Stdio::piped()).stderr(Stdio::piped()).spawn().ok()?;
    // maximal pipelining: every frame is written at once (the opposite extreme of lockstep);
    // reading happens concurrently so that neither side can block on a full pipe
    let mut stdin = child.stdin.take()?;
    let mut stdout = child.stdout.take()?;
    let mut stderr = child.stderr.take()?;
    let mut input = vec![];
    for f in frames {
        input.extend(frame(f));
    }
    // transport-level variation, derived from the run index: everything at once (maximal
    // pipelining), one frame per write, or arbitrary chunks that cut headers and bodies anywhere
    let ri = case.run_index();
    let frame_lens: Vec<usize> = frames.iter().map(|f| frame(f).len()).collect();
    let writer = std::thread::spawn(move || {
        match ri % 3 {
            0 => {
                let _ = stdin.write_all(&input);
            }
            1 => {
                let mut at = 0;
                for l in frame_lens {
                    let _ = stdin.write_all(&input[at..at + l]);
                    let _ = stdin.flush();
                    at += l;
                }
            }
            _ => {
                let mut rng = crate::prng::Rng::new(ri);
                let mut at = 0;
                while at < input.len() {
                    let max = if rng.chance(1, 2) { 7 } else { 300 };
                    let n = (1 + rng.below(max)).min(input.len() - at);
                    let _ = stdin.write_all(&input[at..at + n]);
                    let _ = stdin.flush();
                    at += n;
                    if rng.chance(1, 8) {
                        std::thread::yield_now();
                    }
                }
            }
        }
        let _ = stdin.flush();
        // keep stdin open until the process has exited: closing it early would make the reader
        // thread of the server see EOF, which is not part of the recorded history
        stdin
    });
    let err_reader = std::thread::spawn(move || {
        let mut s = String::new();
        let _ = stderr.read_to_string(&mut s);
        s
    });
    let out_reader = std::thread::spawn(move || {
        let mut b = vec![];
        let _ = stdout.read_to_end(&mut b);
        b
    });
    let status = match wait_with_deadline(&mut child, 60) {
        Some(s) => s,
        None => {
            // killed: the pipes are closed now, the helper threads end on their own
            return Some(viol(prop, "lsp-hang", "the shipped binary did not terminate within 60 s after shutdown and exit had been written, and was killed".to_string()));
        }
    };
    drop(writer.join());
    let out_bytes = out_reader.join().unwrap_or_default();
    let err_text = err_reader.join().unwrap_or_default();
    let outputs = parse_frames(&out_bytes);
    let got: Vec<String> = outputs.iter().filter_map(summarise_output).collect();
    let describe = format!(
        "shipped binary over pipes: exit={:?}, outputs={got:?}, stderr-tail={:?}; in-process (lockstep) prediction: exit_ok={predicted_exit_ok}, outputs={predicted:?}",
        status.code(),
        err_text.lines().last().unwrap_or("")
    );
    if (status.code() == Some(0)) != *predicted_exit_ok {
        return Some(viol(prop, "lsp-exit-status", describe));
    }
    if got != *predicted {
        return Some(viol(prop, "lsp-outputs", describe));
    }
    None
}

/// Builds nothing: expects `bin` to exist. Returns (cases run, violations with the failing case).
pub fn run_cases(prop: &str, bin: &Path, cases: &[ProcCase]) -> (usize, Vec<(Violation, ProcCase)>) {
    let base = PathBuf::from(format!("/dev/shm/simplc-{}-proc", std::process::id()));
    let _ = std::fs::remove_dir_all(&base);
    let mut n = 0;
    let mut out = vec![];
    for (k, case) in cases.iter().enumerate() {
        let dir = base.join(format!("case{k}"));
        if std::fs::create_dir_all(&dir).is_err() {
            continue;
        }
        let v = match case {
            ProcCase::Cli { .. } => run_cli_case(prop, bin, &dir, case),
            ProcCase::Lsp { .. } => run_lsp_case(prop, bin, &dir, case),
        };
        n += 1;
        if let Some(v) = v {
            if !out.iter().any(|(o, _): &(Violation, ProcCase)| o.signature == v.signature) {
                out.push((v, case.clone()));
            }
        }
        let _ = std::fs::remove_dir_all(&dir);
    }
    let _ = std::fs::remove_dir_all(&base);
    (n, out)
}
