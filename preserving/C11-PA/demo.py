#!/usr/bin/env python3
"""Demonstration for a property-preserving change (property C11).

usage: demo.py [COMPILER_WORKSPACE] [--no-toggle]

COMPILER_WORKSPACE defaults to /tmp/mut4/C11/compiler. The script builds
`ironplcc` in that workspace, drives `ironplcc lsp --stdio` and `ironplcc
check` on a concrete example and checks the observables that property C11
talks about. Unless --no-toggle is given it does that twice, once without and
once with patch.diff (which lies next to this script) applied to the git
worktree that holds the workspace, prints both results side by side and then
puts the worktree back into the state in which it found it.

exit status: 0 when the observables of C11 hold on the example (in every
state that was run), 1 when they do not, 2 when the script could not run.
"""
import json
import os
import re
import shutil
import subprocess
import sys
import tempfile

HERE = os.path.dirname(os.path.abspath(__file__))
PATCH = os.path.join(HERE, "patch.diff")
ANSI = re.compile(r"\x1b\[[0-9;]*m")


def cargo_env():
    env = dict(os.environ)
    env["CARGO_NET_OFFLINE"] = "true"
    return env


def build(ws):
    r = subprocess.run(
        ["cargo", "build", "--offline", "-q", "-p", "ironplcc"],
        cwd=ws, env=cargo_env(), stdout=subprocess.PIPE, stderr=subprocess.STDOUT, text=True,
    )
    if r.returncode != 0:
        print(r.stdout)
        raise SystemExit(2)
    return os.path.join(ws, "target", "debug", "ironplcc")


class Lsp:
    """A client of `ironplcc lsp --stdio` that works in lock step.

    After every notification the client sends a request for a method the
    server does not know. The server answers requests in the order of
    arrival, so everything the server sent because of the notification has
    arrived when the (error) response to that request arrives.
    """

    def __init__(self, binary):
        self.p = subprocess.Popen([binary, "lsp", "--stdio"], stdin=subprocess.PIPE,
                                  stdout=subprocess.PIPE, stderr=subprocess.DEVNULL)
        self.next_id = 0
        self.request("initialize", {"processId": None, "rootUri": None, "capabilities": {}})
        self.send({"jsonrpc": "2.0", "method": "initialized", "params": {}})

    def send(self, msg):
        body = json.dumps(msg).encode("utf-8")
        self.p.stdin.write(b"Content-Length: %d\r\n\r\n" % len(body) + body)
        self.p.stdin.flush()

    def recv(self):
        length = None
        while True:
            line = self.p.stdout.readline()
            if not line:
                raise RuntimeError("server closed the connection")
            line = line.strip()
            if not line:
                break
            name, _, value = line.partition(b":")
            if name.lower() == b"content-length":
                length = int(value)
        return json.loads(self.p.stdout.read(length).decode("utf-8"))

    def request(self, method, params):
        """Sends a request; returns (messages before the response, response)."""
        self.next_id += 1
        rid = self.next_id
        self.send({"jsonrpc": "2.0", "id": rid, "method": method, "params": params})
        before = []
        while True:
            msg = self.recv()
            if msg.get("id") == rid and "method" not in msg:
                return before, msg
            before.append(msg)

    def notify(self, method, params):
        """Sends a notification; returns all messages it caused."""
        self.send({"jsonrpc": "2.0", "method": method, "params": params})
        caused, _ = self.request("demo/barrier", {})
        return caused

    def open(self, uri, version, text):
        return self.notify("textDocument/didOpen", {"textDocument": {
            "uri": uri, "languageId": "iec61131-3", "version": version, "text": text}})

    def change(self, uri, version, text):
        return self.notify("textDocument/didChange", {
            "textDocument": {"uri": uri, "version": version},
            "contentChanges": [{"text": text}]})

    def close(self):
        try:
            self.request("shutdown", None)
            self.send({"jsonrpc": "2.0", "method": "exit"})
            self.p.stdin.close()
            self.p.wait(timeout=20)
        except Exception:
            self.p.kill()


def publishes_for(messages, uri):
    return [m["params"] for m in messages
            if m.get("method") == "textDocument/publishDiagnostics" and m["params"]["uri"] == uri]


def key(diagnostic):
    """Problem code and start position of an LSP diagnostic."""
    s = diagnostic["range"]["start"]
    return (diagnostic["code"], s["line"], s["character"])


def run_check(binary, root, docs):
    """Runs `ironplcc check` on files with the contents of docs (name -> text).

    Returns (exit code, {name: [(code, line, character), ...]} in the order of
    the report, positions zero based like the ones of the protocol)."""
    for name, text in docs.items():
        with open(os.path.join(root, name), "w", encoding="utf-8", newline="") as f:
            f.write(text)
    paths = [os.path.join(root, name) for name in sorted(docs)]
    r = subprocess.run([binary, "check"] + paths, stdout=subprocess.PIPE, stderr=subprocess.PIPE, text=True)
    report = {name: [] for name in docs}
    code = None
    for line in ANSI.sub("", r.stderr).splitlines():
        m = re.match(r"^error\[(\w+)\]", line)
        if m:
            code = m.group(1)
            continue
        m = re.match(r"^\s*┌─ (.*):(\d+):(\d+)$", line)
        if m and code is not None:
            name = os.path.basename(m.group(1))
            if name in report:
                report[name].append((code, int(m.group(2)) - 1, int(m.group(3)) - 1))
            code = None
    for name in docs:
        os.remove(os.path.join(root, name))
    return r.returncode, report


def uri_of(root, name):
    return "file://" + os.path.join(root, name)


def observe(binary, root, history):
    """Runs the history ([(kind, name, version, text)]) against one server and
    checks the observables of C11 after every step.

    Returns (steps, violations); steps holds what was seen at every step."""
    violations = []
    steps = []
    docs = {}
    server = Lsp(binary)
    try:
        for number, (kind, name, version, text) in enumerate(history, 1):
            uri = uri_of(root, name)
            docs[name] = text
            caused = server.open(uri, version, text) if kind == "open" else server.change(uri, version, text)
            mine = publishes_for(caused, uri)
            where = "step %d (%s %s v%d)" % (number, kind, name, version)

            # exactly one publishDiagnostics for that document, with the version
            if len(mine) != 1:
                violations.append("%s: %d publishDiagnostics for the document" % (where, len(mine)))
                steps.append({"where": where, "caused": caused, "published": None})
                continue
            published = mine[0]
            if published.get("version") != version:
                violations.append("%s: version %r" % (where, published.get("version")))

            # equals what a fresh server publishes when the document is opened
            # last, after all other open documents with their current contents
            fresh = Lsp(binary)
            try:
                for other in sorted(docs):
                    if other != name:
                        fresh.open(uri_of(root, other), 1, docs[other])
                fresh_mine = publishes_for(fresh.open(uri, version, text), uri)
            finally:
                fresh.close()
            if len(fresh_mine) != 1 or fresh_mine[0]["diagnostics"] != published["diagnostics"]:
                violations.append("%s: differs from a fresh server" % where)

            # same problem codes and start positions as `ironplcc check`
            status, report = run_check(binary, root, docs)
            lsp_keys = [key(d) for d in published["diagnostics"]]
            if sorted(lsp_keys) != sorted(report[name]):
                violations.append("%s: lsp %r but check %r" % (where, lsp_keys, report[name]))

            steps.append({"where": where, "caused": caused, "published": published,
                          "check": report[name], "check_status": status})
    finally:
        server.close()
    return steps, violations


def git_root(ws):
    r = subprocess.run(["git", "-C", ws, "rev-parse", "--show-toplevel"], stdout=subprocess.PIPE, text=True)
    if r.returncode != 0:
        raise SystemExit(2)
    return r.stdout.strip()


def patch_applies(root, reverse):
    cmd = ["git", "-C", root, "apply", "--check"] + (["-R"] if reverse else []) + [PATCH]
    return subprocess.run(cmd, stdout=subprocess.DEVNULL, stderr=subprocess.DEVNULL).returncode == 0


def set_patched(root, want, have):
    if want != have:
        cmd = ["git", "-C", root, "apply"] + ([] if want else ["-R"]) + [PATCH]
        subprocess.run(cmd, check=True)
    return want


def main(show):
    """show(label, binary, tmp) runs the example and returns the violations."""
    args = [a for a in sys.argv[1:] if not a.startswith("--")]
    ws = os.path.abspath(args[0] if args else "/tmp/mut4/C11/compiler")
    toggle = "--no-toggle" not in sys.argv
    root = git_root(ws)
    if patch_applies(root, reverse=True):
        original = True
    elif patch_applies(root, reverse=False):
        original = False
    else:
        print("patch.diff neither applies to nor is applied in", root)
        raise SystemExit(2)

    tmp = tempfile.mkdtemp(prefix="c11demo.")
    violations = []
    state = original
    try:
        for want in ([False, True] if toggle else [original]):
            state = set_patched(root, want, state)
            binary = build(ws)
            label = "WITH patch" if want else "WITHOUT patch (HEAD)"
            print("=" * 72)
            print(label)
            print("=" * 72)
            found = show(label, binary, tmp)
            for v in found:
                print("C11 VIOLATED:", v)
            if not found:
                print("C11 observables hold on the example (%s)" % label)
            violations += found
    finally:
        set_patched(root, original, state)
        shutil.rmtree(tmp, ignore_errors=True)
    print("=" * 72)
    print("RESULT:", "property C11 holds on the example" if not violations else "property C11 VIOLATED")
    raise SystemExit(0 if not violations else 1)


A_BAD = """TYPE
  LEVEL : (LOW, HIGH) := LOW;
  POINT : STRUCT
    x : INT;
    x : INT;
  END_STRUCT;
END_TYPE
"""
A_SYNTAX = """TYPE
  LEVEL : (LOW, HIGH := LOW;
END_TYPE
"""
A_GOOD = """TYPE
  LEVEL : (LOW, HIGH) := LOW;
END_TYPE
"""
B_USER = """FUNCTION_BLOCK USER
VAR
  lvl : LEVEL;
  missing : UNKNOWN_TYPE;
END_VAR
END_FUNCTION_BLOCK
"""

HISTORY = [
    ("open", "a.st", 1, A_BAD),
    ("open", "b.st", 1, B_USER),
    ("change", "a.st", 2, A_SYNTAX),
    ("change", "a.st", 3, A_GOOD),
    ("change", "b.st", 2, B_USER),
]


def show(label, binary, tmp):
    steps, violations = observe(binary, tmp, HISTORY)
    for step in steps:
        print(step["where"])
        if step["published"] is None:
            continue
        for d in step["published"]["diagnostics"]:
            r = d["range"]
            print("   %s  %d:%d-%d:%d  message=%r" % (
                d["code"], r["start"]["line"], r["start"]["character"],
                r["end"]["line"], r["end"]["character"], d["message"]))
            for rel in d.get("relatedInformation") or []:
                rr = rel["location"]["range"]
                print("        related: %s %d:%d-%d:%d %r" % (
                    os.path.basename(rel["location"]["uri"]), rr["start"]["line"], rr["start"]["character"],
                    rr["end"]["line"], rr["end"]["character"], rel["message"]))
        print("   check (code, line, character):", step["check"])
    return violations


if __name__ == "__main__":
    main(show)
