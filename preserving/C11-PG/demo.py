#!/usr/bin/env python3
"""Demonstration for preserving change C (work done progress around every analysis:
window/workDoneProgress/create request, $/progress begin and end) for a client
that declares `window.workDoneProgress`.

usage: demo.py [COMPILER_WORKSPACE]      (default /tmp/mut6/C11/compiler)

Builds `ironplcc` from the workspace as it is, plays a history of didOpen and
didChange notifications over two documents against `ironplcc lsp --stdio` and

  * prints every message the server sends (so the feature is visible),
  * checks the observables that property C11 states:
      1. every didOpen/didChange is answered by exactly one publishDiagnostics
         for that document, carrying the version of the notification,
      2. its diagnostics equal what a freshly started server publishes for the
         document when it is opened last, after the other open documents,
      3. they carry the codes and start positions `ironplcc check` reports for
         that file when run on files with the same contents.

Exit status 0 when the three observables hold on the example.
Only writes below a `mktemp -d` style directory, which is removed at the end.
"""
import json
import os
import queue
import re
import shutil
import subprocess
import sys
import tempfile
import threading

WORKSPACE = sys.argv[1] if len(sys.argv) > 1 else "/tmp/mut6/C11/compiler"
CLIENT_CAPABILITIES = {"window": {"workDoneProgress": True}}

SEMANTIC_ERROR = "PROGRAM main\nVAR\n  x : INT;\nEND_VAR\n  y := 1;\nEND_PROGRAM\n"
DEPENDS = "PROGRAM user\nVAR\n  f : MyFb;\nEND_VAR\nEND_PROGRAM\n"
PROVIDES = "FUNCTION_BLOCK MyFb\nVAR\n  x : INT;\nEND_VAR\nEND_FUNCTION_BLOCK\n"
SYNTAX_ERROR = "PROGRAM p2\nVAR\n  x : INT\nEND_VAR\nEND_PROGRAM\n"
LEXICAL_ERROR = "PROGRAM p3\nVAR\n  x : INT;\nEND_VAR\n  x := 1 ? 2;\nEND_PROGRAM\n"
VALID = "PROGRAM ok\nVAR\n  x : INT;\nEND_VAR\n  x := 1;\nEND_PROGRAM\n"

# (kind, document, version, text)
HISTORY = [
    ("open", "a", 1, SEMANTIC_ERROR),
    ("open", "b", 1, DEPENDS),
    ("change", "a", 2, PROVIDES),
    ("change", "b", 2, SYNTAX_ERROR),
    ("change", "a", 3, LEXICAL_ERROR),
    ("change", "b", 7, VALID),
    ("change", "a", 4, VALID.replace("ok", "ok2")),
]


class Server:
    """A language server process and everything it sent."""

    def __init__(self, binary, env, capabilities):
        self.proc = subprocess.Popen(
            [binary, "lsp", "--stdio"], stdin=subprocess.PIPE, stdout=subprocess.PIPE, env=env
        )
        self.inbox = queue.Queue()
        self.next_id = 0
        self.requests_from_server = []
        threading.Thread(target=self._read, daemon=True).start()
        init = self.request(
            "initialize", {"processId": None, "rootUri": None, "capabilities": capabilities}
        )
        assert "capabilities" in init["result"], init
        self.notify("initialized", {})

    def _read(self):
        out = self.proc.stdout
        while True:
            length = None
            while True:
                line = out.readline()
                if not line:
                    self.inbox.put(None)
                    return
                line = line.strip()
                if not line:
                    break
                if line.lower().startswith(b"content-length:"):
                    length = int(line.split(b":")[1])
            self.inbox.put(json.loads(out.read(length)))

    def _send(self, msg):
        body = json.dumps(msg).encode()
        self.proc.stdin.write(b"Content-Length: %d\r\n\r\n" % len(body) + body)
        self.proc.stdin.flush()

    def notify(self, method, params):
        self._send({"jsonrpc": "2.0", "method": method, "params": params})

    def request(self, method, params):
        """Sends a request and returns its response. Everything else that
        arrives before the response is kept in `self.seen`; requests of the
        server are answered with a null result."""
        self.next_id += 1
        ident = self.next_id
        self._send({"jsonrpc": "2.0", "id": ident, "method": method, "params": params})
        self.seen = []
        while True:
            msg = self.inbox.get(timeout=60)
            assert msg is not None, "server closed its output"
            if "method" in msg and "id" in msg:
                self.requests_from_server.append(msg)
                self.seen.append(msg)
                self._send({"jsonrpc": "2.0", "id": msg["id"], "result": None})
            elif "method" in msg:
                self.seen.append(msg)
            elif msg.get("id") == ident:
                return msg
            else:
                raise AssertionError("unexpected response %r" % msg)

    def barrier(self):
        """The server handles messages one at a time and in order, so when the
        answer to this (unknown) request arrives, everything the preceding
        notification caused has been sent. Returns those messages."""
        response = self.request("demo/barrier", {})
        assert response["error"]["code"] == -32601, response
        return self.seen

    def text_document(self, kind, uri, version, text):
        if kind == "open":
            self.notify(
                "textDocument/didOpen",
                {"textDocument": {"uri": uri, "languageId": "61131-3-st", "version": version, "text": text}},
            )
        else:
            self.notify(
                "textDocument/didChange",
                {"textDocument": {"uri": uri, "version": version}, "contentChanges": [{"text": text}]},
            )
        return self.barrier()

    def stop(self):
        self.request("shutdown", None)
        self.notify("exit", None)
        self.proc.stdin.close()
        self.proc.wait(timeout=60)


def short(msg):
    if msg.get("method") == "textDocument/publishDiagnostics":
        p = msg["params"]
        return "publishDiagnostics %s v%s %s" % (
            os.path.basename(p["uri"]),
            p.get("version"),
            [(d["code"], d["range"]["start"]["line"], d["range"]["start"]["character"]) for d in p["diagnostics"]],
        )
    kind = "REQUEST " if "id" in msg else ""
    return "%s%s %s" % (kind, msg["method"], json.dumps(msg.get("params"), sort_keys=True))


def check_codes(binary, env, directory, contents):
    """Runs `ironplcc check` on files with the contents of the open documents;
    returns for each file the sorted (code, line, column) it reports, 0-based."""
    shutil.rmtree(directory, ignore_errors=True)
    os.makedirs(directory)
    paths = {}
    for name, text in sorted(contents.items()):
        paths[name] = os.path.join(directory, name + ".st")
        with open(paths[name], "w") as f:
            f.write(text)
    done = subprocess.run([binary, "check"] + sorted(paths.values()), capture_output=True, text=True, env=env)
    plain = re.sub(r"\x1b\[[0-9;]*m", "", done.stderr)
    found = {name: [] for name in contents}
    code = None
    for line in plain.splitlines():
        m = re.match(r"^error\[(\w+)\]", line)
        if m:
            code = m.group(1)
            continue
        m = re.match(r"^\s*┌─ (.*):(\d+):(\d+)$", line)
        if m and code:
            for name, path in paths.items():
                if os.path.realpath(m.group(1)) == os.path.realpath(path):
                    found[name].append((code, int(m.group(2)) - 1, int(m.group(3)) - 1))
            code = None
    return {name: sorted(v) for name, v in found.items()}


def feature(all_messages, answers):
    """What this change adds: requests of the server and $/progress."""
    creates = [m for m in all_messages if m.get("method") == "window/workDoneProgress/create" and "id" in m]
    progress = [m for m in all_messages if m.get("method") == "$/progress"]
    print("FEATURE window/workDoneProgress/create requests from the server: %d" % len(creates))
    print("FEATURE $/progress notifications: %d" % len(progress))
    for m in creates:
        print("    id=%r %s" % (m["id"], json.dumps(m["params"], sort_keys=True)))


def main():
    tmp = tempfile.mkdtemp(prefix="c11demo.")
    ok = True
    try:
        env = dict(os.environ, TMPDIR=tmp, CARGO_NET_OFFLINE="true")
        subprocess.run(
            ["cargo", "build", "-q", "-p", "ironplcc", "--offline"], cwd=WORKSPACE, env=env, check=True
        )
        binary = os.path.join(WORKSPACE, "target", "debug", "ironplcc")
        docs = os.path.join(tmp, "docs")
        os.makedirs(docs)
        uri = {n: "file://" + os.path.join(docs, n + ".st") for n in ("a", "b")}

        server = Server(binary, env, CLIENT_CAPABILITIES)
        contents = {}
        all_messages = []
        answers = []
        for step, (kind, name, version, text) in enumerate(HISTORY, 1):
            contents[name] = text
            print("step %d: did%s %s v%d" % (step, kind.capitalize(), name, version))
            seen = server.text_document(kind, uri[name], version, text)
            all_messages += seen
            for m in seen:
                print("    <-", short(m))

            # 1. exactly one publishDiagnostics for the document, with the version
            mine = [
                m
                for m in seen
                if m.get("method") == "textDocument/publishDiagnostics" and m["params"]["uri"] == uri[name]
            ]
            if len(mine) != 1 or mine[0]["params"].get("version") != version:
                print("    FAIL (1): expected exactly one publishDiagnostics with version %d" % version)
                ok = False
                continue
            answer = mine[0]["params"]
            answers.append(answer)

            # 2. a fresh server, the other documents first, this one last
            fresh = Server(binary, env, CLIENT_CAPABILITIES)
            for other in sorted(contents):
                if other != name:
                    fresh.text_document("open", uri[other], 1, contents[other])
            fresh_seen = fresh.text_document("open", uri[name], version, text)
            fresh.stop()
            fresh_mine = [
                m["params"]
                for m in fresh_seen
                if m.get("method") == "textDocument/publishDiagnostics" and m["params"]["uri"] == uri[name]
            ]
            if len(fresh_mine) != 1 or fresh_mine[0] != answer:
                print("    FAIL (2): differs from a fresh server: %r" % fresh_mine)
                ok = False
            else:
                print("    ok (2): identical publishDiagnostics params from a fresh server")

            # 3. codes and start positions of `check`
            expected = check_codes(binary, env, docs, contents)[name]
            got = sorted(
                (d["code"], d["range"]["start"]["line"], d["range"]["start"]["character"])
                for d in answer["diagnostics"]
            )
            if got != expected:
                print("    FAIL (3): check reports %r" % expected)
                ok = False
            else:
                print("    ok (3): check reports %r" % expected)
        server.stop()
        feature(all_messages, answers)
    finally:
        shutil.rmtree(tmp, ignore_errors=True)
    print("PROPERTY OBSERVABLES HOLD" if ok else "PROPERTY OBSERVABLES VIOLATED")
    return 0 if ok else 1


if __name__ == "__main__":
    sys.exit(main())
