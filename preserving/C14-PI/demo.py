#!/usr/bin/env python3
"""Demo for change C (unprintable characters are written as escapes in messages
and in the token listing).

usage: demo.py <path of the compiler workspace>   (binary: $1/target/debug/ironplcc)

For every byte value 0x00-0xFF the character that the byte stands for in
Windows-1252 is placed (a) between two tokens and (b) inside an identifier of
a program that has non-ASCII characters in a comment and a string. Each text is
stored in five encodings and checked with `check`; a few of them are also
listed with `tokenize`. The script prints the messages for some interesting
characters, counts the messages that carry a raw control character, and checks
the property C14 on everything it ran:
  * for one and the same text the five encodings give the same exit status,
    the same problem codes, the same line:column positions (and the same
    message text),
  * every reported line:column lies inside the decoded text,
  * no run crashes (exit status 0 or 1, no panic text).
Exits 0 when all of that holds (with and without the change).
"""
import os
import re
import shutil
import subprocess
import sys
import tempfile

ANSI = re.compile(r"\x1b\[[0-9;]*m")
HEAD = re.compile(r"^error\[(P\d+)\]", re.M)
WHERE = re.compile(r"┌─ ([^:\n]*):(\d+):(\d+)")
LEXMSG = re.compile(r"The text '(.*?)' is not valid IEC 61131-3 text at line (\d+) colum (\d+)\.", re.S)
SYNMSG = re.compile(r"Found text '(.*?)' that matched token", re.S)

# The five bytes that Windows-1252 leaves undefined stand for the C1 control
# with the same number (WHATWG, encoding_rs).
UNDEFINED_1252 = {0x81, 0x8D, 0x8F, 0x90, 0x9D}


def char_of_byte(b):
    if b in UNDEFINED_1252:
        return chr(b)
    return bytes([b]).decode("cp1252")


def to_1252(text):
    out = bytearray()
    for c in text:
        if ord(c) in UNDEFINED_1252:
            out.append(ord(c))
        else:
            out += c.encode("cp1252")
    return bytes(out)


ENCODINGS = [
    ("utf-8", lambda t: t.encode("utf-8")),
    ("utf-8-bom", lambda t: b"\xef\xbb\xbf" + t.encode("utf-8")),
    ("utf-16le-bom", lambda t: b"\xff\xfe" + t.encode("utf-16-le")),
    ("utf-16be-bom", lambda t: b"\xfe\xff" + t.encode("utf-16-be")),
    ("windows-1252", to_1252),
]

TEMPLATE = (
    "(* Größe in € – Maß *)\n"
    "PROGRAM main\n"
    "VAR\n"
    "  s : STRING := 'café über';\n"
    "  co%sunt :%sINT;\n"
    "END_VAR\n"
    "END_PROGRAM\n"
)
PLACES = [
    ("between-tokens", lambda c: TEMPLATE % ("", c)),
    ("in-identifier", lambda c: TEMPLATE % (c, " ")),
]
SHOW = [0x00, 0x07, 0x08, 0x0D, 0x1A, 0x1B, 0x3F, 0x7F, 0x80, 0x81, 0xA0, 0xAD, 0xE9]


def run(binary, command, path):
    p = subprocess.run([binary, command, path], capture_output=True, timeout=120)
    out = p.stdout.decode("utf-8", "replace")
    err = ANSI.sub("", p.stderr.decode("utf-8", "replace"))
    return p.returncode, out, err


def diagnostics(err, path):
    """[(code, line, column)] for the problems in the order reported."""
    found = []
    codes = HEAD.findall(err)
    wheres = WHERE.findall(err)
    for code, (name, line, col) in zip(codes, wheres):
        if name == path:
            found.append((code, int(line), int(col)))
        else:
            found.append((code, None, None))
    if len(codes) != len(wheres):
        found.append(("UNPARSED", None, None))
    return found


def messages(err):
    return [m.group(0) for m in LEXMSG.finditer(err)] + [m.group(0) for m in SYNMSG.finditer(err)]


def show(text):
    """The text with each raw control character made visible as <raw U+XXXX>."""
    return "".join(
        "<raw U+%04X>" % ord(c) if (ord(c) < 0x20 or 0x7F <= ord(c) <= 0x9F) else c for c in text
    )


def has_raw_control(text):
    return any((ord(c) < 0x20 and c != "\n") or 0x7F <= ord(c) <= 0x9F for c in text)


def main():
    binary = os.path.join(sys.argv[1], "target", "debug", "ironplcc")
    ok = True
    raw = 0
    total = 0
    work = tempfile.mkdtemp(prefix="c14-demo-c-")
    try:
        for pname, place in PLACES:
            for b in range(256):
                c = char_of_byte(b)
                text = place(c)
                lines = text.split("\n")
                results = []
                for ename, enc in ENCODINGS:
                    path = os.path.join(work, "%s_%02x_%s.st" % (pname, b, ename))
                    with open(path, "wb") as f:
                        f.write(enc(text))
                    path = os.path.realpath(path)
                    status, out, err = run(binary, "check", path)
                    diags = diagnostics(err, path)
                    msgs = messages(err)
                    if status not in (0, 1) or "panicked" in err:
                        print("CRASH", pname, hex(b), ename, status, repr(err))
                        ok = False
                    if (status == 0) != (len(diags) == 0):
                        print("VERDICT WITHOUT DIAGNOSTIC", pname, hex(b), ename, status, repr(err))
                        ok = False
                    for code, line, col in diags:
                        if code == "UNPARSED":
                            print("UNPARSED OUTPUT", pname, hex(b), ename, repr(err))
                            ok = False
                        if line is None:
                            continue
                        if not (1 <= line <= len(lines) and 1 <= col <= len(lines[line - 1]) + 1):
                            print("POSITION OUTSIDE TEXT", pname, hex(b), ename, code, line, col)
                            ok = False
                    for m in LEXMSG.finditer(err):
                        # the position named in the text of the message (0-based line
                        # + 1, byte column + 1) is inside the text as well
                        l, k = int(m.group(2)), int(m.group(3))
                        if not (1 <= l <= len(lines) and 1 <= k <= len(lines[l - 1].encode("utf-8")) + 1):
                            print("MESSAGE POSITION OUTSIDE TEXT", pname, hex(b), ename, l, k)
                            ok = False
                    results.append((status, diags, msgs))
                    os.unlink(path)
                same = all(r == results[0] for r in results)
                if not same:
                    print("ENCODINGS DIFFER", pname, hex(b), repr(results))
                    ok = False
                status, diags, msgs = results[0]
                total += len(msgs)
                raw += sum(1 for m in msgs if has_raw_control(m))
                if b in SHOW:
                    print(
                        "%-14s byte 0x%02X (U+%04X) exit=%d %s %s"
                        % (pname, b, ord(c), status, ["%s@%s:%s" % d for d in diags], " / ".join(show(m) for m in msgs))
                    )
        # the token listing
        for b in (0x1B, 0xA0):
            text = PLACES[0][1](char_of_byte(b))
            listings = []
            for ename, enc in ENCODINGS:
                path = os.path.join(work, "list_%02x_%s.st" % (b, ename))
                with open(path, "wb") as f:
                    f.write(enc(text))
                status, out, err = run(binary, "tokenize", os.path.realpath(path))
                if status not in (0, 1) or "panicked" in err:
                    ok = False
                listings.append((status, out))
            if not all(l == listings[0] for l in listings):
                print("TOKEN LISTINGS DIFFER", hex(b))
                ok = False
        # a token that contains unprintable characters (a comment) as listed
        text = "(* a\x1b[2Jb c\r\nd *)\nPROGRAM main\nEND_PROGRAM\n"
        listings = []
        for ename, enc in ENCODINGS:
            path = os.path.join(work, "list_comment_%s.st" % ename)
            with open(path, "wb") as f:
                f.write(enc(text))
            status, out, err = run(binary, "tokenize", os.path.realpath(path))
            if status not in (0, 1) or "panicked" in err:
                ok = False
            listings.append((status, out.split("\n")[0]))
        if not all(l == listings[0] for l in listings):
            print("TOKEN LISTINGS DIFFER (comment)", listings)
            ok = False
        print("tokenize, first token of a comment with ESC, no-break space, CR LF: exit=%d %s" % (listings[0][0], show(listings[0][1])))
    finally:
        shutil.rmtree(work, ignore_errors=True)
    print("%d of %d messages (one per text, equal in all five encodings) carry a raw control character" % (raw, total))
    print("property C14 holds on what was tried" if ok else "PROPERTY C14 VIOLATED")
    return 0 if ok else 1


if __name__ == "__main__":
    sys.exit(main())
