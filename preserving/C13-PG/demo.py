#!/usr/bin/env python3
"""Change A: which problem code a missing / forbidden path gets.

usage: demo.py <compiler workspace>      (binary: $1/target/debug/ironplcc)

Prints, for a number of missing and unreadable paths, the exit status and the
problem codes that `ironplcc check|echo|tokenize` report, and verifies the
command-line contract on every run:

  check: exit 0  <=>  a line `OK` on stdout  <=>  no coded diagnostic on stderr
         exit != 0  =>  at least one `error[Pnnnn]` on stderr and no OK
  check <dir> has the same verdict as check <the files in dir>
  echo / tokenize fail when a given path cannot be read

Exit status 0: the contract held on everything tried (with or without the
change); 1: it did not.
"""
import os
import re
import shutil
import subprocess
import sys
import tempfile

ANSI = re.compile(r"\x1b\[[0-9;]*m")
CODE = re.compile(r"error\[(P\d{4})\]")

GOOD = """FUNCTION_BLOCK FB_%s
VAR
  x : INT;
END_VAR
x := 1;
END_FUNCTION_BLOCK
"""

failures = []
# ironplcc writes a log file below the temporary directory; the demoted
# process gets one of its own.
ENV = dict(os.environ)


def demote():
    # Permission faults only exist for ordinary users.
    if os.geteuid() == 0:
        os.setgroups([])
        os.setgid(65534)
        os.setuid(65534)


def run(binary, *args):
    p = subprocess.run([binary, *args], stdout=subprocess.PIPE, stderr=subprocess.PIPE,
                       preexec_fn=demote, timeout=120, env=ENV)
    out = p.stdout.decode("utf-8", "replace")
    err = ANSI.sub("", p.stderr.decode("utf-8", "replace"))
    return p.returncode, out, err


def contract(label, binary, *args):
    """Runs `check` and verifies that status, OK line and diagnostics agree."""
    rc, out, err = run(binary, "check", *args)
    ok_line = any(line.strip() == "OK" for line in out.splitlines())
    codes = CODE.findall(err)
    print("  %-46s exit=%d OK=%-5s codes=%s" % (label, rc, ok_line, ",".join(codes) or "-"))
    if rc < 0:
        failures.append("%s: killed by signal %d" % (label, -rc))
    if (rc == 0) != ok_line:
        failures.append("%s: exit status %d but OK line %s" % (label, rc, ok_line))
    if (rc == 0) != (not codes):
        failures.append("%s: exit status %d but diagnostics %s" % (label, rc, codes))
    if "panicked" in err:
        failures.append("%s: panic" % label)
    return rc, codes


def main():
    ws = sys.argv[1]
    binary = os.path.join(ws, "target", "debug", "ironplcc")
    top = tempfile.mkdtemp(prefix="c13-A-")
    try:
        os.chmod(top, 0o755)
        os.mkdir(os.path.join(top, "tmp"))
        os.chmod(os.path.join(top, "tmp"), 0o777)
        ENV["TMPDIR"] = os.path.join(top, "tmp")
        good = os.path.join(top, "good.st")
        with open(good, "w") as f:
            f.write(GOOD % "GOOD")

        print("single paths")
        contract("valid file", binary, good)
        contract("missing path", binary, os.path.join(top, "missing.st"))
        contract("missing path below a file", binary, os.path.join(good, "x.st"))
        dangling = os.path.join(top, "dangling.st")
        os.symlink("nowhere.st", dangling)
        contract("dangling symbolic link", binary, dangling)

        secret = os.path.join(top, "secret.st")
        with open(secret, "w") as f:
            f.write(GOOD % "SECRET")
        os.chmod(secret, 0o000)
        contract("file without read permission", binary, secret)

        closed = os.path.join(top, "closed")
        os.mkdir(closed)
        with open(os.path.join(closed, "in.st"), "w") as f:
            f.write(GOOD % "IN")
        os.chmod(closed, 0o000)
        contract("directory without any permission", binary, closed)
        contract("file in a directory without permission", binary, os.path.join(closed, "in.st"))
        os.chmod(closed, 0o600)
        contract("directory without search permission", binary, closed)
        os.chmod(closed, 0o300)
        contract("directory without read permission", binary, closed)
        contract("file in a directory without read perm.", binary, os.path.join(closed, "in.st"))
        os.chmod(closed, 0o755)

        print("mixtures, both orders")
        for a, b in ((good, dangling), (good, secret), (secret, dangling)):
            r1, c1 = contract("%s + %s" % (os.path.basename(a), os.path.basename(b)), binary, a, b)
            r2, c2 = contract("%s + %s" % (os.path.basename(b), os.path.basename(a)), binary, b, a)
            if (r1 == 0) != (r2 == 0) or sorted(c1) != sorted(c2):
                failures.append("argument order changes the result for %s, %s" % (a, b))

        print("a directory against the list of the files in it")
        for name, populate in (
            ("plain", lambda d: None),
            ("with-dangling-link", lambda d: os.symlink("nowhere.st", os.path.join(d, "z.st"))),
            ("with-unreadable-file", lambda d: (open(os.path.join(d, "z.st"), "w").write(GOOD % "Z"),
                                                os.chmod(os.path.join(d, "z.st"), 0o000))),
        ):
            d = os.path.join(top, name)
            os.mkdir(d)
            os.chmod(d, 0o755)
            with open(os.path.join(d, "a.st"), "w") as f:
                f.write(GOOD % "A")
            populate(d)
            members = sorted(os.path.join(d, n) for n in os.listdir(d))
            r1, _ = contract("%s as directory" % name, binary, d)
            r2, _ = contract("%s as list" % name, binary, *members)
            r3, _ = contract("%s as reversed list" % name, binary, *reversed(members))
            if not ((r1 == 0) == (r2 == 0) == (r3 == 0)):
                failures.append("%s: directory and list of files disagree" % name)

        print("echo / tokenize with a path that cannot be read")
        for cmd in ("echo", "tokenize"):
            rc, out, err = run(binary, cmd, good)
            print("  %-46s exit=%d" % (cmd + " valid file", rc))
            if rc != 0:
                failures.append("%s fails on a valid file" % cmd)
            for label, path in (("missing path", os.path.join(top, "missing.st")),
                                ("dangling link", dangling),
                                ("unreadable file", secret)):
                for args in ((path,), (good, path), (path, good)):
                    rc, out, err = run(binary, cmd, *args)
                    codes = CODE.findall(err)
                    print("  %-46s exit=%d codes=%s" % ("%s %s (%d args)" % (cmd, label, len(args)),
                                                        rc, ",".join(codes) or "-"))
                    if rc == 0 or rc < 0 or not codes:
                        failures.append("%s %s: exit %d, codes %s" % (cmd, label, rc, codes))
    finally:
        for root, dirs, files in os.walk(top):
            for n in dirs + files:
                p = os.path.join(root, n)
                if not os.path.islink(p):
                    os.chmod(p, 0o755)
        shutil.rmtree(top, ignore_errors=True)

    if failures:
        print("CONTRACT BROKEN:")
        for f in failures:
            print("  " + f)
        return 1
    print("contract holds on everything tried")
    return 0


if __name__ == "__main__":
    sys.exit(main())
