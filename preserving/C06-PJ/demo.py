#!/usr/bin/env python3
"""Demo for change A (result cache on disk for `check`).

usage: demo.py <compiler workspace directory>   (binary: $1/target/debug/ironplcc)

Prints what is visibly different (files kept under $TMPDIR/ironplcc/cache and
whether a second run of the same set reads them) and checks property C06
around the changed behaviour: the verdict, and for the unit with one fault
also the problem code and the place, are the same for every order of the
declarations, every partition into files, every order of arguments, every
run (with a warm cache, with a cold cache, with a damaged cache) and follow
the files when they change on disk between runs.

Exit status 0: the property held on everything that was tried.
"""
import itertools
import os
import random
import re
import shutil
import subprocess
import sys
import tempfile

BIN = os.path.join(os.path.abspath(sys.argv[1]), "target", "debug", "ironplcc")

DECLS = [
    # (name, text)
    ("level", """(* Stufe — 段階 *)
TYPE
  Level : (LOW, HIGH) := LOW;
END_TYPE
"""),
    ("counter", """FUNCTION_BLOCK Counter
VAR_INPUT
  Reset : BOOL;
END_VAR
VAR
  Cnt : INT; (* Zählerstand ✓ *)
END_VAR
  Cnt := Cnt + 1;
END_FUNCTION_BLOCK
"""),
    ("main", """PROGRAM Main
VAR
  c : Counter;
  l : Level;
END_VAR
  c(Reset := FALSE);
END_PROGRAM
"""),
    ("config", """CONFIGURATION config
  RESOURCE resource1 ON PLC
    TASK plc_task(INTERVAL := T#100ms, PRIORITY := 1);
    PROGRAM plc_task_instance WITH plc_task : Main;
  END_RESOURCE
END_CONFIGURATION
"""),
]
GOOD = dict(DECLS)
# One fault: the type of `l` is not declared anywhere (same size as the good text).
FAULTY = dict(DECLS)
FAULTY["main"] = GOOD["main"].replace("l : Level;", "l : Levle;")
NAMES = [name for name, _ in DECLS]
FILE_NAMES = ["a_zähler.st", "b_計数.st", "c.st"]

ANSI = re.compile(r"\x1b\[[0-9;]*m")
HEAD = re.compile(r"^error\[(\w+)\]")
PLACE = re.compile(r"^\s*┌─ (.*):(\d+):(\d+)$")

failures = []
runs = 0


def fail(msg):
    failures.append(msg)
    print("PROPERTY VIOLATED: " + msg)


def run(args, tmp, cwd):
    """Runs the tool; returns (exit status, stdout, stderr without colours)."""
    global runs
    runs += 1
    env = dict(os.environ, TMPDIR=tmp)
    p = subprocess.run([BIN] + args, cwd=cwd, env=env, capture_output=True, timeout=120)
    return p.returncode, p.stdout.decode("utf-8", "replace"), ANSI.sub("", p.stderr.decode("utf-8", "replace"))


def observe(args, tmp, cwd):
    """What the property talks about: verdict and the (code, place) of each problem.

    The place is given as the text of the line and the column, which does not
    change when declarations move (line numbers and file names do)."""
    status, out, err = run(["check"] + args, tmp, cwd)
    problems = []
    code = None
    for line in err.splitlines():
        m = HEAD.match(line)
        if m:
            code = m.group(1)
            continue
        m = PLACE.match(line)
        if m and code:
            path = os.path.join(cwd, m.group(1))
            with open(path, encoding="utf-8") as f:
                text = f.read().split("\n")
            problems.append((code, text[int(m.group(2)) - 1].strip(), int(m.group(3))))
            code = None
    ok = status == 0 and out.strip() == "OK"
    if ok == bool(problems) or (status == 0) != ok:
        fail("verdict and output disagree: status %s stdout %r stderr %r" % (status, out, err))
    return ("OK" if ok else "ERR", tuple(sorted(problems)))


def write_layout(directory, texts, order, assignment):
    """Writes the declarations in `order`; declaration i goes to file assignment[i]."""
    files = {}
    for name in order:
        files.setdefault(FILE_NAMES[assignment[name]], []).append(texts[name])
    for fname, parts in files.items():
        with open(os.path.join(directory, fname), "w", encoding="utf-8") as f:
            f.write("\n".join(parts))
    return sorted(files)


def partitions(names, k):
    """All partitions of names into at most k blocks, as name -> block number."""
    def rec(i, blocks):
        if i == len(names):
            yield {n: b for b, block in enumerate(blocks) for n in block}
            return
        for b in range(len(blocks)):
            blocks[b].append(names[i])
            yield from rec(i + 1, blocks)
            blocks[b].pop()
        if len(blocks) < k:
            blocks.append([names[i]])
            yield from rec(i + 1, blocks)
            blocks.pop()
    yield from rec(0, [])


def cache_entries(tmp):
    d = os.path.join(tmp, "ironplcc", "cache")
    return sorted(os.listdir(d)) if os.path.isdir(d) else []


def check_variant(label, texts, expected, root, rng):
    """All orders x some partitions x all argument orders x several runs."""
    shared_tmp = os.path.join(root, "tmp-shared-" + label)
    os.mkdir(shared_tmp)
    seen = set()
    layouts = []
    all_partitions = list(partitions(NAMES, 3))
    for order in itertools.permutations(NAMES):
        layouts.append((order, {n: 0 for n in NAMES}))
        layouts.append((order, rng.choice(all_partitions)))
    for assignment in all_partitions:
        layouts.append((tuple(NAMES), assignment))
    for n, (order, assignment) in enumerate(layouts):
        src = os.path.join(root, "src-%s-%d" % (label, n))
        os.mkdir(src)
        files = write_layout(src, texts, order, assignment)
        arg_orders = list(itertools.permutations(files))
        for args in arg_orders:
            absolute = [os.path.join(src, f) for f in args]
            # warm (or warming) cache, twice; a cold cache; relative names from the directory
            seen.add(observe(absolute, shared_tmp, root))
            seen.add(observe(absolute, shared_tmp, root))
            fresh = tempfile.mkdtemp(dir=root)
            seen.add(observe(absolute, fresh, root))
            seen.add(observe(list(args), shared_tmp, src))
        # the directory (discovery order is up to the OS)
        seen.add(observe([src], shared_tmp, root))
        seen.add(observe(["."], shared_tmp, src))
    if seen != {expected}:
        fail("%s: expected only %r, saw %r" % (label, expected, seen))
    return shared_tmp


def main():
    rng = random.Random(6)
    root = tempfile.mkdtemp(prefix="c06-demo-a-")
    try:
        place = ("P0022", "l : Levle;", 7)
        t_good = check_variant("good", GOOD, ("OK", ()), root, rng)
        t_bad = check_variant("faulty", FAULTY, ("ERR", (place,)), root, rng)

        print("== visible difference: files kept in $TMPDIR/ironplcc/cache")
        for t in (t_good, t_bad):
            entries = cache_entries(t)
            print("   %s: %d entries %s" % (os.path.basename(t), len(entries), entries[:3]))

        print("== the same path changes on disk between runs (same TMPDIR, same size, same names)")
        src = os.path.join(root, "src-disk")
        os.mkdir(src)
        tmp = os.path.join(root, "tmp-disk")
        os.mkdir(tmp)
        history = []
        for step, texts in enumerate([FAULTY, GOOD, FAULTY, FAULTY, GOOD, GOOD]):
            write_layout(src, texts, NAMES, {"level": 0, "counter": 1, "main": 1, "config": 2})
            got = observe([src], tmp, root)
            history.append(got[0])
            want = ("OK", ()) if texts is GOOD else ("ERR", (place,))
            if got != want:
                fail("disk step %d: expected %r got %r" % (step, want, got))
        print("   verdicts:", " ".join(history), "| cache entries:", len(cache_entries(tmp)))

        print("== a damaged or foreign cache entry is not believed")
        entries = cache_entries(tmp)
        d = os.path.join(tmp, "ironplcc", "cache")
        for e in entries:
            p = os.path.join(d, e)
            with open(p, "rb") as f:
                data = f.read()
            # claim the opposite: what was ok now lists nothing, and cut the other one short
            with open(p, "wb") as f:
                f.write(data[: len(data) // 2] if b'"result":"ok"' not in data
                        else data.replace(b'"result":"ok"', b'"result":[]'))
        for texts in (GOOD, FAULTY):
            write_layout(src, texts, NAMES, {"level": 0, "counter": 1, "main": 1, "config": 2})
            got = observe([src], tmp, root)
            want = ("OK", ()) if texts is GOOD else ("ERR", (place,))
            if got != want:
                fail("damaged cache: expected %r got %r" % (want, got))
        # an entry of one set under the name of another set
        entries = cache_entries(tmp)
        if len(entries) >= 2:
            a, b = (os.path.join(d, e) for e in entries[:2])
            shutil.copyfile(a, b + ".swap")
            shutil.copyfile(b, a)
            os.replace(b + ".swap", b)
            for texts in (GOOD, FAULTY, GOOD):
                write_layout(src, texts, NAMES, {"level": 0, "counter": 1, "main": 1, "config": 2})
                got = observe([src], tmp, root)
                want = ("OK", ()) if texts is GOOD else ("ERR", (place,))
                if got != want:
                    fail("swapped cache entries: expected %r got %r" % (want, got))
        print("   ok" if not failures else "   FAILED")

        print("== cache directory cannot be used (TMPDIR/ironplcc/cache is a file)")
        tmp2 = os.path.join(root, "tmp-nocache")
        os.makedirs(os.path.join(tmp2, "ironplcc"))
        with open(os.path.join(tmp2, "ironplcc", "cache"), "w") as f:
            f.write("not a directory")
        for texts in (GOOD, FAULTY):
            write_layout(src, texts, NAMES, {"level": 0, "counter": 1, "main": 1, "config": 2})
            got = observe([src], tmp2, root)
            want = ("OK", ()) if texts is GOOD else ("ERR", (place,))
            if got != want:
                fail("unusable cache directory: expected %r got %r" % (want, got))
        print("   ok" if not failures else "   FAILED")
    finally:
        shutil.rmtree(root, ignore_errors=True)

    print("%d runs of the tool, %d violations" % (runs, len(failures)))
    return 1 if failures else 0


if __name__ == "__main__":
    sys.exit(main())
