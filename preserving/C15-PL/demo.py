#!/usr/bin/env python3
"""Demo / independent check for change C of C15 (a null answer is explained with window/logMessage).

usage: demo.py <path of the `compiler` workspace directory>

Speaks LSP over stdio with <dir>/target/debug/ironplcc. Documents are built
from pieces whose class is known to this script, so the expected lexemes do not
come from the tool. Exits 0 when the property held on everything it tried.
"""
import json
import os
import queue
import random
import shutil
import subprocess
import sys
import tempfile
import threading

# --------------------------------------------------------------------------
# A tiny LSP client
# --------------------------------------------------------------------------


class Lsp:
    def __init__(self, binary, cwd, tmp):
        env = dict(os.environ)
        env["TMPDIR"] = tmp
        self.proc = subprocess.Popen(
            [binary, "lsp", "--stdio"],
            stdin=subprocess.PIPE,
            stdout=subprocess.PIPE,
            stderr=subprocess.DEVNULL,
            cwd=cwd,
            env=env,
        )
        self.inbox = queue.Queue()
        self.next_id = 0
        self.notifications = []
        threading.Thread(target=self._reader, daemon=True).start()

    def _reader(self):
        out = self.proc.stdout
        while True:
            length = None
            while True:
                line = out.readline()
                if not line:
                    self.inbox.put(None)
                    return
                line = line.strip()
                if not line:
                    break
                if line.lower().startswith(b"content-length:"):
                    length = int(line.split(b":")[1])
            body = out.read(length)
            self.inbox.put(json.loads(body.decode("utf-8")))

    def _send(self, msg):
        body = json.dumps(msg).encode("utf-8")
        self.proc.stdin.write(b"Content-Length: %d\r\n\r\n" % len(body) + body)
        self.proc.stdin.flush()

    def notify(self, method, params):
        self._send({"jsonrpc": "2.0", "method": method, "params": params})

    def request(self, method, params):
        """Returns (response, messages that arrived before the response)."""
        self.next_id += 1
        self._send({"jsonrpc": "2.0", "id": self.next_id, "method": method, "params": params})
        before = []
        while True:
            msg = self.inbox.get(timeout=60)
            if msg is None:
                raise RuntimeError("server closed the connection")
            if "id" in msg and "method" not in msg and msg["id"] == self.next_id:
                return msg, before
            before.append(msg)

    def wait_notification(self, method):
        while True:
            msg = self.inbox.get(timeout=60)
            if msg is None:
                raise RuntimeError("server closed the connection")
            if msg.get("method") == method:
                return msg

    def initialize(self, capabilities, folder=None):
        params = {"processId": None, "rootUri": None, "capabilities": capabilities}
        if folder is not None:
            params["workspaceFolders"] = [{"uri": "file://" + folder, "name": "w"}]
        response, _ = self.request("initialize", params)
        self.notify("initialized", {})
        return response["result"]

    def open(self, uri, text, version=1):
        self.notify(
            "textDocument/didOpen",
            {"textDocument": {"uri": uri, "languageId": "61131-3-st", "version": version, "text": text}},
        )
        return self.wait_notification("textDocument/publishDiagnostics")

    def change(self, uri, text, version):
        self.notify(
            "textDocument/didChange",
            {"textDocument": {"uri": uri, "version": version}, "contentChanges": [{"text": text}]},
        )
        return self.wait_notification("textDocument/publishDiagnostics")

    def tokens(self, uri):
        response, before = self.request("textDocument/semanticTokens/full", {"textDocument": {"uri": uri}})
        return response, before

    def stop(self):
        try:
            self.request("shutdown", None)
            self.notify("exit", None)
            self.proc.stdin.close()
            self.proc.wait(timeout=30)
        except Exception:
            self.proc.kill()
        return self.proc.returncode


# --------------------------------------------------------------------------
# Documents with known lexemes
# --------------------------------------------------------------------------

KEYWORDS = [
    "PROGRAM", "END_PROGRAM", "VAR", "END_VAR", "VAR_INPUT", "IF", "THEN", "ELSE", "END_IF", "WHILE", "DO",
    "END_WHILE", "FUNCTION_BLOCK", "END_FUNCTION_BLOCK", "BOOL", "INT", "DINT", "REAL", "TRUE", "FALSE", "AT",
    "TYPE", "END_TYPE", "STRUCT", "END_STRUCT", "Program", "end_var", "Return", "CASE", "OF", "END_CASE", "FOR",
    "TO", "BY", "END_FOR", "REPEAT", "UNTIL", "END_REPEAT", "TIME", "WORD",
]
MODIFIERS = ["RETAIN", "CONSTANT", "constant"]
IDENTIFIERS = ["v_motor", "v_speed2", "x_1", "Start_Button", "q_out", "v_a", "counter_9", "z__z"]
OPERATORS = ["+", "-", "*", "/", "**", "=", "<>", "<", ">", "<=", ">=", ":=", "&", "OR", "XOR", "AND", "MOD", "NOT", "not"]
ADDRESSES = ["%IX1.2", "%QW3", "%MD4.5.6", "%I*", "%QB7", "%mx0.1"]
PLAIN = [";", ",", ":", "(", ")", "[", "]", "10", "16#FF", "2.5", "'text'", "'größe 温'", "\"wé\"", "#"]
COMMENT_BODIES = ["", " ", " plain ", " größe → 温度 ", " a ( b ) c ", " éè ; := IF "]


def make_document(rng, newline):
    """Returns (text, expected) where expected maps (start, end) in bytes to a legend name."""
    pieces = []  # (text, legend name or None)

    def comment(multiline):
        body = rng.choice(COMMENT_BODIES)
        if multiline:
            body = body + newline + "   " + rng.choice(COMMENT_BODIES) + newline + rng.choice(COMMENT_BODIES)
        pieces.append(("(*" + body + "*)", "comment"))

    def trivia():
        r = rng.random()
        if r < 0.5:
            pieces.append((rng.choice([" ", "  ", "\t", " \x0c "]), None))
        elif r < 0.65:
            pieces.append((" ", None))
            comment(False)
            pieces.append((" ", None))
        elif r < 0.75:
            pieces.append((" ", None))
            comment(True)
            pieces.append((" ", None))
        elif r < 0.9:
            pieces.append((newline + rng.choice(["", "  ", "\t"]), None))
            if rng.random() < 0.4:
                comment(rng.random() < 0.3)
                pieces.append((" ", None))
        else:
            pieces.append((newline + newline, None))

    for _ in range(rng.randint(5, 60)):
        r = rng.random()
        if r < 0.3:
            pieces.append((rng.choice(KEYWORDS), "keyword"))
        elif r < 0.35:
            pieces.append((rng.choice(MODIFIERS), "modifier"))
        elif r < 0.6:
            pieces.append((rng.choice(IDENTIFIERS), "variable"))
        elif r < 0.75:
            pieces.append((rng.choice(OPERATORS), "operator"))
        elif r < 0.82:
            pieces.append((rng.choice(ADDRESSES), "operator"))
        else:
            pieces.append((rng.choice(PLAIN), None))
        trivia()

    text = ""
    expected = {}
    offset = 0
    for piece, name in pieces:
        size = len(piece.encode("utf-8"))
        if name is not None:
            expected[(offset, offset + size)] = name
        offset += size
        text += piece
    return text, expected


def check(text, result, legend, expected):
    """Returns (problems, decoded) for a tokens result on a valid document."""
    problems = []
    if result is None or "data" not in result:
        return ["no tokens for a valid document: %r" % (result,)], []
    data = result["data"]
    if len(data) % 5 != 0:
        return ["length of data is not a multiple of 5"], []
    raw = text.encode("utf-8")
    line_starts = [0]
    for i, b in enumerate(raw):
        if b == 0x0A:
            line_starts.append(i + 1)
    line, col = 0, 0
    prev_end = -1
    prev_start = -1
    decoded = []
    for i in range(0, len(data), 5):
        dl, ds, length, ttype, mods = data[i : i + 5]
        if dl < 0 or ds < 0 or length <= 0:
            problems.append("negative delta or empty token at %d" % i)
        line += dl
        col = col + ds if dl == 0 else ds
        if line >= len(line_starts):
            problems.append("line %d is outside the document" % line)
            break
        start = line_starts[line] + col
        end = start + length
        if start <= prev_start:
            problems.append("token at byte %d does not start after the previous one" % start)
        if start < prev_end:
            problems.append("token at byte %d overlaps the previous one" % start)
        prev_start, prev_end = start, end
        if ttype >= len(legend):
            problems.append("token type %d is outside the legend" % ttype)
            continue
        name = legend[ttype]
        decoded.append((start, end, name, ttype))
        if (start, end) not in expected:
            problems.append("bytes %d..%d (%r) are not exactly one highlighted lexeme" % (start, end, raw[start:end]))
        elif expected[(start, end)] != name:
            problems.append(
                "%r is announced as %s but is %s" % (raw[start:end], name, expected[(start, end)])
            )
    return problems, decoded


# --------------------------------------------------------------------------
# The demo
# --------------------------------------------------------------------------

from urllib.parse import quote

INVALID = [" ? ", " ä ", " $ ", " ~x ", " 温 ", "\r"]


def strip_comments_and_strings(text):
    """None when a comment or string is left open (then nothing is known)."""
    out = []
    i = 0
    while i < len(text):
        if text.startswith("(*", i):
            j = text.find("*)", i + 2)
            if j < 0:
                return None
            i = j + 2
        elif text[i] in "'\"":
            j = text.find(text[i], i + 1)
            if j < 0:
                return None
            i = j + 1
        else:
            out.append(text[i])
            i += 1
    return "".join(out)


def main():
    workspace = os.path.abspath(sys.argv[1])
    binary = os.path.join(workspace, "target", "debug", "ironplcc")
    failures = []
    shown = 0
    counts = {"tokens": 0, "null": 0, "log": 0}

    root = tempfile.mkdtemp(prefix="c15c-")
    try:
        tmp = os.path.join(root, "tmp")
        work = os.path.join(root, "wörk dir")
        os.mkdir(tmp)
        os.mkdir(work)
        for run in (1, 2):
            lsp = Lsp(binary, work, tmp)
            result = lsp.initialize({})
            legend = result["capabilities"]["semanticTokensProvider"]["legend"]["tokenTypes"]
            rng = random.Random(31 + run)
            uris = ["file://" + quote(os.path.join(work, "doc%d.st" % i)) for i in range(3)]
            versions = {}
            print("== run %d of the server" % run)

            def ask(title, uri, text, expected, want_null):
                nonlocal shown
                response, before = lsp.tokens(uri)
                if "error" in response:
                    failures.append("%s: error response %r" % (title, response["error"]))
                    return
                for msg in before:
                    if msg.get("method") != "window/logMessage" or "id" in msg:
                        failures.append("%s: unexpected message before the answer: %r" % (title, msg))
                    else:
                        counts["log"] += 1
                result = response["result"]
                if result is None:
                    counts["null"] += 1
                    if shown < 6:
                        shown += 1
                        print("   %s -> null" % title)
                        for msg in before:
                            print("      before the answer: %s %s" % (msg["method"], json.dumps(msg["params"], ensure_ascii=False)))
                        if not before:
                            print("      (no other message)")
                    if not want_null:
                        failures.append("%s: null for a valid document" % title)
                    return
                counts["tokens"] += 1
                if before:
                    failures.append("%s: a log message although there are tokens" % title)
                if want_null:
                    failures.append("%s: tokens for a document with text that is no token" % title)
                    return
                problems, _ = check(text, result, legend, expected)
                failures.extend("%s: %s" % (title, p) for p in problems[:5])

            for step in range(60):
                uri = rng.choice(uris)
                text, expected = make_document(rng, rng.choice(["\n", "\r\n"]))
                want_null = False
                if rng.random() < 0.35:
                    # text that is no token, between two pieces or inside one
                    for _ in range(rng.randint(1, 3)):
                        cut = rng.randint(0, len(text))
                        text = text[:cut] + rng.choice(INVALID) + text[cut:]
                    rest = strip_comments_and_strings(text)
                    if rest is None:
                        continue
                    bad = [m.strip(" ") for m in INVALID]
                    want_null = any(m in rest for m in ["?", "ä", "$", "~", "温"]) or "\r" in rest.replace("\r\n", "")
                    if not want_null:
                        continue  # everything fell into comments or strings: nothing known about the pieces
                if uri in versions:
                    versions[uri] += 1
                    lsp.change(uri, text, versions[uri])
                else:
                    versions[uri] = 1
                    lsp.open(uri, text)
                ask("step %d (%s)" % (step, "invalid text" if want_null else "valid"), uri, text, expected, want_null)
                if rng.random() < 0.3:
                    ask("step %d again" % step, uri, text, expected, want_null)

            # documents the server has no text for
            ask("document that was never opened and is not on disk", "file://" + quote(os.path.join(work, "none.st")), None, None, True)
            ask("document that is not a file", "untitled:Untitled-1", None, None, True)

            # the explanation is not kept: a valid text afterwards has tokens and no message
            text, expected = make_document(rng, "\r\n")
            lsp.change(uris[0], "VAR ? $ END_VAR", 1000)
            ask("invalid, then", uris[0], None, None, True)
            lsp.change(uris[0], text, 1001)
            ask("valid again", uris[0], text, expected, False)

            code = lsp.stop()
            if code != 0:
                failures.append("server exit code %r" % code)
            # nothing may be left in the queue: every message was either awaited or seen before an answer
            leftovers = []
            while True:
                try:
                    msg = lsp.inbox.get(timeout=0.5)
                except queue.Empty:
                    break
                if msg is None:
                    break
                leftovers.append(msg)
            if leftovers:
                failures.append("messages that nobody waited for: %r" % leftovers[:3])
        if os.listdir(work):
            failures.append("files left in the working directory: %r" % os.listdir(work))
    finally:
        shutil.rmtree(root, ignore_errors=True)

    print("== answers with tokens: %d, null answers: %d, window/logMessage notifications: %d, problems: %d"
          % (counts["tokens"], counts["null"], counts["log"], len(failures)))
    for f in failures[:40]:
        print("PROBLEM: " + f)
    return 1 if failures else 0


if __name__ == "__main__":
    sys.exit(main())
