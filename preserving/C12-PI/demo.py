#!/usr/bin/env python3
"""Demo / independent check for change B (C12).

usage: demo.py <path of the compiler workspace>   (binary: $1/target/debug/ironplcc)

Opens and edits several documents (two files that depend on each other and a
non-file document), interleaved with semanticTokens requests, unimplemented
requests / notifications, client responses and didClose. After every client
message a marker request ("demo/sync") is sent and everything the server says
up to the answer of the marker is attributed to that client message and printed.

Checks the property C12 literally:
  - every request (incl. the markers) is answered exactly once with its id,
  - no response exists that does not belong to a request (nothing is "answered"
    for a notification or a client response); what the server sends besides
    responses are notifications (no id),
  - shutdown + exit => exit status 0.
Exits 0 when that holds (with and without the change).
"""
import json, os, shutil, subprocess, sys, tempfile, threading, queue


class Server:
    def __init__(self, binary, cwd):
        self.p = subprocess.Popen([binary, "lsp", "--stdio"], cwd=cwd, stdin=subprocess.PIPE,
                                  stdout=subprocess.PIPE, stderr=subprocess.DEVNULL)
        self.q = queue.Queue()
        self.t = threading.Thread(target=self._reader, daemon=True)
        self.t.start()

    def _reader(self):
        out = self.p.stdout
        while True:
            length = None
            while True:
                line = out.readline()
                if not line:
                    self.q.put(None)
                    return
                line = line.strip()
                if not line:
                    break
                if line.lower().startswith(b"content-length:"):
                    length = int(line.split(b":")[1])
            body = out.read(length)
            self.q.put(json.loads(body))

    def send(self, msg):
        msg = dict(msg, jsonrpc="2.0")
        body = json.dumps(msg).encode()
        self.p.stdin.write(b"Content-Length: %d\r\n\r\n" % len(body) + body)
        self.p.stdin.flush()

    def recv(self, timeout=60):
        return self.q.get(timeout=timeout)



def main():
    ws = os.path.abspath(sys.argv[1])
    binary = os.path.join(ws, "target", "debug", "ironplcc")
    tmp = tempfile.mkdtemp(prefix="c12B-")
    ok = True
    try:
        a = "file://" + os.path.join(tmp, "a.st")
        b = "file://" + os.path.join(tmp, "b.st")
        u = "untitled:scratch"
        c = "file://" + os.path.join(tmp, "c.st")
        names = {a: "a.st", b: "b.st", c: "c.st", u: u}
        user = "FUNCTION_BLOCK user\nVAR\n  x : level;\nEND_VAR\nEND_FUNCTION_BLOCK\n"
        decl = "TYPE level : (low, high); END_TYPE\n"
        s = Server(binary, tmp)
        s.send({"id": "init", "method": "initialize", "params": {"capabilities": {}}})
        init = s.recv()
        assert init.get("id") == "init" and "result" in init, init
        s.send({"method": "initialized", "params": {}})

        requests = {}
        answers = {}
        counter = [0]

        def fail(msg):
            nonlocal ok
            ok = False
            print("FAIL: " + msg)

        def show(m):
            if "method" in m:
                if m["method"] == "textDocument/publishDiagnostics":
                    p = m["params"]
                    return "publishDiagnostics %s v%s [%d]" % (names.get(p["uri"], p["uri"]), p.get("version"), len(p["diagnostics"]))
                return ("REQUEST " if "id" in m else "") + m["method"]
            if "error" in m:
                return "response id=%s error %d" % (json.dumps(m["id"]), m["error"]["code"])
            r = m.get("result")
            return "response id=%s result %s" % (json.dumps(m["id"]), "null" if r is None else "tokens(%d)" % len(r.get("data", [])))

        def step(label, msg, expect_first=None):
            """send msg, then a marker request; collect up to the marker's answer"""
            if "id" in msg and "method" in msg:
                requests[json.dumps(msg["id"])] = msg["method"]
            s.send(msg)
            counter[0] += 1
            sync = "sync-%d" % counter[0]
            requests[json.dumps(sync)] = "demo/sync"
            s.send({"id": sync, "method": "demo/sync"})
            got = []
            while True:
                m = s.recv()
                if m is None:
                    fail("server closed its output after " + label)
                    return got
                if "id" in m and "method" not in m:
                    answers.setdefault(json.dumps(m["id"]), []).append(m)
                    if m["id"] == sync:
                        break
                elif "id" in m:
                    print("note: server-to-client request " + m["method"])
                got.append(m)
            print("%-46s => %s" % (label, "; ".join(show(m) for m in got) or "(nothing)"))
            if expect_first is not None:
                uri, version = expect_first
                first = got[0] if got else {}
                p = first.get("params", {})
                if first.get("method") != "textDocument/publishDiagnostics" or p.get("uri") != uri or p.get("version") != version:
                    fail("first message after %s is not the diagnostics of the edited document" % label)
            return got

        def did_open(uri, version, text):
            return {"method": "textDocument/didOpen", "params": {"textDocument": {"uri": uri, "languageId": "st", "version": version, "text": text}}}

        def did_change(uri, version, *texts):
            return {"method": "textDocument/didChange", "params": {"textDocument": {"uri": uri, "version": version}, "contentChanges": [{"text": t} for t in texts]}}

        def tokens(id_, uri):
            return {"id": id_, "method": "textDocument/semanticTokens/full", "params": {"textDocument": {"uri": uri}}}

        step("didOpen a.st v1 (uses undeclared type)", did_open(a, 1, user), (a, 1))
        step("request 1 semanticTokens a.st", tokens(1, a))
        step("didOpen untitled:scratch v1", did_open(u, 1, "whatever"), (u, 1))
        step("didOpen b.st v1 (declares the type)", did_open(b, 1, decl), (b, 1))
        step("didChange b.st v2 (2 changes, last removes type)", did_change(b, 2, decl, "\n"), (b, 2))
        step("didChange b.st v3 (0 changes)", did_change(b, 3), (b, 3))
        step("request 2 textDocument/hover", {"id": 2, "method": "textDocument/hover", "params": {"textDocument": {"uri": a}, "position": {"line": 0, "character": 0}}})
        step("notification workspace/didChangeConfiguration", {"method": "workspace/didChangeConfiguration", "params": {"settings": None}})
        step("client response id 0", {"id": 0, "result": None})
        step("didChange a.st v2 (1 change, syntax error)", did_change(a, 2, "FUNCTION_BLOCK user\nVAR\n  x : ;\n"), (a, 2))
        step("request 3 semanticTokens b.st", tokens(3, b))
        step("didChange unopened c.st v5", did_change(c, 5, decl), (c, 5))
        step("notification didClose a.st", {"method": "textDocument/didClose", "params": {"textDocument": {"uri": a}}})
        step("notification didClose without params", {"method": "textDocument/didClose"})
        step("request 4 didClose b.st WITH an id", {"id": 4, "method": "textDocument/didClose", "params": {"textDocument": {"uri": b}}})
        step("didChange b.st v4 (1 change)", did_change(b, 4, decl), (b, 4))
        step("request 5 semanticTokens untitled:scratch", tokens(5, u))

        requests[json.dumps("bye")] = "shutdown"
        s.send({"id": "bye", "method": "shutdown"})
        late = []
        while True:
            m = s.recv()
            if m is None:
                fail("server closed its output before answering shutdown")
                break
            if "id" in m and "method" not in m:
                answers.setdefault(json.dumps(m["id"]), []).append(m)
                if m["id"] == "bye":
                    break
            else:
                late.append(m)
        s.send({"method": "exit"})
        status = s.p.wait(timeout=60)
        while True:
            m = s.recv()
            if m is None:
                break
            if "id" in m and "method" not in m:
                answers.setdefault(json.dumps(m["id"]), []).append(m)
            else:
                late.append(m)
        if late:
            print("after shutdown was sent: " + "; ".join(show(m) for m in late))

        implemented = {"textDocument/semanticTokens/full", "shutdown"}
        for id_, method in requests.items():
            got = answers.get(id_, [])
            if len(got) != 1:
                fail("request id %s (%s) answered %d times" % (id_, method, len(got)))
                continue
            m = got[0]
            if ("result" in m) == ("error" in m):
                fail("answer for %s has not exactly one of result / error" % id_)
            if method in implemented and "result" not in m:
                fail("implemented request %s (%s) got an error" % (id_, method))
            if method not in implemented and "error" not in m:
                fail("unimplemented request %s (%s) got a result" % (id_, method))
        for id_ in answers:
            if id_ not in requests:
                fail("a response with id %s that no request had" % id_)
        print("requests sent: %d, responses received: %d" % (len(requests), sum(len(v) for v in answers.values())))
        print("exit status after shutdown + exit: %d" % status)
        if status != 0:
            ok = False
    finally:
        shutil.rmtree(tmp, ignore_errors=True)
    print("PROPERTY C12 %s on this run" % ("HOLDS" if ok else "VIOLATED"))
    sys.exit(0 if ok else 1)


if __name__ == "__main__":
    main()
