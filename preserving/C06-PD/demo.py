#!/usr/bin/env python3
"""Demonstration for PRESERVING/A (see README.md). Usage: demo.py [compiler workspace]"""
import itertools
import os
import re
import shutil
import subprocess
import sys
import tempfile

WS = os.path.abspath(sys.argv[1] if len(sys.argv) > 1 else "/tmp/mut6/C06/compiler")
ANSI = re.compile(r"\x1b\[[0-9;]*m")
HEADER = re.compile(r"^error\[(P\d+)\]: (.*)$")
WHERE = re.compile(r"^\s*┌─ (.*):(\d+):(\d+)$")


def build():
    env = dict(os.environ, CARGO_NET_OFFLINE="true")
    subprocess.run(
        ["cargo", "build", "-p", "ironplcc", "--offline", "--quiet"],
        cwd=WS, env=env, check=True,
    )
    return os.path.join(WS, "target", "debug", "ironplcc")


class Layout:
    """One arrangement of the declarations: an order, a distribution over
    files, file names and the order in which the files are named."""

    def __init__(self, root, decls, order, blocks, names, arg_order, as_dir):
        self.dir = tempfile.mkdtemp(dir=root)
        self.decls = decls
        # file path -> list of (declaration index, first line, number of lines)
        self.index = {}
        contents = {}
        for pos in order:
            path = os.path.join(self.dir, names[blocks[pos]])
            text = decls[pos]
            assert text.endswith("\n")
            lines_so_far = contents.get(path, "").count("\n")
            self.index.setdefault(path, []).append(
                (pos, lines_so_far + 1, text.count("\n"))
            )
            contents[path] = contents.get(path, "") + text
        for path, text in contents.items():
            with open(path, "w") as f:
                f.write(text)
        files = sorted(contents)
        self.args = [self.dir] if as_dir else [files[i] for i in arg_order]
        self.describe = "order=%s files=%s args=%s" % (
            list(order),
            {os.path.basename(p): [d for d, _, _ in v] for p, v in self.index.items()},
            "<dir>" if as_dir else [os.path.basename(a) for a in self.args],
        )

    def locate(self, path, line, col):
        """(file, line, column) -> (declaration, line in declaration, column)"""
        path = os.path.realpath(path)
        for known, entries in self.index.items():
            if os.path.realpath(known) == path:
                for decl, first, count in entries:
                    if first <= line < first + count:
                        return (decl, line - first + 1, col)
        return ("?", path, line, col)


def check(binary, layout, root):
    env = dict(os.environ, TMPDIR=root)
    p = subprocess.run([binary, "check"] + layout.args, env=env,
                       stdout=subprocess.PIPE, stderr=subprocess.PIPE)
    err = ANSI.sub("", p.stderr.decode("utf-8", "replace"))
    diags = []
    for line in err.splitlines():
        m = HEADER.match(line)
        if m:
            diags.append({"code": m.group(1), "message": m.group(2), "where": None,
                          "others": []})
            continue
        m = WHERE.match(line)
        if m and diags:
            loc = layout.locate(m.group(1), int(m.group(2)), int(m.group(3)))
            if diags[-1]["where"] is None:
                diags[-1]["where"] = loc
            else:
                diags[-1]["others"].append(loc)
    verdict = "OK" if (p.returncode == 0 and p.stdout.decode().strip() == "OK") else "FAIL"
    if p.returncode not in (0, 1):
        verdict = "CRASH(%d)" % p.returncode
    return verdict, diags, err


def restricted_growth(n, max_blocks):
    """All partitions of n items into at most max_blocks blocks."""
    def rec(prefix, used):
        if len(prefix) == n:
            yield tuple(prefix)
            return
        for b in range(min(used + 1, max_blocks)):
            yield from rec(prefix + [b], max(used, b + 1))
    yield from rec([], 0)


def layouts(root, decls):
    """All permutations x all partitions into up to 3 files x all argument
    orders (plus: the directory as the argument) x three file naming schemes (the files of
    a set are analysed in the order of their paths)."""
    n = len(decls)
    for order in itertools.permutations(range(n)):
        for blocks in restricted_growth(n, 3):
            k = max(blocks) + 1
            for names in (["u0.st", "u1.st", "u2.st"], ["m.st", "z.st", "a.st"],
                          ["z9.st", "b.st", "k.st"]):
                for arg_order in itertools.permutations(range(k)):
                    yield Layout(root, decls, order, blocks, names, arg_order, False)
                yield Layout(root, decls, order, blocks, names, (), True)


def observe(binary, root, decls, repeats=2):
    """Runs the check in every layout (each `repeats` times: a new process has
    new hash seeds). Returns {observable: [layout descriptions]}, where the
    observable is what the property talks about: the verdict and the list of
    (code, normalised primary location)."""
    seen = {}
    runs = 0
    samples = {}
    for layout in layouts(root, decls):
        for _ in range(repeats):
            verdict, diags, err = check(binary, layout, root)
            runs += 1
            key = (verdict, tuple((d["code"], d["where"]) for d in diags))
            seen.setdefault(key, []).append(layout.describe)
            samples.setdefault(key, (layout, diags, err))
        shutil.rmtree(layout.dir)
    return seen, runs, samples


def report(title, seen, runs):
    print("-- %s: %d runs, %d distinct observable(s)" % (title, runs, len(seen)))
    for key, where in seen.items():
        print("   verdict=%s diagnostics=%s   (%d runs, e.g. %s)"
              % (key[0], list(key[1]), len(where), where[0]))


def main(body):
    binary = build()
    root = tempfile.mkdtemp(prefix="c06demo.")
    assert root and os.path.isdir(root) and root != "/"
    try:
        ok = body(binary, root)
    finally:
        shutil.rmtree(root)
    print("RESULT: %s" % ("property observables hold on the example" if ok
                          else "PROPERTY VIOLATED on the example"))
    sys.exit(0 if ok else 1)

LEVEL = """TYPE
  LEVEL : (LOW, HIGH) := LOW;
END_TYPE
"""
ZED_BAD = """FUNCTION_BLOCK ZED
VAR CONSTANT
  limit : INT;
END_VAR
VAR
  l : LEVEL;
END_VAR
END_FUNCTION_BLOCK
"""
ZED_GOOD = ZED_BAD.replace("limit : INT;", "limit : INT := 3;")
ALPHA = """FUNCTION_BLOCK ALPHA
VAR
  z : ZED;
END_VAR
END_FUNCTION_BLOCK
"""
# Independent of ZED and ALPHA (no reference in either direction)
BETA_BAD = """FUNCTION_BLOCK BETA
VAR CONSTANT
  other : INT;
END_VAR
END_FUNCTION_BLOCK
"""
MAIN = """PROGRAM main
VAR
  a : ALPHA;
END_VAR
END_PROGRAM
"""
# Mutual recursion (ZED2 -> ALPHA2 -> ZED2)
CYC_Z = """FUNCTION_BLOCK ZED2
VAR
  a : ALPHA2;
END_VAR
END_FUNCTION_BLOCK
"""
CYC_A = """FUNCTION_BLOCK ALPHA2
VAR
  z : ZED2;
END_VAR
END_FUNCTION_BLOCK
"""


def body(binary, root):
    ok = True

    print("== 1. valid unit (type, two function blocks, program): verdict in every layout")
    seen, runs, _ = observe(binary, root, [LEVEL, ZED_GOOD, ALPHA, MAIN], repeats=1)
    report("valid unit", seen, runs)
    ok &= list(seen) == [("OK", ())]

    print("== 2. unit with a single fault (constant without initial value in ZED):")
    print("      verdict, problem code and location in every layout")
    seen, runs, _ = observe(binary, root, [LEVEL, ZED_BAD, ALPHA, MAIN], repeats=1)
    report("single fault", seen, runs)
    ok &= len(seen) == 1 and list(seen)[0][0] == "FAIL" and len(list(seen)[0][1]) == 1

    print("== 3. unit with TWO faults (one in ZED, one in BETA): the verdict must be the")
    print("      same in every layout; the ORDER of the two diagnostics is left open by the")
    print("      property and is where this change is visible")
    seen, runs, _ = observe(binary, root, [LEVEL, ZED_BAD, BETA_BAD], repeats=2)
    report("two faults", seen, runs)
    ok &= all(k[0] == "FAIL" for k in seen)
    ok &= len({frozenset(k[1]) for k in seen}) == 1  # same set of diagnostics everywhere
    orders = len(seen)

    print("== 4. mutual recursion of two function blocks: verdict in every layout (checked);")
    print("      the reported location (informational, see README)")
    seen, runs, _ = observe(binary, root, [CYC_Z, CYC_A], repeats=2)
    report("cycle", seen, runs)
    ok &= all(k[0] == "FAIL" and [c for c, _ in k[1]] == ["P0010"] for k in seen)
    cyc = len(seen)

    print()
    print("Behaviour of this build: %d order(s) of the two diagnostics in (3), "
          "%d location(s) of the cycle in (4)" % (orders, cyc))
    if orders == 1 and cyc == 1:
        print("  -> canonical declaration order (behaviour WITH patch A)")
    else:
        print("  -> order follows the layout (behaviour of HEAD, WITHOUT patch A)")
    return ok


main(body)
