#!/usr/bin/env python3
"""Demo / independent check for change A (C12).

usage: demo.py <path of the compiler workspace>   (binary: $1/target/debug/ironplcc)

Drives the language server over stdio with requests that are named like
notifications, a repeated initialize, unimplemented methods, notifications
named like requests, client responses; prints how each request was answered
and checks the property C12 literally:
  - every request is answered exactly once with its id,
  - nothing else is answered (no response for a notification / client response),
  - shutdown + exit => exit status 0.
Exits 0 when that holds (with and without the change).
"""
import json, os, shutil, subprocess, sys, tempfile, threading, queue


class Server:
    def __init__(self, binary, cwd):
        self.p = subprocess.Popen([binary, "lsp", "--stdio"], cwd=cwd, stdin=subprocess.PIPE,
                                  stdout=subprocess.PIPE, stderr=subprocess.DEVNULL)
        self.q = queue.Queue()
        self.t = threading.Thread(target=self._reader, daemon=True)
        self.t.start()

    def _reader(self):
        out = self.p.stdout
        while True:
            length = None
            while True:
                line = out.readline()
                if not line:
                    self.q.put(None)
                    return
                line = line.strip()
                if not line:
                    break
                if line.lower().startswith(b"content-length:"):
                    length = int(line.split(b":")[1])
            body = out.read(length)
            self.q.put(json.loads(body))

    def send(self, msg):
        msg = dict(msg, jsonrpc="2.0")
        body = json.dumps(msg).encode()
        self.p.stdin.write(b"Content-Length: %d\r\n\r\n" % len(body) + body)
        self.p.stdin.flush()

    def recv(self, timeout=60):
        return self.q.get(timeout=timeout)


def main():
    ws = os.path.abspath(sys.argv[1])
    binary = os.path.join(ws, "target", "debug", "ironplcc")
    tmp = tempfile.mkdtemp(prefix="c12A-")
    ok = True
    try:
        uri = "file://" + os.path.join(tmp, "main.st")
        text = "FUNCTION_BLOCK fb\nVAR\n  x : INT;\nEND_VAR\n  x := 1;\nEND_FUNCTION_BLOCK\n"
        s = Server(binary, tmp)
        s.send({"id": 0, "method": "initialize", "params": {"capabilities": {}}})
        init = s.recv()
        assert init.get("id") == 0 and "result" in init, init
        s.send({"method": "initialized", "params": {}})

        requests = {}   # id -> method, in the order sent
        def req(id_, method, params=None):
            requests[json.dumps(id_)] = method
            m = {"id": id_, "method": method}
            if params is not None:
                m["params"] = params
            s.send(m)
        def note(method, params=None):
            m = {"method": method}
            if params is not None:
                m["params"] = params
            s.send(m)

        note("textDocument/didOpen", {"textDocument": {"uri": uri, "languageId": "st", "version": 1, "text": text}})
        req(1, "textDocument/semanticTokens/full", {"textDocument": {"uri": uri}})
        # requests named like notifications
        req(2, "textDocument/didOpen", {"textDocument": {"uri": uri, "languageId": "st", "version": 2, "text": "garbage"}})
        req("abc", "exit")
        req(3, "initialize", {"capabilities": {}})
        req(4, "textDocument/hover", {"textDocument": {"uri": uri}, "position": {"line": 0, "character": 0}})
        req(5, "$/cancelRequest", {"id": 1})
        req(6, "workspace/didChangeConfiguration", {"settings": None})
        req(7, "$/unknownThing", {})
        req(8, "initialized", {})
        # notifications named like requests, and other things that must not be answered
        note("textDocument/hover", {"textDocument": {"uri": uri}, "position": {"line": 0, "character": 0}})
        note("shutdown")
        note("textDocument/semanticTokens/full", {"textDocument": {"uri": uri}})
        note("$/cancelRequest", {"id": 4})
        note("workspace/didChangeConfiguration", {"settings": None})
        s.send({"id": 99, "result": None})
        s.send({"id": 4, "error": {"code": -32601, "message": "client says no"}})
        note("textDocument/didChange", {"textDocument": {"uri": uri, "version": 2}, "contentChanges": []})
        req(9, "textDocument/semanticTokens/full", {"textDocument": {"uri": uri}})
        req(10, "shutdown")

        answers = {}
        others = []
        while True:
            m = s.recv()
            if m is None:
                print("FAIL: server closed its output before answering shutdown")
                ok = False
                break
            if "id" in m and "method" not in m:
                answers.setdefault(json.dumps(m["id"]), []).append(m)
                if m["id"] == 10:
                    break
            else:
                others.append(m)
        note("exit")
        status = s.p.wait(timeout=60)
        # anything after the shutdown response?
        while True:
            m = s.recv()
            if m is None:
                break
            if "id" in m and "method" not in m:
                answers.setdefault(json.dumps(m["id"]), []).append(m)
            else:
                others.append(m)

        print("how each request was answered:")
        for id_, method in requests.items():
            got = answers.get(id_, [])
            if len(got) != 1:
                print("FAIL: request id %s (%s) answered %d times" % (id_, method, len(got)))
                ok = False
                continue
            a = got[0]
            if ("result" in a) == ("error" in a):
                print("FAIL: answer for %s has not exactly one of result / error: %r" % (id_, a))
                ok = False
            if "error" in a:
                print("  id %-5s %-34s error %d %s" % (id_, method, a["error"]["code"], a["error"]["message"]))
            else:
                r = a["result"]
                shown = "null" if r is None else "tokens: %d numbers" % len(r.get("data", []))
                print("  id %-5s %-34s result %s" % (id_, method, shown))
        for id_ in answers:
            if id_ not in requests:
                print("FAIL: a response with id %s that no request had" % id_)
                ok = False
        # 1, 9 and shutdown are implemented: they must have results
        for id_ in ("1", "9", "10"):
            if not answers.get(id_) or "result" not in answers[id_][0]:
                print("FAIL: implemented request %s without a result" % id_)
                ok = False
        for id_, method in requests.items():
            if id_ not in ("1", "9", "10") and answers.get(id_) and "error" not in answers[id_][0]:
                print("FAIL: unimplemented request %s (%s) without an error" % (id_, method))
                ok = False
        print("other messages from the server: " + ", ".join(m.get("method", "?") for m in others))
        for m in others:
            if "id" in m:
                print("note: server-to-client request %r" % m)
        print("exit status after shutdown + exit: %d" % status)
        if status != 0:
            ok = False
        # Informational only (not part of the verdict): parameters that do not fit
        # the method. The unchanged tree panics here, so this is outside what the
        # property can be checked on there.
        s = Server(binary, tmp)
        s.send({"id": 0, "method": "initialize", "params": {"capabilities": {}}})
        s.recv()
        s.send({"method": "initialized", "params": {}})
        def quiet_send(m):
            try:
                s.send(m)
            except OSError:
                pass
        quiet_send({"id": 1, "method": "textDocument/semanticTokens/full", "params": {}})
        quiet_send({"id": 2, "method": "shutdown"})
        got = []
        while True:
            m = s.recv()
            if m is None:
                break
            got.append(m)
            if m.get("id") == 2:
                break
        quiet_send({"method": "exit"})
        try:
            s.p.stdin.close()
        except OSError:
            pass
        st = s.p.wait(timeout=60)
        first = got[0] if got else None
        if first and first.get("id") == 1 and "error" in first:
            print("info: semanticTokens/full with params {} -> error %d %s; exit status %d"
                  % (first["error"]["code"], first["error"]["message"], st))
        else:
            print("info: semanticTokens/full with params {} -> server ended without answering (exit status %d)" % st)
    finally:
        shutil.rmtree(tmp, ignore_errors=True)
    print("PROPERTY C12 %s on this run" % ("HOLDS" if ok else "VIOLATED"))
    sys.exit(0 if ok else 1)


if __name__ == "__main__":
    main()
