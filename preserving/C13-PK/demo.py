#!/usr/bin/env python3
"""Change B: "not implemented" findings (P9999) are announced as warnings.

usage: demo.py <compiler workspace dir>      (binary: $1/target/debug/ironplcc)

Prints the first line of every diagnostic (severity word and code) and the
note lines, and checks the command line contract (C13) around the changed
behaviour. Exits 0 when the contract
holds on everything tried (with and without the change).
"""
import itertools
import os
import re
import shutil
import subprocess
import sys
import tempfile

ANSI = re.compile(r"\x1b\[[0-9;]*m")
CODED = re.compile(r"^(?:error|warning|bug|note|help)\[(P\d{4})\]", re.M)
HEADER = re.compile(r"^(\w+\[P\d{4}\]): ", re.M)
NOTE = re.compile(r"^\s*= (.*)$", re.M)

VALID_A = "FUNCTION_BLOCK FBA\nVAR\n  x : INT;\nEND_VAR\n  x := 1;\nEND_FUNCTION_BLOCK\n"
VALID_B = "FUNCTION_BLOCK FBB\nVAR\n  y : INT; (* Größe: ä ö ü, данные *)\nEND_VAR\n  y := 2;\nEND_FUNCTION_BLOCK\n"
SYNTAX = "FUNCTION_BLOCK FBS\nVAR\n  x : INT\nEND_VAR\n  x := 1;\nEND_FUNCTION_BLOCK\n"
SEMANTIC = "TYPE\n  LEVEL : (LOW, HIGH, LOW) := LOW; (* Stufe: niedrig, höher *)\nEND_TYPE\n"
TODO = "FUNCTION_BLOCK FBN\nVAR\n  arr : ARRAY[1..3] OF INT;\nEND_VAR\n  (* Zähler: ä ö ü 数 *) arr[1] := 5;\nEND_FUNCTION_BLOCK\n"
TODO_FIXED = "FUNCTION_BLOCK FBN\nVAR\n  arr : INT;\nEND_VAR\n  (* Zähler: ä ö ü 数 *) arr := 5;\nEND_FUNCTION_BLOCK\n"
BADTOKEN = "FUNCTION_BLOCK FBT\nVAR\n  x : INT;\nEND_VAR\n  x := 1 ? 2;\nEND_FUNCTION_BLOCK\n"

failures = []


def fail(msg):
    failures.append(msg)
    print("CONTRACT VIOLATED: " + msg)


class Tool:
    def __init__(self, binary, tmpdir):
        self.binary = binary
        self.env = dict(os.environ, TMPDIR=tmpdir, NO_COLOR="1")

    def run(self, action, args, cwd):
        p = subprocess.run([self.binary, action] + list(args), cwd=cwd, env=self.env,
                           stdout=subprocess.PIPE, stderr=subprocess.PIPE, timeout=120)
        out = p.stdout.decode("utf-8", "replace")
        err = ANSI.sub("", p.stderr.decode("utf-8", "replace"))
        return p.returncode, out, err


def has_ok_line(out):
    return any(line == "OK" for line in out.splitlines())


def check_contract(what, rc, out, err):
    """exit 0 and OK exactly when no diagnostic; else non-zero, >= 1 coded, no OK."""
    codes = CODED.findall(err)
    ok = has_ok_line(out)
    if rc < 0:
        fail("%s: killed by signal %d" % (what, -rc))
    if "panicked" in err:
        fail("%s: panic" % what)
    if rc == 0:
        if codes:
            fail("%s: exit 0 with diagnostics %s" % (what, codes))
        if not ok:
            fail("%s: exit 0 without OK" % what)
    else:
        if not codes:
            fail("%s: exit %d without a coded diagnostic" % (what, rc))
        if ok:
            fail("%s: exit %d and OK" % (what, rc))
    return sorted(codes)


def main():
    ws = os.path.abspath(sys.argv[1])
    binary = os.path.join(ws, "target", "debug", "ironplcc")
    root = os.path.realpath(tempfile.mkdtemp(prefix="c13b-"))
    try:
        tooltmp = os.path.join(root, "tmp")
        os.mkdir(tooltmp)
        tool = Tool(binary, tooltmp)

        work = os.path.join(root, "wörk")
        only = os.path.join(work, "only_todo")        # nothing but a P9999 finding
        with_valid = os.path.join(work, "todo_and_valid")
        with_error = os.path.join(work, "todo_and_error")
        good = os.path.join(work, "good")
        elsewhere = os.path.join(root, "elsewhere")
        for d in (only, with_valid, with_error, good, elsewhere):
            os.makedirs(d)

        def put(d, name, text):
            with open(os.path.join(d, name), "w", encoding="utf-8") as f:
                f.write(text)
            return os.path.join(d, name)

        put(only, "todo.st", TODO)
        put(with_valid, "a.st", VALID_A)
        put(with_valid, "todo.st", TODO)
        put(with_valid, "ü.st", VALID_B)
        put(with_error, "syn.st", SYNTAX)
        put(with_error, "todo.st", TODO)
        put(good, "a.st", VALID_A)
        put(good, "b.st", VALID_B)

        # ---- visible difference -------------------------------------------
        print("== first lines of the diagnostics, and their notes")
        for d in (only, with_valid, with_error, good):
            rc, out, err = tool.run("check", [d], elsewhere)
            print("  check %-16s exit=%d OK=%s %s" % (os.path.basename(d), rc, has_ok_line(out), HEADER.findall(err)))
            for note in NOTE.findall(err):
                print("      = " + note)
            print("      last line of stderr: " + (err.strip().splitlines() or [""])[-1])
            check_contract("show %s" % d, rc, out, err)

        # ---- check: files, directory, mixture, every order, several cwds ----
        print("== contract for check")
        n = 0
        expected = {only: ["P9999"], with_valid: ["P9999"], good: []}
        for d in (only, with_valid, with_error, good):
            names = sorted(os.listdir(d))
            for cwd in (d, elsewhere):
                def spell(p):
                    return os.path.relpath(p, cwd)
                results = []
                for args in ([spell(d)], [d]):
                    rc, out, err = tool.run("check", args, cwd)
                    codes = check_contract("check %s in %s" % (args, cwd), rc, out, err)
                    results.append((rc == 0, tuple(codes)))
                    n += 1
                for order in itertools.permutations(names):
                    for absolute in (False, True):
                        args = [os.path.join(d, f) if absolute else spell(os.path.join(d, f)) for f in order]
                        rc, out, err = tool.run("check", args, cwd)
                        codes = check_contract("check %s in %s" % (args, cwd), rc, out, err)
                        results.append((rc == 0, tuple(codes)))
                        n += 1
                if len(set(results)) != 1:
                    fail("directory %s and its files disagree from %s: %s" % (d, cwd, results))
                ok, codes = results[0]
                if d in expected and list(codes) != expected[d]:
                    fail("%s: codes %s, expected %s" % (d, codes, expected[d]))
                if ok != (d == good):
                    fail("%s: ok=%s" % (d, ok))
        # a directory and a file: good + todo in both orders must fail with P9999 only
        for args in ([good, os.path.join(only, "todo.st")], [os.path.join(only, "todo.st"), good],
                     [only, good], [good, only]):
            rc, out, err = tool.run("check", args, elsewhere)
            codes = check_contract("check %s" % args, rc, out, err)
            if rc == 0 or codes != ["P9999"]:
                fail("mixture %s: rc=%d codes=%s" % (args, rc, codes))
            n += 1
        # missing path next to a P9999 file
        for args in (["nope.st", os.path.join(only, "todo.st")], [os.path.join(only, "todo.st"), "nope.st"]):
            rc, out, err = tool.run("check", args, elsewhere)
            check_contract("check %s" % args, rc, out, err)
            if rc == 0:
                fail("missing path accepted: %s" % args)
            n += 1
        print("  %d runs" % n)

        # ---- the finding goes away and comes back between runs -----------------
        print("== file changed between runs")
        for text, expect_ok in ((TODO_FIXED, True), (TODO, False), (SYNTAX, False), (TODO_FIXED, True), (TODO, False)):
            put(with_valid, "todo.st", text)
            for cwd, arg in ((with_valid, "."), (elsewhere, with_valid)):
                rc, out, err = tool.run("check", [arg], cwd)
                codes = check_contract("check %s after edit" % arg, rc, out, err)
                if (rc == 0) != expect_ok:
                    fail("stale answer from %s: exit %d" % (cwd, rc))
                if text is TODO and codes != ["P9999"]:
                    fail("expected P9999 only, got %s" % codes)

        # ---- echo / tokenize: a P9999 file parses and tokenizes ----------------
        print("== echo / tokenize")
        bad_tok = put(elsewhere, "tok.st", BADTOKEN)
        syn = put(elsewhere, "syn.st", SYNTAX)
        todo = os.path.join(only, "todo.st")
        cases = (
            ([todo], True, True),
            ([todo, os.path.join(good, "a.st")], True, True),
            ([todo, syn], False, True),
            ([todo, bad_tok], False, False),
        )
        for files, parses, tokenizes in cases:
            for order in itertools.permutations(files):
                args = list(order)
                rc, out, err = tool.run("echo", args, work)
                if (rc == 0) != parses:
                    fail("echo %s: exit %d, parses=%s" % (args, rc, parses))
                if rc != 0 and not CODED.findall(err):
                    fail("echo %s: failure without a coded diagnostic" % args)
                rc, out, err = tool.run("tokenize", args, work)
                if (rc == 0) != tokenizes:
                    fail("tokenize %s: exit %d, tokenizes=%s" % (args, rc, tokenizes))
                if rc != 0 and not CODED.findall(err):
                    fail("tokenize %s: failure without a coded diagnostic" % args)
    finally:
        shutil.rmtree(root, ignore_errors=True)

    if failures:
        print("%d violation(s)" % len(failures))
        return 1
    print("contract holds on everything tried")
    return 0


if __name__ == "__main__":
    sys.exit(main())
