#!/usr/bin/env python3
"""Demo and small independent check for change C (concurrent parsing, report in source order).

usage: demo.py <compiler workspace dir>     (binary: $1/target/debug/ironplcc)

Exit status 0 when property C06 held on everything that was tried.
"""
import itertools
import os
import random
import re
import shutil
import subprocess
import sys
import tempfile

ANSI = re.compile(r"\x1b\[[0-9;]*m")
HEAD = re.compile(r"^error\[(P\d+)\]: (.*)$")
LOCUS = re.compile(r"^\s*┌─ (.*):(\d+):(\d+)$")
SRC = re.compile(r"^\s*(\d+) │ ?(.*)$")
MARK = re.compile(r"^\s*│ ?(\s*)(\^+|-+)(?: (.*))?$")


def run_check(binary, args, cwd):
    p = subprocess.run([binary, "check"] + args, cwd=cwd, stdout=subprocess.PIPE,
                       stderr=subprocess.PIPE, timeout=60)
    out = p.stdout.decode("utf-8", "replace")
    err = ANSI.sub("", p.stderr.decode("utf-8", "replace"))
    if p.returncode < 0 or p.returncode == 101 or "panicked" in err:
        raise SystemExit("FAIL: crash on %r\n%s" % (args, err))
    ok = out.strip() == "OK" and p.returncode == 0
    if not ok and p.returncode == 0:
        raise SystemExit("FAIL: no OK and exit status 0 on %r\n%s%s" % (args, out, err))
    return ok, parse(err), err


def parse(err):
    """-> list of diagnostics: (code, message, [(style, file, line, col, text)])"""
    diags = []
    cur = None
    path = None
    line_no = None
    for raw in err.splitlines():
        m = HEAD.match(raw)
        if m:
            cur = (m.group(1), m.group(2), [])
            diags.append(cur)
            path = None
            continue
        if cur is None:
            continue
        m = LOCUS.match(raw)
        if m:
            path = m.group(1)
            line_no = None
            continue
        m = SRC.match(raw)
        if m and path is not None:
            line_no = int(m.group(1))
            continue
        m = MARK.match(raw)
        if m and path is not None and line_no is not None:
            style = "primary" if m.group(2)[0] == "^" else "secondary"
            cur[2].append((style, os.path.realpath(path), line_no,
                           len(m.group(1)) + 1, m.group(3) or ""))
    return diags


class Layout:
    """Declarations written to files; knows which declaration owns a line."""

    def __init__(self, root, decls, order, assignment, names):
        # order: permutation of range(len(decls)); assignment[i]: file index of
        # the declaration at position i of the order; names[k]: name of file k
        self.owner = {}
        self.files = []
        per_file = {}
        for pos, d in enumerate(order):
            per_file.setdefault(assignment[pos], []).append(d)
        for k in sorted(per_file):
            path = os.path.join(root, names[k])
            os.makedirs(os.path.dirname(path), exist_ok=True)
            text = []
            for d in per_file[k]:
                for rel, l in enumerate(decls[d].split("\n")):
                    self.owner[(os.path.realpath(path), len(text) + 1)] = (d, rel)
                    text.append(l)
                text.append("")
            with open(path, "w") as f:
                f.write("\n".join(text) + "\n")
            self.files.append(path)

    def signature(self, diags, with_messages=True):
        """The diagnostics in terms of declarations, as a sorted list."""
        sig = []
        for code, message, labels in diags:
            labs = []
            for style, path, line, col, text in labels:
                d, rel = self.owner.get((path, line), ("?", line))
                labs.append((style, d, rel, col) + ((text,) if with_messages else ()))
            prim = tuple(l for l in labs if l[0] == "primary")
            sec = tuple(sorted(l for l in labs if l[0] == "secondary"))
            sig.append((code, message if with_messages else "", prim, sec))
        return sorted(sig)


def set_partitions(n, max_blocks):
    """Restricted growth strings: assignment of n items to <= max_blocks files."""
    def rec(prefix, used):
        if len(prefix) == n:
            yield tuple(prefix)
            return
        for b in range(min(used + 1, max_blocks)):
            yield from rec(prefix + [b], max(used, b + 1))
    yield from rec([], 0)


NAMES = ["a.st", "m.st", "z.st"]


def variants(n, rng, limit):
    """(order, assignment, names, argument order or None for 'the directory')"""
    allv = []
    for order in itertools.permutations(range(n)):
        for assignment in set_partitions(n, 3):
            k = max(assignment) + 1
            for names in itertools.permutations(NAMES, k):
                for args in itertools.permutations(range(k)):
                    allv.append((order, assignment, names, args))
                allv.append((order, assignment, names, None))
    if len(allv) > limit:
        allv = rng.sample(allv, limit)
    return allv


def explore(binary, title, decls, limit=350, repeats=2):
    """Runs all variants; returns {verdict}, {signature}, count"""
    rng = random.Random(6)
    verdicts = {}
    signatures = {}
    shapes = {}
    sequences = {}
    unsorted = 0
    n = 0
    for order, assignment, names, args in variants(len(decls), rng, limit):
        root = tempfile.mkdtemp(prefix="c06demo-")
        try:
            lay = Layout(root, decls, order, assignment, names)
            argv = [root] if args is None else [lay.files[i] for i in args]
            for _ in range(repeats):  # fresh process, fresh hash seed
                ok, diags, err = run_check(binary, argv, root)
                n += 1
                verdicts.setdefault(ok, (order, assignment, names, args))
                signatures.setdefault(repr(lay.signature(diags)), err)
                shapes.setdefault(repr(lay.signature(diags, False)), err)
                seq = tuple(d[0] for d in diags)
                sequences.setdefault(seq, err)
                where = [(l[1], l[2], l[3]) for d in diags for l in d[2] if l[0] == "primary"]
                if where != sorted(where):
                    unsorted += 1
        finally:
            shutil.rmtree(root, ignore_errors=True)
    print("== %s: %d runs, verdicts %s, %d distinct report(s)" %
          (title, n, sorted("OK" if v else "error" for v in verdicts), len(signatures)))
    explore.sequences = sequences
    explore.unsorted = unsorted
    explore.runs = n
    return verdicts, signatures, shapes


def expect(cond, what):
    if not cond:
        print("FAIL: " + what)
        sys.exit(1)


# --------------------------------------------------------------------------

T_LEVEL = "TYPE\n  LEVEL : (LOW, HIGH) := LOW;\nEND_TYPE"
T_RANGE_BAD = "TYPE\n  SPAN : INT (10..1);\nEND_TYPE"
T_STRUCT_BAD = "TYPE\n  PAIR : STRUCT\n    one : INT;\n    ONE : INT;\n  END_STRUCT;\nEND_TYPE"
FB_USER = ("FUNCTION_BLOCK USER\nVAR\n  lvl : LEVEL;\n  done : BOOL;\nEND_VAR\n"
           "  done := TRUE;\nEND_FUNCTION_BLOCK")
FB_BAD = ("FUNCTION_BLOCK WORKER\nVAR\n  done : BOOL;\nEND_VAR\n"
          "  done := missing;\nEND_FUNCTION_BLOCK")
FB_CONST_BAD = ("FUNCTION_BLOCK KEEPER\nVAR CONSTANT\n  limit : INT;\nEND_VAR\n"
                "END_FUNCTION_BLOCK")
FB_CALLER = ("FUNCTION_BLOCK CALLER\nVAR\n  u : USER;\nEND_VAR\n"
             "  u();\nEND_FUNCTION_BLOCK")
FB_SYNTAX = "FUNCTION_BLOCK BROKEN\nVAR\n  x : ;\nEND_VAR\nEND_FUNCTION_BLOCK"


def chain(binary, n, fault_at):
    """n function blocks, each with an instance of the one before; all in one
    file and one per file (more files than parser threads)."""
    def fb(i):
        var = "  prev : FB_%d;\n" % (i - 1) if i else ""
        body = "  ok := nowhere;\n" if i == fault_at else "  ok := TRUE;\n"
        return "FUNCTION_BLOCK FB_%d\nVAR\n%s  ok : BOOL;\nEND_VAR\n%sEND_FUNCTION_BLOCK" % (i, var, body)
    decls = [fb(i) for i in range(n)]
    seen = set()
    rng = random.Random(3)
    for files in (1, n, 7):
        for trial in range(3):
            order = list(range(n))
            rng.shuffle(order)
            assignment = [pos % files for pos in range(n)]
            names = ["f%02d.st" % ((k * 3) % files) for k in range(files)]
            root = tempfile.mkdtemp(prefix="c06demo-")
            try:
                lay = Layout(root, decls, order, assignment, names)
                argv = list(lay.files)
                rng.shuffle(argv)
                for a in (argv, [root]):
                    ok, diags, err = run_check(binary, a, root)
                    seen.add((ok, repr(lay.signature(diags))))
            finally:
                shutil.rmtree(root, ignore_errors=True)
    expect(len(seen) == 1, "chain of %d: results differ: %s" % (n, seen))
    print("== chain of %d function blocks in 1, 7 and %d files, shuffled: always %s"
          % (n, n, next(iter(seen))))


def main():
    ws = sys.argv[1]
    binary = os.path.join(os.path.abspath(ws), "target", "debug", "ironplcc")
    expect(os.access(binary, os.X_OK), "no binary at " + binary)

    # 1. clean unit: what is declared in one file is visible in the others
    v, s, _ = explore(binary, "clean unit", [T_LEVEL, FB_USER, FB_CALLER], repeats=3)
    expect(set(v) == {True}, "clean unit must be OK in every arrangement")

    # 2. single faults: code and location fixed
    for title, decls in (
        ("one undefined variable", [T_LEVEL, FB_USER, FB_BAD]),
        ("one constant without value", [T_LEVEL, FB_CONST_BAD, FB_USER, FB_CALLER]),
    ):
        v, s, _ = explore(binary, title, decls, repeats=3)
        expect(set(v) == {False}, "verdict must be 'error' in every arrangement")
        expect(len(s) == 1, "code and location must not depend on the arrangement:\n"
               + "\n".join(s))
        print("   report: " + next(iter(s)))

    # A file with a syntax error contributes none of its declarations, so what
    # else is reported depends on what shares the file (both with and without
    # the change). The verdict and the syntax error itself must be stable.
    v, s, shapes = explore(binary, "one syntax error", [T_LEVEL, FB_SYNTAX, FB_USER], repeats=3)
    expect(set(v) == {False}, "verdict must be 'error' in every arrangement")
    p2 = {repr([d for d in eval(sig) if d[0] == "P0002"]) for sig in shapes}
    expect(len(p2) == 1 and p2 != {"[]"}, "the syntax error must be reported at one place: %s" % p2)
    print("   syntax error always at " + next(iter(p2)))

    # 3. more files than parser threads
    chain(binary, 40, None)
    chain(binary, 40, 17)

    # 4. several faults found by different passes: only the verdict is promised
    v, s, shapes = explore(binary, "four faults of four kinds",
                           [FB_CONST_BAD, T_RANGE_BAD, FB_BAD, T_STRUCT_BAD], limit=300)
    expect(set(v) == {False}, "verdict must be 'error' in every arrangement")
    seqs = explore.sequences
    print("   sequences of codes seen over the arrangements (%d):" % len(seqs))
    for q in sorted(seqs)[:8]:
        print("      " + " ".join(q))
    if len(seqs) > 8:
        print("      ...")
    print("   runs whose diagnostics are NOT in the order of the text (file, line, column): "
          "%d of %d" % (explore.unsorted, explore.runs))
    if explore.unsorted == 0:
        print("   -> reported in source order: behaviour WITH change C")
    else:
        print("   -> reported in the order of the analysis passes: behaviour WITHOUT change C")
    print("   example:\n" + "\n".join("      " + l for l in
                                      sorted(seqs.items())[-1][1].splitlines()
                                      if l.startswith("error") or "┌─" in l))

    print("PASS: property C06 held on everything tried")


if __name__ == "__main__":
    main()
