#!/usr/bin/env python3
"""Demo for change A (result cache of `check` in the temporary directory).

usage: demo.py <path of the compiler workspace>   (binary: $1/target/debug/ironplcc)

Prints what is visibly different (entries kept under $TMPDIR/ironplcc/check-cache,
"cache hit" lines in the log) and checks C03 around it. Exit 0 = property held.
"""
import itertools, os, re, shutil, subprocess, sys, tempfile

ws = os.path.abspath(sys.argv[1])
BIN = os.path.join(ws, "target", "debug", "ironplcc")
root = tempfile.mkdtemp(prefix="c03-A-")
tmp = os.path.join(root, "tmp")
src = os.path.join(root, "src")
os.mkdir(tmp)
os.mkdir(src)
env = dict(os.environ, TMPDIR=tmp)
env.pop("IRONPLC_NO_CHECK_CACHE", None)
ANSI = re.compile(r"\x1b\[[0-9;]*m")
problems = []
hits = 0


def write(name, text, where=src):
    path = os.path.join(where, name)
    with open(path, "wb") as f:
        f.write(text.encode("utf-8") if isinstance(text, str) else text)
    return path


def check(paths, cwd=None):
    """Returns (exit code, sorted codes of the diagnostics)."""
    global hits
    p = subprocess.run([BIN, "-vv", "check"] + list(paths), env=env, cwd=cwd,
                       stdout=subprocess.PIPE, stderr=subprocess.PIPE, timeout=120)
    err = ANSI.sub("", p.stderr.decode("utf-8", "replace"))
    log = os.path.join(tmp, "ironplcc", "ironplcc.log")
    if os.path.exists(log) and "Check cache hit" in open(log, errors="replace").read():
        hits += 1
    return p.returncode, sorted(re.findall(r"error\[(P\d+)\]", err)), p.stdout.decode()


def expect_fail(what, paths, code=None, cwd=None):
    rc, codes, out = check(paths, cwd)
    if rc == 0 or "OK" in out or (code and code not in codes):
        problems.append("MASKED: %s: rc=%s codes=%s (wanted %s)" % (what, rc, codes, code))
    return codes


def expect_ok(what, paths, cwd=None):
    rc, codes, out = check(paths, cwd)
    if rc != 0 or codes:
        problems.append("unexpected failure: %s: rc=%s codes=%s" % (what, rc, codes))


def entries():
    d = os.path.join(tmp, "ironplcc", "check-cache")
    return sorted(os.listdir(d)) if os.path.isdir(d) else []


VALID = {
    "a.st": "TYPE\n  LEVEL : (LOW, HIGH) := LOW;\nEND_TYPE\n",
    "b.st": "FUNCTION_BLOCK FB\nVAR\n x : LEVEL;\nEND_VAR\nEND_FUNCTION_BLOCK\n",
    "c.st": "(* Grüße € *)\nFUNCTION_BLOCK OTHER\nVAR\n y : INT;\nEND_VAR\nEND_FUNCTION_BLOCK\n",
    "d.st": "TYPE\n  R : INT (1..10);\nEND_TYPE\n",
}
FAULTY = {  # name -> (text, expected code)
    "f_syntax.st": ("TYPE\n  T2 : INT (1..10)\nEND_TYPE\n", "P0002"),
    "f_token.st": ("TYPE\n  café : INT (1..10);\nEND_TYPE\n", "P0031"),
    "f_struct.st": ("TYPE\n  S : STRUCT\n x: INT; x : INT;\n END_STRUCT;\nEND_TYPE\n", "P0003"),
    "f_range.st": ("TYPE\n  R2 : INT (10..1);\nEND_TYPE\n", "P0004"),
    "f_enum.st": ("TYPE\n  E2 : (Ä , B, B) := B;\nEND_TYPE\n", None),
    "f_dup_fb.st": ("FUNCTION_BLOCK FB\nVAR\n z : INT;\nEND_VAR\nEND_FUNCTION_BLOCK\n", "P0019"),
    "f_dup_type.st": ("TYPE\n  LEVEL : (A1, B1) := A1;\nEND_TYPE\n", "P0019"),
}

try:
    valid = [write(n, t) for n, t in VALID.items()]

    # 1. the valid set alone, several times and in several orders (this is
    #    what fills the cache with "passed" entries)
    for order in list(itertools.permutations(valid))[:6]:
        expect_ok("valid set", order)
    print("entries after checking the valid set 6 times:", entries())

    # 2. every fault, at every position among the valid files, twice each
    for name, (text, code) in FAULTY.items():
        if name == "f_enum.st":
            # 'Ä' is not IEC text: a token problem
            code = "P0031"
        faulty = write(name, text)
        seen = set()
        for k in range(len(valid) + 1):
            paths = valid[:k] + [faulty] + valid[k:]
            for _ in range(2):
                seen.add(tuple(expect_fail("%s at %d" % (name, k), paths, code)))
        for order in list(itertools.permutations(valid + [faulty]))[::17]:
            seen.add(tuple(expect_fail("%s permuted" % name, order, code)))
        # the directory as a whole (the fault is in there with the others)
        seen.add(tuple(expect_fail("%s via directory" % name, [src], code)))
        if len(seen) != 1:
            problems.append("order dependent diagnostics for %s: %s" % (name, seen))
        os.remove(faulty)
        # and without it the set passes again (the same key as in step 1)
        expect_ok("valid set after removing " + name, valid)
    print("entries after the faulty sets:", len(entries()))

    # 3. files that change on disk between runs: same name, same size, same
    #    modification time, different text
    b = valid[1]
    good = VALID["b.st"]
    st = os.stat(b)
    for bad, code in ((good.replace("x : LEVEL;", "x : LEVEL "), "P0002"),
                      (good.replace("x : LEVEL;", "x : LEVEM;"), "P0022"),
                      (good.replace(" x : LEVEL;", "§: LEVEL; "), "P0031")):
        assert len(bad.encode()) == len(good.encode()), (len(bad.encode()), len(good.encode()))
        write("b.st", bad)
        os.utime(b, ns=(st.st_atime_ns, st.st_mtime_ns))
        expect_fail("b.st changed in place", valid, code)
        expect_fail("b.st changed in place (again)", list(reversed(valid)), code)
        write("b.st", good)
        os.utime(b, ns=(st.st_atime_ns, st.st_mtime_ns))
        expect_ok("b.st repaired", valid)

    # 4. the same file names with other text in another directory, relative
    #    paths from another working directory
    other = os.path.join(root, "other")
    os.mkdir(other)
    for n, t in VALID.items():
        write(n, t, other)
    expect_ok("copy of the valid set", sorted(VALID), cwd=other)
    write("a.st", VALID["a.st"].replace("LEVEL", "LEVEM"), other)
    expect_fail("copy with a renamed type", sorted(VALID), "P0022", cwd=other)
    expect_ok("original still passes", valid)
    expect_ok("original, relative paths", sorted(VALID), cwd=src)

    # 5. damaged cache: every entry truncated, then filled with rubbish,
    #    then the verdict of every entry forged without fixing the checksum
    faulty = write("f_range.st", FAULTY["f_range.st"][0])
    expect_fail("before damage", valid + [faulty], "P0004")
    d = os.path.join(tmp, "ironplcc", "check-cache")
    for mode in ("truncate", "rubbish", "forge", "empty"):
        for e in entries():
            p = os.path.join(d, e)
            data = open(p, "rb").read()
            if mode == "truncate":
                data = data[: len(data) // 2]
            elif mode == "rubbish":
                data = bytes((x * 7 + 3) % 256 for x in range(300))
            elif mode == "forge":
                data = data.replace(b"\x01\x01\x00\x00\x00\x00\x00\x00\x00", b"\x00\x00\x00\x00\x00\x00\x00\x00\x00")
            else:
                data = b""
            open(p, "wb").write(data)
        expect_fail("damaged cache (%s)" % mode, valid + [faulty], "P0004")
        expect_fail("damaged cache (%s) again" % mode, [faulty] + valid, "P0004")
        expect_ok("damaged cache (%s), valid set" % mode, valid)

    # 6. no usable cache directory: a file in its place, then read-only
    if os.path.isdir(d):
        shutil.rmtree(d)
        open(d, "w").write("not a directory")
        expect_fail("cache path is a file", valid + [faulty], "P0004")
        expect_ok("cache path is a file, valid set", valid)
        os.remove(d)
    os.remove(faulty)

    # 7. opting out gives the same answers
    env["IRONPLC_NO_CHECK_CACHE"] = "1"
    faulty = write("f_syntax.st", FAULTY["f_syntax.st"][0])
    expect_fail("without cache", valid + [faulty], "P0002")
    os.remove(faulty)
    expect_ok("without cache", valid)

    print("runs answered from the cache (log says 'Check cache hit'):", hits)
    print("VISIBLE DIFFERENCE:", "entries are kept under $TMPDIR/ironplcc/check-cache and repeated checks are "
          "answered from them" if hits else "none (no cache in this build)")
finally:
    shutil.rmtree(root, ignore_errors=True)

for p in problems:
    print("PROBLEM:", p)
print("C03 held on everything tried" if not problems else "C03 VIOLATED")
sys.exit(1 if problems else 0)
