#!/usr/bin/env python3
"""Change C: a watchdog for the process that started the language server.

usage: demo.py <compiler workspace directory>   (binary: $1/target/debug/ironplcc)

Runs three conversations with `ironplcc lsp --stdio` whose `initialize`
request names, as `processId`,
  1. a process that has already finished,
  2. this (running) process,
  3. a helper process that is killed in the middle of the conversation,
prints what the server sent beyond answers and diagnostics, and checks
property C12 on each conversation: every request answered exactly once with
its id, no answer to anything else, the server alive to the end, status 0
after shutdown and exit.

Exits 0 when the property held (with or without the change).
"""
import json
import os
import queue
import shutil
import subprocess
import sys
import tempfile
import threading
import time


class Client:
    def __init__(self, binary, cwd, tmpdir, flags=()):
        env = dict(os.environ)
        env["TMPDIR"] = tmpdir
        self.stderr_path = os.path.join(tmpdir, "stderr.txt")
        self.stderr_file = open(self.stderr_path, "wb")
        self.proc = subprocess.Popen(
            [binary, *flags, "lsp", "--stdio"],
            stdin=subprocess.PIPE,
            stdout=subprocess.PIPE,
            stderr=self.stderr_file,
            cwd=cwd,
            env=env,
        )
        self.inbox = queue.Queue()
        self.reader = threading.Thread(target=self._read, daemon=True)
        self.reader.start()

    def _read(self):
        out = self.proc.stdout
        while True:
            length = None
            while True:
                line = out.readline()
                if not line:
                    self.inbox.put(None)
                    return
                line = line.strip()
                if not line:
                    break
                name, _, value = line.partition(b":")
                if name.lower() == b"content-length":
                    length = int(value)
            body = out.read(length)
            self.inbox.put(json.loads(body.decode("utf-8")))

    def send(self, message):
        message = dict(message, jsonrpc="2.0")
        body = json.dumps(message, ensure_ascii=False).encode("utf-8")
        self.proc.stdin.write(b"Content-Length: %d\r\n\r\n" % len(body) + body)
        self.proc.stdin.flush()

    def receive(self, timeout=30):
        """Next message from the server, None at end of output."""
        return self.inbox.get(timeout=timeout)

    def finish(self, timeout=60):
        """Closes the input, returns (remaining messages, exit status)."""
        self.proc.stdin.close()
        rest = []
        while True:
            message = self.inbox.get(timeout=timeout)
            if message is None:
                break
            rest.append(message)
        status = self.proc.wait(timeout=timeout)
        self.stderr_file.close()
        return rest, status


def threads_of(pid):
    try:
        return len(os.listdir("/proc/%d/task" % pid))
    except OSError:
        return None


def converse(binary, label, process_id, helper, failures):
    work = tempfile.mkdtemp(prefix="c12c-work-")
    tmp = tempfile.mkdtemp(prefix="c12c-tmp-")
    client = None
    try:
        client = Client(binary, work, tmp)
        sent_requests = {}
        from_server = []   # everything the server sent, in order

        def request(id_, method, params=None):
            sent_requests[json.dumps(id_)] = method
            message = {"id": id_, "method": method}
            if params is not None:
                message["params"] = params
            client.send(message)

        def notify(method, params=None):
            message = {"method": method}
            if params is not None:
                message["params"] = params
            client.send(message)

        def wait_response(id_):
            while True:
                message = client.receive()
                if message is None:
                    raise RuntimeError("server closed its output")
                from_server.append(message)
                if "method" not in message and message.get("id") == id_:
                    return message

        def drain(seconds):
            deadline = time.time() + seconds
            while True:
                left = deadline - time.time()
                if left <= 0:
                    return
                try:
                    message = client.receive(timeout=left)
                except queue.Empty:
                    return
                if message is None:
                    raise RuntimeError("server closed its output during a pause")
                from_server.append(message)

        uri = "file://" + work + "/gr%C3%B6%C3%9Fe.st"
        text = "(* Größe \U0001F600 *)\nPROGRAM main\nVAR\n  a : INT;\nEND_VAR\n  a := 1;\nEND_PROGRAM\n"

        request(1, "initialize", {"processId": process_id, "rootUri": None, "capabilities": {}})
        wait_response(1)
        notify("initialized", {})
        notify("textDocument/didOpen", {"textDocument": {
            "uri": uri, "languageId": "61131-3-st", "version": 1, "text": text}})
        request(2, "textDocument/semanticTokens/full", {"textDocument": {"uri": uri}})
        wait_response(2)
        threads_early = threads_of(client.proc.pid)
        if helper is not None:
            helper.kill()
            helper.wait()
        drain(1.6)     # longer than the interval at which the watchdog looks
        if client.proc.poll() is not None:
            failures.append("%s: the server ended on its own (status %r)" % (label, client.proc.poll()))
        threads_late = threads_of(client.proc.pid)
        request("h", "textDocument/hover", {"textDocument": {"uri": uri},
                                            "position": {"line": 0, "character": 0}})
        notify("workspace/didChangeConfiguration", {"settings": {}})
        client.send({"id": 0, "result": None})
        for i in range(6):
            changes = [{"text": text + "(* %d *)\n" % i}] * (i % 3)
            notify("textDocument/didChange", {"textDocument": {"uri": uri, "version": 2 + i},
                                              "contentChanges": changes})
            request(100 + i, "textDocument/semanticTokens/full", {"textDocument": {"uri": uri}})
        notify("textDocument/didChange", {"textDocument": {"uri": "untitled:Untitled-1", "version": 1},
                                          "contentChanges": [{"text": "x"}]})
        notify("textDocument/didChange", {
            "textDocument": {"uri": "file://" + work + "/never-opened.st", "version": 1},
            "contentChanges": [{"text": "PROGRAM p\nEND_PROGRAM\n"}]})
        request(3, "workspace/symbol", {"query": ""})
        wait_response(3)
        request(4, "shutdown")
        wait_response(4)
        notify("exit")
        rest, status = client.finish()
        from_server.extend(rest)

        responses = [m for m in from_server if "method" not in m]
        notifications = [m for m in from_server if "method" in m and "id" not in m]
        server_requests = [m for m in from_server if "method" in m and "id" in m]

        answered = {}
        for response in responses:
            key = json.dumps(response.get("id"))
            answered[key] = answered.get(key, 0) + 1
            if key not in sent_requests:
                failures.append("%s: response to something that is not a request: %s" % (label, key))
        for key, method in sent_requests.items():
            if answered.get(key, 0) != 1:
                failures.append("%s: %s (id %s) answered %d times" %
                                (label, method, key, answered.get(key, 0)))
        for id_ in ("h", 3):
            for response in responses:
                if response.get("id") == id_ and "error" not in response:
                    failures.append("%s: unimplemented method answered without an error" % label)
        order = [r.get("id") for r in responses]
        wanted = [1, 2, "h"] + [100 + i for i in range(6)] + [3, 4]
        if order != wanted:
            failures.append("%s: responses out of order: %r" % (label, order))
        if status != 0:
            failures.append("%s: exit status %r" % (label, status))

        print("== conversation %s (processId %s)" % (label, process_id))
        print("requests sent: %d, responses: %d, publishDiagnostics: %d, requests of the server: %d, "
              "exit status: %s" % (
                  len(sent_requests), len(responses),
                  len([n for n in notifications if n["method"] == "textDocument/publishDiagnostics"]),
                  len(server_requests), status))
        print("threads of the server before/after the pause:", threads_early, "/", threads_late)
        extra = [(i, m) for i, m in enumerate(from_server)
                 if "method" in m and m["method"] != "textDocument/publishDiagnostics"]
        if not extra:
            print("other messages of the server: none")
        for i, m in extra:
            print("other message of the server, number %d of %d: %s" %
                  (i + 1, len(from_server), json.dumps(m, ensure_ascii=False)))
        with open(client.stderr_path, "rb") as f:
            err = f.read().decode("utf-8", "replace").strip()
        print("standard error of the server:", err if err else "(empty)")
    finally:
        if client is not None:
            try:
                client.proc.kill()
            except Exception:
                pass
        if helper is not None and helper.poll() is None:
            helper.kill()
            helper.wait()
        shutil.rmtree(work, ignore_errors=True)
        shutil.rmtree(tmp, ignore_errors=True)


def main():
    workspace = os.path.abspath(sys.argv[1])
    binary = os.path.join(workspace, "target", "debug", "ironplcc")
    failures = []

    finished = subprocess.Popen(["true"])
    finished.wait()
    converse(binary, "1: finished process", finished.pid, None, failures)

    converse(binary, "2: running process", os.getpid(), None, failures)

    helper = subprocess.Popen(["sleep", "120"])
    converse(binary, "3: process killed half way", helper.pid, helper, failures)

    if failures:
        print("PROPERTY VIOLATED:")
        for failure in failures:
            print("  -", failure)
        return 1
    print("property C12 held")
    return 0


if __name__ == "__main__":
    sys.exit(main())
