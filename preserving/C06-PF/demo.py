#!/usr/bin/env python3
"""Demonstration for PRESERVING/C (see README.md). Usage: demo.py [compiler workspace]"""
import itertools
import os
import re
import shutil
import subprocess
import sys
import tempfile

WS = os.path.abspath(sys.argv[1] if len(sys.argv) > 1 else "/tmp/mut6/C06/compiler")
ANSI = re.compile(r"\x1b\[[0-9;]*m")
HEADER = re.compile(r"^error\[(P\d+)\]: (.*)$")
WHERE = re.compile(r"^\s*┌─ (.*):(\d+):(\d+)$")


def build():
    env = dict(os.environ, CARGO_NET_OFFLINE="true")
    subprocess.run(
        ["cargo", "build", "-p", "ironplcc", "--offline", "--quiet"],
        cwd=WS, env=env, check=True,
    )
    return os.path.join(WS, "target", "debug", "ironplcc")


class Layout:
    """One arrangement of the declarations: an order, a distribution over
    files, file names and the order in which the files are named."""

    def __init__(self, root, decls, order, blocks, names, arg_order, as_dir):
        self.dir = tempfile.mkdtemp(dir=root)
        self.decls = decls
        # file path -> list of (declaration index, first line, number of lines)
        self.index = {}
        contents = {}
        for pos in order:
            path = os.path.join(self.dir, names[blocks[pos]])
            text = decls[pos]
            assert text.endswith("\n")
            lines_so_far = contents.get(path, "").count("\n")
            self.index.setdefault(path, []).append(
                (pos, lines_so_far + 1, text.count("\n"))
            )
            contents[path] = contents.get(path, "") + text
        for path, text in contents.items():
            with open(path, "w") as f:
                f.write(text)
        files = sorted(contents)
        self.args = [self.dir] if as_dir else [files[i] for i in arg_order]
        self.describe = "order=%s files=%s args=%s" % (
            list(order),
            {os.path.basename(p): [d for d, _, _ in v] for p, v in self.index.items()},
            "<dir>" if as_dir else [os.path.basename(a) for a in self.args],
        )

    def locate(self, path, line, col):
        """(file, line, column) -> (declaration, line in declaration, column)"""
        path = os.path.realpath(path)
        for known, entries in self.index.items():
            if os.path.realpath(known) == path:
                for decl, first, count in entries:
                    if first <= line < first + count:
                        return (decl, line - first + 1, col)
        return ("?", path, line, col)


def check(binary, layout, root):
    env = dict(os.environ, TMPDIR=root)
    p = subprocess.run([binary, "check"] + layout.args, env=env,
                       stdout=subprocess.PIPE, stderr=subprocess.PIPE)
    err = ANSI.sub("", p.stderr.decode("utf-8", "replace"))
    diags = []
    for line in err.splitlines():
        m = HEADER.match(line)
        if m:
            diags.append({"code": m.group(1), "message": m.group(2), "where": None,
                          "others": []})
            continue
        m = WHERE.match(line)
        if m and diags:
            loc = layout.locate(m.group(1), int(m.group(2)), int(m.group(3)))
            if diags[-1]["where"] is None:
                diags[-1]["where"] = loc
            else:
                diags[-1]["others"].append(loc)
    verdict = "OK" if (p.returncode == 0 and p.stdout.decode().strip() == "OK") else "FAIL"
    if p.returncode not in (0, 1):
        verdict = "CRASH(%d)" % p.returncode
    return verdict, diags, err


def restricted_growth(n, max_blocks):
    """All partitions of n items into at most max_blocks blocks."""
    def rec(prefix, used):
        if len(prefix) == n:
            yield tuple(prefix)
            return
        for b in range(min(used + 1, max_blocks)):
            yield from rec(prefix + [b], max(used, b + 1))
    yield from rec([], 0)


def layouts(root, decls):
    """All permutations x all partitions into up to 3 files x all argument
    orders (plus: the directory as the argument) x three file naming schemes (the files of
    a set are analysed in the order of their paths)."""
    n = len(decls)
    for order in itertools.permutations(range(n)):
        for blocks in restricted_growth(n, 3):
            k = max(blocks) + 1
            for names in (["u0.st", "u1.st", "u2.st"], ["m.st", "z.st", "a.st"],
                          ["z9.st", "b.st", "k.st"]):
                for arg_order in itertools.permutations(range(k)):
                    yield Layout(root, decls, order, blocks, names, arg_order, False)
                yield Layout(root, decls, order, blocks, names, (), True)


def observe(binary, root, decls, repeats=2):
    """Runs the check in every layout (each `repeats` times: a new process has
    new hash seeds). Returns {observable: [layout descriptions]}, where the
    observable is what the property talks about: the verdict and the list of
    (code, normalised primary location)."""
    seen = {}
    runs = 0
    samples = {}
    for layout in layouts(root, decls):
        for _ in range(repeats):
            verdict, diags, err = check(binary, layout, root)
            runs += 1
            key = (verdict, tuple((d["code"], d["where"]) for d in diags))
            seen.setdefault(key, []).append(layout.describe)
            samples.setdefault(key, (layout, diags, err))
        shutil.rmtree(layout.dir)
    return seen, runs, samples


def report(title, seen, runs):
    print("-- %s: %d runs, %d distinct observable(s)" % (title, runs, len(seen)))
    for key, where in seen.items():
        print("   verdict=%s diagnostics=%s   (%d runs, e.g. %s)"
              % (key[0], list(key[1]), len(where), where[0]))


def main(body):
    binary = build()
    root = tempfile.mkdtemp(prefix="c06demo.")
    assert root and os.path.isdir(root) and root != "/"
    try:
        ok = body(binary, root)
    finally:
        shutil.rmtree(root)
    print("RESULT: %s" % ("property observables hold on the example" if ok
                          else "PROPERTY VIOLATED on the example"))
    sys.exit(0 if ok else 1)

CALLEE = """FUNCTION_BLOCK Callee
VAR_INPUT
  IN1 : BOOL;
END_VAR
VAR_OUTPUT
  OUT1 : BOOL;
END_VAR
OUT1 := IN1;
END_FUNCTION_BLOCK
"""


def caller(call):
    return """FUNCTION_BLOCK Caller
VAR
  inst : Callee;
  x : BOOL;
END_VAR
%s
END_FUNCTION_BLOCK
""" % call


MAIN = """PROGRAM main
VAR
  c : Caller;
END_VAR
END_PROGRAM
"""

UNITS = [
    ("P0008", "wrong number of positional inputs", "inst(x, x);"),
    ("P0007", "named input that the function block does not have", "inst(IN2 := x);"),
    ("P0009", "output that the function block does not have", "inst(IN1 := x, OUT2 => x);"),
]


def body(binary, root):
    ok = True
    print("== valid unit: verdict in every layout")
    seen, runs, _ = observe(binary, root, [CALLEE, caller("inst(IN1 := x);"), MAIN])
    report("valid unit", seen, runs)
    ok &= list(seen) == [("OK", ())]

    names_file = 0
    for code, title, call in UNITS:
        print("== single fault: %s" % title)
        decls = [CALLEE, caller(call), MAIN]
        seen, runs, samples = observe(binary, root, decls)
        report("`%s`" % call, seen, runs)
        ok &= len(seen) == 1
        key = list(seen)[0]
        ok &= key[0] == "FAIL" and len(key[1]) == 1
        # the problem code the example is about, at the invocation (line 6 of Caller)
        ok &= key[1][0] == (key[1][0][0], (1, 6, 1))
        print("   problem code %s (the example was written for %s)" % (key[1][0][0], code))

        # What the property leaves open: the text of the messages. Collect it
        # over a few layouts (the random part of the paths is removed).
        texts = set()
        secondary = set()
        for i, layout in enumerate(layouts(root, decls)):
            if i % 4:
                shutil.rmtree(layout.dir)
                continue
            _, diags, err = check(binary, layout, root)
            err = err.replace(os.path.realpath(layout.dir) + os.sep, "").replace(layout.dir + os.sep, "")
            texts.add(HEADER.match(err.splitlines()[0]).group(2))
            secondary.add(tuple(diags[0]["others"]))
            shutil.rmtree(layout.dir)
        print("   distinct message texts over a quarter of the layouts: %d" % len(texts))
        for t in sorted(texts):
            print("      " + t)
        print("   positions of further labels printed under a file header of their own: %s"
              % sorted(secondary))
        if any("declared in=" in t for t in texts):
            names_file += 1

    print()
    if names_file:
        print("Behaviour of this build: the messages name the file of the declaration "
              "(%d of %d examples) -> WITH patch C" % (names_file, len(UNITS)))
    else:
        print("Behaviour of this build: the messages do not name files -> HEAD, WITHOUT patch C")
    return ok


main(body)
