#!/usr/bin/env python3
# ---------------------------------------------------------------------------
# Common part: a minimal LSP client over stdio and an independent check of
# property C11 (used by the specific part at the end of this file).
# ---------------------------------------------------------------------------
import itertools, json, os, re, select, shutil, subprocess, sys, tempfile, time

if len(sys.argv) < 2:
    sys.exit("usage: demo.py <compiler workspace directory>")
BINARY = os.path.join(os.path.abspath(sys.argv[1]), "target", "debug", "ironplcc")
if not os.access(BINARY, os.X_OK):
    sys.exit("binary not found: " + BINARY)

FAILURES = []


def fail(msg):
    FAILURES.append(msg)
    print("PROPERTY VIOLATION: " + msg)


class Lsp:
    """One server process. Every message the server sends is kept in order."""

    def __init__(self, init_params=None, handshake=True):
        self.p = subprocess.Popen([BINARY, "lsp", "--stdio"], stdin=subprocess.PIPE,
                                  stdout=subprocess.PIPE, stderr=subprocess.DEVNULL)
        self.buf = b""
        self.nid = 0
        self.pending = []
        if handshake:
            params = {"processId": None, "rootUri": None, "capabilities": {}}
            if init_params:
                params.update(init_params)
            self.init_result = self.request("initialize", params)
            self.notify("initialized", {})

    def _send(self, obj):
        body = json.dumps(obj).encode()
        self.p.stdin.write(b"Content-Length: %d\r\n\r\n" % len(body) + body)
        self.p.stdin.flush()

    def notify(self, method, params):
        self._send({"jsonrpc": "2.0", "method": method, "params": params})

    def _read(self, timeout=30.0):
        end = time.time() + timeout
        while True:
            i = self.buf.find(b"\r\n\r\n")
            if i >= 0:
                head = self.buf[:i].decode()
                n = [int(l.split(":")[1]) for l in head.split("\r\n")
                     if l.lower().startswith("content-length")][0]
                if len(self.buf) >= i + 4 + n:
                    body = self.buf[i + 4:i + 4 + n]
                    self.buf = self.buf[i + 4 + n:]
                    return json.loads(body)
            left = end - time.time()
            if left <= 0:
                return None
            r, _, _ = select.select([self.p.stdout], [], [], left)
            if not r:
                return None
            chunk = os.read(self.p.stdout.fileno(), 65536)
            if not chunk:
                return None
            self.buf += chunk

    def request(self, method, params):
        self.nid += 1
        rid = self.nid
        self._send({"jsonrpc": "2.0", "id": rid, "method": method, "params": params})
        while True:
            m = self._read()
            if m is None:
                raise RuntimeError("server did not answer the request " + method)
            if m.get("id") == rid and "method" not in m:
                return m
            self.pending.append(m)

    def drain(self):
        """Everything the server sent up to now. The server handles messages
        strictly in order, so the answer to a request for a method it does not
        implement is a barrier: all earlier traffic precedes it."""
        self.request("$/demo/barrier", {})
        out, self.pending = self.pending, []
        return out

    def open(self, uri, version, text):
        self.notify("textDocument/didOpen", {"textDocument": {
            "uri": uri, "languageId": "61131-3-st", "version": version, "text": text}})
        return self.drain()

    def change(self, uri, version, text):
        self.notify("textDocument/didChange", {
            "textDocument": {"uri": uri, "version": version},
            "contentChanges": [{"text": text}]})
        return self.drain()

    def close(self):
        try:
            self.request("shutdown", None)
            self.notify("exit", None)
            self.p.stdin.close()
            self.p.wait(timeout=10)
        except Exception:
            self.p.kill()
            self.p.wait()


# The five kinds of document text of the property.
TEXTS = {
    "valid": "TYPE\n  LEVEL : (LOW, HIGH);\nEND_TYPE\n",
    "lexical": "PROGRAM plex\nVAR\n  a : INT;\nEND_VAR\n  a := 1 ` 2;\nEND_PROGRAM\n",
    "syntax": "PROGRAM psyn\nVAR\n  a : INT\nEND_VAR\n  a := 1;\nEND_PROGRAM\n",
    "semantic": "PROGRAM psem\nVAR\n  a : INT;\nEND_VAR\n  b := 1;\nEND_PROGRAM\n",
    "depends": "FUNCTION_BLOCK fdep\nVAR\n  l : LEVEL;\nEND_VAR\nEND_FUNCTION_BLOCK\n",
}


def publishes(msgs, uri=None):
    return [m for m in msgs if m.get("method") == "textDocument/publishDiagnostics"
            and (uri is None or m["params"]["uri"] == uri)]


def others(msgs):
    return [m for m in msgs if m.get("method") != "textDocument/publishDiagnostics"]


def keys(diagnostics):
    return sorted((d["code"], d["range"]["start"]["line"], d["range"]["start"]["character"])
                  for d in diagnostics)


def canonical(diagnostics):
    return sorted(json.dumps(d, sort_keys=True) for d in diagnostics)


def answer(msgs, uri, version, what):
    """The one publishDiagnostics that answers a notification."""
    mine = publishes(msgs, uri)
    if len(mine) != 1:
        fail("%s: %d publishDiagnostics for %s instead of exactly one" % (what, len(mine), uri))
        return None
    if mine[0]["params"].get("version") != version:
        fail("%s: version %r instead of %r" % (what, mine[0]["params"].get("version"), version))
    return mine[0]["params"]["diagnostics"]


def fresh_reference(state, uri, init_params=None):
    """What a freshly started server publishes for `uri` when it is opened
    last, after all other open documents with their current contents."""
    s = Lsp(init_params)
    try:
        for other in sorted(state):
            if other != uri:
                s.open(other, 1, state[other])
        return answer(s.open(uri, 1, state[uri]), uri, 1, "fresh server")
    finally:
        s.close()


ANSI = re.compile(r"\x1b\[[0-9;]*m")


def check_reference(state, extra_files=None):
    """Problem codes and start positions `ironplcc check` reports per file
    (keyed by file name) for files with the same contents."""
    d = tempfile.mkdtemp(prefix="c11demo-check-")
    try:
        names = {}
        for uri, text in state.items():
            name = uri.rsplit("/", 1)[1]
            names[name] = uri
            with open(os.path.join(d, name), "w", encoding="utf-8", newline="") as f:
                f.write(text)
        for name, text in (extra_files or {}).items():
            if name not in names:
                with open(os.path.join(d, name), "w", encoding="utf-8", newline="") as f:
                    f.write(text)
        files = sorted(os.path.join(d, n) for n in os.listdir(d))
        r = subprocess.run([BINARY, "check"] + files, stdout=subprocess.PIPE,
                           stderr=subprocess.PIPE)
        err = ANSI.sub("", r.stderr.decode("utf-8", "replace"))
        result = {uri: [] for uri in state}
        code, first, seen = None, None, set()
        for line in err.splitlines():
            m = re.match(r"^error\[(\w+)\]", line)
            if m:
                code, first, seen = m.group(1), None, set()
                continue
            m = re.match(r"^\s*┌─ (.*):(\d+):(\d+)$", line)
            if m and code:
                name = os.path.basename(m.group(1))
                if first is None:
                    first = (int(m.group(2)) - 1, int(m.group(3)) - 1)
                if name in names and name not in seen:
                    seen.add(name)
                    result[names[name]].append((code, first[0], first[1]))
        return {u: sorted(v) for u, v in result.items()}
    finally:
        shutil.rmtree(d)


def verify_history(history, init_params=None, label="", extra_files=None, verbose=False):
    """Runs a history of (kind, uri, version, text) on one server and checks
    the property after every notification. Returns all traffic per step."""
    s = Lsp(init_params)
    state = {}
    traffic = [s.drain()]
    try:
        for n, (kind, uri, version, text) in enumerate(history):
            what = "%s step %d %s %s v%s" % (label, n, kind, uri.rsplit("/", 1)[1], version)
            state[uri] = text
            msgs = s.open(uri, version, text) if kind == "open" else s.change(uri, version, text)
            traffic.append(msgs)
            got = answer(msgs, uri, version, what)
            if got is None:
                continue
            ref = fresh_reference(state, uri, init_params)
            if ref is None or canonical(got) != canonical(ref):
                fail("%s: differs from a fresh server\n  got %s\n  ref %s" % (what, got, ref))
            chk = check_reference(state, extra_files)[uri]
            if keys(got) != chk:
                fail("%s: differs from check\n  lsp   %s\n  check %s" % (what, keys(got), chk))
            if verbose:
                print("  %-40s -> %s" % (what, keys(got)))
    finally:
        s.close()
    return traffic


def finish():
    if FAILURES:
        print("\n%d property violation(s)" % len(FAILURES))
        sys.exit(1)
    print("\nproperty C11 holds on everything tried")
    sys.exit(0)

# ---------------------------------------------------------------------------
# Specific part (change B): the advertised kind of document synchronisation,
# and the property for histories whose changes are sent the way the server
# asks for them (whole text, or ranged edits when it advertises incremental).
# ---------------------------------------------------------------------------
import random


def position_of(text, offset):
    """(line, UTF-16 offset) of an index into the text; lines end with \\n, \\r\\n, \\r."""
    line, col, i = 0, 0, 0
    while i < offset:
        ch = text[i]
        if ch == "\r" and text[i + 1:i + 2] == "\n":
            assert offset != i + 1, "a position between CR and LF does not exist"
            i += 2; line += 1; col = 0
        elif ch in "\r\n":
            i += 1; line += 1; col = 0
        else:
            col += 2 if ord(ch) > 0xFFFF else 1
            i += 1
    return {"line": line, "character": col}


def offset_of(text, pos):
    """The lenient reading of a position that the protocol asks for."""
    i = 0
    for _ in range(pos["line"]):
        while i < len(text) and text[i] not in "\r\n":
            i += 1
        if i >= len(text):
            return len(text)
        i += 2 if text[i] == "\r" and text[i + 1:i + 2] == "\n" else 1
    col = 0
    while i < len(text) and text[i] not in "\r\n" and col < pos["character"]:
        col += 2 if ord(text[i]) > 0xFFFF else 1
        i += 1
    return i


def apply_edit(text, edit):
    if "range" not in edit:
        return edit["text"]
    a, b = offset_of(text, edit["range"]["start"]), offset_of(text, edit["range"]["end"])
    a, b = min(a, b), max(a, b)
    return text[:a] + edit["text"] + text[b:]


def minimal_edit(old, new):
    """The ranged edit an editor would send to get from old to new."""
    p = 0
    while p < len(old) and p < len(new) and old[p] == new[p]:
        p += 1
    s = 0
    while s < len(old) - p and s < len(new) - p and old[len(old) - 1 - s] == new[len(new) - 1 - s]:
        s += 1
    if p > 0 and old[p - 1] == "\r":            # never split CR LF
        p -= 1
    if s > 0 and old[len(old) - s] == "\n" and old[len(old) - s - 1:len(old) - s] == "\r":
        s -= 1
    return {"range": {"start": position_of(old, p), "end": position_of(old, len(old) - s)},
            "text": new[p:len(new) - s]}


class Session:
    """A server plus the text the client believes each document to have."""

    def __init__(self):
        self.s = Lsp()
        sync = self.s.init_result["result"]["capabilities"].get("textDocumentSync")
        kind = sync.get("change") if isinstance(sync, dict) else sync
        self.sync, self.incremental = sync, kind == 2
        self.state = {}
        self.version = {}

    def verify(self, msgs, uri, version, what):
        got = answer(msgs, uri, version, what)
        if got is None:
            return
        ref = fresh_reference(self.state, uri)
        if ref is None or canonical(got) != canonical(ref):
            fail("%s: differs from a fresh server\n  got %s\n  ref %s" % (what, got, ref))
        chk = check_reference(self.state)[uri]
        if keys(got) != chk:
            fail("%s: differs from check\n  lsp   %s\n  check %s" % (what, keys(got), chk))
        # The text the server holds, seen through its semantic tokens.
        mine = self.s.request("textDocument/semanticTokens/full", {"textDocument": {"uri": uri}})
        f = Lsp()
        f.open(uri, 1, self.state[uri])
        theirs = f.request("textDocument/semanticTokens/full", {"textDocument": {"uri": uri}})
        f.close()
        if mine.get("result") != theirs.get("result") or ("error" in mine) != ("error" in theirs):
            fail("%s: the server holds another text than the client" % what)
        extra = [m for m in msgs if m not in publishes(msgs, uri)]
        print("  %-58s -> %s%s" % (what, keys(got), "  (+%d other messages)" % len(extra) if extra else ""))

    def open(self, uri, text, what):
        self.version[uri] = self.version.get(uri, 0) + 1
        self.state[uri] = text
        self.verify(self.s.open(uri, self.version[uri], text), uri, self.version[uri], "open   " + what)

    def edit(self, uri, edits, what):
        """Sends the edits as they are when the server takes ranged edits, or
        else as the whole text they result in (what a client has to do then)."""
        text = self.state.get(uri, "")
        for e in edits:
            text = apply_edit(text, e)
        self.state[uri] = text
        self.version[uri] = self.version.get(uri, 0) + 1
        changes = edits if self.incremental else [{"text": text}]
        self.s.notify("textDocument/didChange", {
            "textDocument": {"uri": uri, "version": self.version[uri]}, "contentChanges": changes})
        ranged = len([e for e in edits if "range" in e])
        mode = "%d ranged" % ranged if self.incremental and ranged else "whole text"
        self.verify(self.s.drain(), uri, self.version[uri], "change %s [%s]" % (what, mode))

    def close(self):
        self.s.close()


def R(l0, c0, l1, c1, text):
    return {"range": {"start": {"line": l0, "character": c0}, "end": {"line": l1, "character": c1}},
            "text": text}


work = tempfile.mkdtemp(prefix="c11demo-b-")
try:
    A = "file://%s/a.st" % work
    B = "file://%s/b.st" % work

    s = Session()
    print("== textDocumentSync advertised by the server: %s" % json.dumps(s.sync))
    print("   -> the client sends %s" % ("ranged edits" if s.incremental else "the whole text with every change"))

    print("\n== whole-text histories (what every client may send)")
    s.open(A, TEXTS["depends"], "a.st depends")
    s.open(B, TEXTS["valid"], "b.st valid")
    s.edit(A, [{"text": TEXTS["lexical"]}, {"text": TEXTS["semantic"]}], "a.st two whole texts, last is semantic")
    s.edit(B, [], "b.st no content change")
    s.edit(B, [{"text": TEXTS["syntax"]}], "b.st syntax")
    s.close()

    print("\n== hand-written edits")
    s = Session()
    doc = "(* grüße \U0001D11E note *)\r\n" + TEXTS["semantic"].replace("\n", "\r\n")
    s.open(A, doc, "a.st semantic, CRLF, wide characters in line 0")
    s.edit(A, [R(5, 2, 5, 3, "a")], "a.st b -> a in line 5: valid")
    s.edit(A, [R(0, 11, 0, 15, "\U0001D11E\U0001D11E")], "a.st edit after the wide characters of line 0")
    s.edit(A, [R(3, 9, 3, 10, "")], "a.st drop the ';' of the declaration: syntax")
    s.edit(A, [R(3, 9, 3, 9, ";"), R(5, 2, 5, 3, "zz")], "a.st two edits: repaired, then undefined zz")
    s.edit(A, [R(5, 2, 5, 4, "a"), R(5, 9, 5, 9, " ` 2")], "a.st two edits: lexical")
    s.edit(A, [{"text": TEXTS["valid"]}, R(1, 2, 1, 7, "GRADE")], "a.st whole text, then an edit of it")
    s.edit(A, [R(999, 0, 999, 0, "(* appended *)\n")], "a.st position past the end of the text")
    s.edit(A, [R(1, 400, 1, 400, " (* eol *)")], "a.st offset past the end of a line")
    s.edit(A, [R(2, 8, 0, 0, TEXTS["depends"])], "a.st range given backwards")
    s.edit(B, [R(0, 0, 0, 0, TEXTS["valid"])], "b.st edit of a document never opened")
    s.close()

    print("\n== random history of edits between variants of the five texts")
    rng = random.Random(11)
    variants = []
    for k, t in TEXTS.items():
        variants += [(k, t), (k + "/crlf", t.replace("\n", "\r\n")),
                     (k + "/wide", "(* ä\U0001D11E *)\n" + t + "(* \U0001D11E *)")]
    s = Session()
    for step in range(24):
        uri = rng.choice([A, B])
        name, new = rng.choice(variants)
        if uri.endswith("b.st"):
            new = new.replace("LEVEL", "GRADE") if name.startswith("valid") else new
            new = new.replace("PROGRAM p", "PROGRAM q").replace("fdep", "gdep")
        what = "%s %s" % (uri.rsplit("/", 1)[1], name)
        r = rng.random()
        if uri not in s.state or r < 0.15:
            s.open(uri, new, what)
        elif r < 0.3:
            s.edit(uri, [{"text": new}], what)
        elif r < 0.7:
            s.edit(uri, [minimal_edit(s.state[uri], new)], what)
        else:
            # in two steps: first the head of the text, then the rest
            old = s.state[uri]
            mid = new[:len(new) // 2] + old[len(old) // 2:]
            mid = mid.replace("\r\n", "\n")      # keeps every position well defined
            s.edit(uri, [minimal_edit(old, mid), minimal_edit(mid, new)], what)
    s.close()
finally:
    shutil.rmtree(work)
finish()
