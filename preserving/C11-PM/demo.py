#!/usr/bin/env python3
"""Demo for change C: positions in UTF-16 code units (the protocol's unit) everywhere.

usage: demo.py <compiler workspace dir>      (binary: $1/target/debug/ironplcc)

Prints the positions the server publishes for text with characters outside the
basic multilingual plane and checks the property C11 on the histories it plays. Exits 0 when the property holds on what it tried (with
and without the change).
"""
import json
import os
import queue
import re
import shutil
import subprocess
import sys
import tempfile
import threading
from urllib.parse import quote

BIN = os.path.join(os.path.abspath(sys.argv[1]), "target", "debug", "ironplcc")
TIMEOUT = 60
failures = []


def fail(msg):
    failures.append(msg)
    print("PROPERTY VIOLATION: " + msg)


def uri_of(path):
    return "file://" + quote(path)


class Server:
    """A language server process with a strictly sequential client."""

    def __init__(self, root, folder=None, watch=False):
        env = dict(os.environ, TMPDIR=os.path.join(root, "tmp"))
        self.proc = subprocess.Popen([BIN, "lsp", "--stdio"], stdin=subprocess.PIPE,
                                     stdout=subprocess.PIPE, stderr=subprocess.DEVNULL,
                                     cwd=os.path.join(root, "cwd"), env=env)
        self.inbox = queue.Queue()
        threading.Thread(target=self._reader, daemon=True).start()
        self.next_id = 0
        self.log = []  # every message from the server, in order
        caps = {}
        if watch:
            caps = {"workspace": {"didChangeWatchedFiles": {"dynamicRegistration": True}}}
        params = {"processId": None, "rootUri": None, "capabilities": caps}
        if folder is not None:
            params["workspaceFolders"] = [{"uri": folder, "name": "ws"}]
        self.init_result = self.request("initialize", params)
        self.notify("initialized", {})

    def _reader(self):
        out = self.proc.stdout
        while True:
            length = None
            while True:
                line = out.readline()
                if not line:
                    self.inbox.put(None)
                    return
                line = line.strip()
                if not line:
                    break
                if line.lower().startswith(b"content-length:"):
                    length = int(line.split(b":")[1])
            self.inbox.put(json.loads(out.read(length).decode("utf-8")))

    def _send(self, obj):
        body = json.dumps(obj).encode("utf-8")
        self.proc.stdin.write(b"Content-Length: %d\r\n\r\n" % len(body) + body)
        self.proc.stdin.flush()

    def notify(self, method, params):
        self._send({"jsonrpc": "2.0", "method": method, "params": params})

    def _recv(self):
        msg = self.inbox.get(timeout=TIMEOUT)
        if msg is None:
            raise RuntimeError("the server went away")
        self.log.append(msg)
        # a request from the server: answer it (this client accepts everything)
        if "method" in msg and "id" in msg:
            self._send({"jsonrpc": "2.0", "id": msg["id"], "result": None})
        return msg

    def request(self, method, params):
        """Sends a request and returns (result or error); collects everything before it."""
        self.next_id += 1
        rid = self.next_id
        self._send({"jsonrpc": "2.0", "id": rid, "method": method, "params": params})
        while True:
            msg = self._recv()
            if "method" not in msg and msg.get("id") == rid:
                return msg.get("result", msg.get("error"))

    def settle(self):
        """Returns the messages the server sent since the last call.

        The server works through its input in order, so once the answer to a
        request arrives, everything caused by earlier messages has arrived."""
        start = len(self.log)
        self.request("demo/barrier", None)
        return self.log[start:-1]

    def edit(self, method, uri, version, text):
        """didOpen/didChange; returns (the answer, everything the server sent)."""
        path = uri
        if method == "didOpen":
            params = {"textDocument": {"uri": uri, "languageId": "st", "version": version,
                                       "text": text}}
        else:
            params = {"textDocument": {"uri": uri, "version": version},
                      "contentChanges": [{"text": text}]}
        self.notify("textDocument/" + method, params)
        msgs = self.settle()
        answers = [m for m in msgs if m.get("method") == "textDocument/publishDiagnostics"
                   and m["params"]["uri"] == uri and m["params"].get("version") == version]
        if len(answers) != 1:
            fail("%s %s v%d got %d answers with that version" % (method, path, version, len(answers)))
            return None, msgs
        return answers[0]["params"], msgs

    def stop(self):
        self.request("shutdown", None)
        self.notify("exit", None)
        self.proc.stdin.close()
        self.proc.wait(timeout=TIMEOUT)


def essence(publish):
    """What the property compares: code and start position (plus the message)."""
    return sorted((d["code"], d["range"]["start"]["line"], d["range"]["start"]["character"],
                   d["message"]) for d in publish["diagnostics"])


def positions(publish):
    return sorted((d["code"], d["range"]["start"]["line"], d["range"]["start"]["character"])
                  for d in publish["diagnostics"])


def check(root, files, wanted):
    """Runs `ironplcc check` on files with the given contents in a fresh directory and
    returns the (code, line, column) it reports for the file `wanted`: 0-based, the column
    counts characters as the command line does."""
    d = tempfile.mkdtemp(dir=root, prefix="chk ü ")
    paths = []
    for name, text in files.items():
        p = os.path.join(d, name)
        with open(p, "w", encoding="utf-8", newline="") as f:
            f.write(text)
        paths.append(p)
    env = dict(os.environ, TMPDIR=os.path.join(root, "tmp"))
    r = subprocess.run([BIN, "check"] + paths, cwd=os.path.join(root, "cwd"), env=env,
                       capture_output=True, timeout=TIMEOUT)
    err = re.sub(r"\x1b\[[0-9;]*m", "", r.stderr.decode("utf-8"))
    found = []
    code = None
    for line in err.splitlines():
        m = re.match(r"error\[(\w+)\]", line)
        if m:
            code = m.group(1)
        m = re.match(r"\s*┌─ (.*):(\d+):(\d+)$", line)
        if m and code is not None:
            if os.path.realpath(m.group(1)) == os.path.realpath(os.path.join(d, wanted)):
                found.append((code, int(m.group(2)) - 1, int(m.group(3)) - 1))
            code = None
    return sorted(found)


def in_unit(text, found, unit):
    """The places that check reports (line, characters into the line), with the offset into
    the line counted in the given unit."""
    lines = text.split("\n")
    out = []
    for code, line, col in found:
        before = lines[line][:col]
        if unit == "utf-16":
            col = len(before.encode("utf-16-le")) // 2
        elif unit == "utf-8":
            col = len(before.encode("utf-8"))
        out.append((code, line, col))
    return sorted(out)


LIB = "TYPE\n  LEVEL : (LOW, HIGH) := LOW;\nEND_TYPE\n"
# é and ü are one UTF-16 unit (two bytes), 🚀 and 𝄞 are two units (four bytes) each
PLAIN = {
    "valid": "FUNCTION_BLOCK Other\nVAR\n  x : BOOL;\nEND_VAR\nEND_FUNCTION_BLOCK\n",
    "lexical": "FUNCTION_BLOCK Other\nVAR\n  (* ö *) ? x : BOOL;\nEND_VAR\nEND_FUNCTION_BLOCK\n",
    "syntax": "FUNCTION_BLOCK Other\nVAR\n  x (* é *) : BOOL\nEND_VAR (* ü *) ;\nEND_FUNCTION_BLOCK\n",
    "semantic": "FUNCTION_BLOCK Other\nVAR\n  (* ö *) x : NOPE;\nEND_VAR\nEND_FUNCTION_BLOCK\n",
    "lib": LIB,
    "main": "FUNCTION_BLOCK Tank\nVAR\n  (* é ü *) lvl : LEVEL;\r\nEND_VAR\nEND_FUNCTION_BLOCK\n",
}
ASTRAL = {
    "valid": "FUNCTION_BLOCK Other (* 🚀 *)\nVAR\n  x : BOOL;\nEND_VAR\nEND_FUNCTION_BLOCK\n",
    "lexical": "FUNCTION_BLOCK Other\nVAR\n  (* 🚀 ö 𝄞 *) ? x : BOOL;\nEND_VAR\nEND_FUNCTION_BLOCK\n",
    "syntax": "FUNCTION_BLOCK Other\nVAR\n  x (* 🚀 *) : BOOL\n(* 𝄞𝄞 *) END_VAR ;\nEND_FUNCTION_BLOCK\n",
    "semantic": "FUNCTION_BLOCK Other\nVAR\n  (* 🚀 *) s : STRING := '𝄞'; (* 🚀 ö *) x : NOPE;\nEND_VAR\nEND_FUNCTION_BLOCK\n",
    "lib": "(* 🚀 *) " + LIB,
    "main": "FUNCTION_BLOCK Tank\nVAR\n  (* 🚀 ü 𝄞 *) lvl : LEVEL;\r\nEND_VAR\nEND_FUNCTION_BLOCK\n",
}


def play(root, ws, texts, units, label):
    """Plays histories over two documents; every answer is compared with a fresh server
    and with check. `units`: the units in which the offset may be counted."""
    a_uri, b_uri = uri_of(os.path.join(ws, "a.st")), uri_of(os.path.join(ws, "b ü.st"))
    name = {a_uri: "a.st", b_uri: "b ü.st"}
    histories = [
        [(a_uri, "main"), (b_uri, "lib"), (a_uri, "semantic"), (b_uri, "syntax"), (a_uri, "lexical")],
        [(b_uri, "lexical"), (a_uri, "lib"), (b_uri, "main"), (a_uri, "valid"), (b_uri, "semantic")],
        [(a_uri, "syntax"), (a_uri, "main"), (b_uri, "valid"), (b_uri, "lib"), (a_uri, "syntax")],
    ]
    used = set()
    for n, history in enumerate(histories):
        s = Server(root)
        current, version = {}, {}
        for uri, key in history:
            text = texts[key]
            method = "didChange" if uri in current else "didOpen"
            version[uri] = version.get(uri, 0) + 1
            answer, _ = s.edit(method, uri, version[uri], text)
            current[uri] = text
            if answer is None:
                continue
            f = Server(root)
            for other, other_text in current.items():
                if other != uri:
                    f.edit("didOpen", other, 1, other_text)
            fresh, _ = f.edit("didOpen", uri, 1, text)
            f.stop()
            same_fresh = fresh is not None and essence(fresh) == essence(answer)
            if not same_fresh:
                fail("history and fresh server differ for %s: %s / %s" % (
                    uri, essence(answer), fresh and essence(fresh)))
            found = check(root, {name[u]: t for u, t in current.items()}, name[uri])
            # the same codes at the same places; a place is a line and an offset into the
            # line, and the offset is a count of something
            matching = [u for u in units if in_unit(text, found, u) == positions(answer)]
            if not matching:
                fail("check and server differ for %s: check %s / server %s" % (
                    uri, found, positions(answer)))
            if in_unit(text, found, "characters") != in_unit(text, found, "utf-16"):
                used.update(matching)
            print("    %s %d %-9s %-10s -> %-26s = fresh server: %s   = check %s: %s" % (
                label, n, method, key + "@" + name[uri][0], positions(answer), same_fresh,
                found, matching))
        s.stop()
    return used


def main():
    root = tempfile.mkdtemp(prefix="c11 demo Ä ")
    try:
        for d in ("tmp", "cwd", "wörk space"):
            os.mkdir(os.path.join(root, d))
        ws = os.path.join(root, "wörk space")

        s = Server(root)
        announced = (s.init_result.get("capabilities") or {}).get("positionEncoding")
        print("== the server says positions count: %s" % (announced or "(nothing, so utf-16)"))

        print("== one line with characters outside the basic plane before the problem")
        text = ASTRAL["semantic"]
        uri = uri_of(os.path.join(ws, "a.st"))
        answer, _ = s.edit("didOpen", uri, 1, text)
        found = check(root, {"a.st": text}, "a.st")
        print("    line 3 is: %r" % text.split("\n")[2])
        print("    check reports (0-based line, characters): %s" % found)
        print("    the same place in utf-16 units:           %s" % in_unit(text, found, "utf-16"))
        print("    the same place in bytes:                  %s" % in_unit(text, found, "utf-8"))
        print("    the server publishes:                     %s" % (answer and positions(answer)))
        tokens = s.request("textDocument/semanticTokens/full", {"textDocument": {"uri": uri}})
        s.stop()
        print("    semantic tokens of line 3 (delta start, length):")
        line, out = 0, []
        data = (tokens or {}).get("data") or []
        for i in range(0, len(data), 5):
            line += data[i]
            if line == 2:
                out.append((data[i + 1], data[i + 2]))
        print("      %s" % out)

        print("== the property on text of the basic plane (characters = utf-16 units)")
        play(root, ws, PLAIN, ["characters"], "plain")

        print("== the property on text beyond the basic plane")
        # a position is a place in the text; the protocol counts the offset in utf-16
        # units unless agreed otherwise, the command line shows characters
        units = ["utf-16"] if announced == "utf-16" else ["utf-16", "characters"]
        used = play(root, ws, ASTRAL, units, "astral")
        print("    where it makes a difference the offsets count: %s" % sorted(used))
        if len(used) > 1:
            fail("the unit is not always the same: %s" % sorted(used))
    finally:
        shutil.rmtree(root, ignore_errors=True)

    if failures:
        print("FAILED: %d violations" % len(failures))
        return 1
    print("OK: the property held on everything tried")
    return 0


if __name__ == "__main__":
    sys.exit(main())
