#!/usr/bin/env python3
"""Demonstration for mutant B of property C11.

Drives `ironplcc lsp --stdio` through a history over two documents that ends in
a state where one problem (a duplicated declaration) has labels in both
documents, and checks after every notification that

  * exactly one publishDiagnostics arrives, for the notified document, with the
    version of the notification,
  * its diagnostics equal what a freshly started server publishes for that
    document when it is opened last, after the other open documents with their
    current contents,
  * its (code, line, character) equal what `ironplcc check` reports for that
    file when run on files with the same contents.

Usage: demo.py [compiler-workspace]   (default /tmp/mut2/C11/compiler)
Exit status 0 iff the property holds on the demonstrated history.
"""
import json
import os
import re
import select
import shutil
import subprocess
import sys
import tempfile

WORKSPACE = sys.argv[1] if len(sys.argv) > 1 else "/tmp/mut2/C11/compiler"
EXE = os.path.join(WORKSPACE, "target", "debug", "ironplcc")

MAIN = "PROGRAM main\nVAR\n  x : INT;\nEND_VAR\n  x := 1;\nEND_PROGRAM\n"
MAIN_SEMANTIC = "PROGRAM main\nVAR\n  x : INT;\nEND_VAR\n  y := 1;\nEND_PROGRAM\n"
OTHER = "PROGRAM other\nVAR\n  z : INT;\nEND_VAR\n  z := 2;\nEND_PROGRAM\n"
OTHER_SYNTAX = "PROGRAM other\nVAR\n  z : INT;\nEND_VAR\n  z := ;\nEND_PROGRAM\n"
# Declares the same program as MAIN, at another position.
MAIN_AGAIN = "(* copy *)\n\n  PROGRAM main\nVAR\n  x : INT;\nEND_VAR\n  x := 1;\nEND_PROGRAM\n"


class Server:
    def __init__(self):
        self.proc = subprocess.Popen(
            [EXE, "lsp", "--stdio"],
            stdin=subprocess.PIPE,
            stdout=subprocess.PIPE,
            stderr=subprocess.DEVNULL,
            bufsize=0,
        )
        self.next_id = 0
        self.request("initialize", {"processId": None, "rootUri": None, "capabilities": {}})
        self.notify("initialized", {})

    def send(self, message):
        body = json.dumps(message).encode("utf-8")
        self.proc.stdin.write(b"Content-Length: %d\r\n\r\n" % len(body) + body)
        self.proc.stdin.flush()

    def receive(self, timeout=30):
        ready, _, _ = select.select([self.proc.stdout], [], [], timeout)
        if not ready:
            raise RuntimeError("server did not answer within %s s" % timeout)
        length = None
        while True:
            line = self.proc.stdout.readline()
            if not line:
                raise RuntimeError("server closed its output")
            line = line.strip()
            if not line:
                break
            if line.lower().startswith(b"content-length:"):
                length = int(line.split(b":")[1])
        body = b""
        while len(body) < length:
            chunk = self.proc.stdout.read(length - len(body))
            if not chunk:
                raise RuntimeError("server closed its output")
            body += chunk
        return json.loads(body)

    def request(self, method, params):
        """Sends a request; returns (messages that arrived before the response, response)."""
        self.next_id += 1
        self.send({"jsonrpc": "2.0", "id": self.next_id, "method": method, "params": params})
        before = []
        while True:
            message = self.receive()
            if message.get("id") == self.next_id and "method" not in message:
                return before, message
            before.append(message)

    def notify(self, method, params):
        self.send({"jsonrpc": "2.0", "method": method, "params": params})

    def step(self, kind, uri, version, text):
        """Sends didOpen/didChange and returns every message the server sent for it.

        The server handles messages in order on one thread, so everything that it
        publishes for the notification precedes the response to the request that
        follows (an unknown method, answered with MethodNotFound)."""
        if kind == "open":
            self.notify("textDocument/didOpen", {"textDocument": {
                "uri": uri, "languageId": "iec61131-3", "version": version, "text": text}})
        else:
            self.notify("textDocument/didChange", {
                "textDocument": {"uri": uri, "version": version},
                "contentChanges": [{"text": text}]})
        before, _ = self.request("demo/sync", {})
        return before

    def stop(self):
        self.request("shutdown", None)
        self.notify("exit", None)
        self.proc.stdin.close()
        self.proc.wait(30)


def published(messages):
    return [m["params"] for m in messages if m.get("method") == "textDocument/publishDiagnostics"]


def triples(diagnostics):
    return sorted((d["code"], d["range"]["start"]["line"], d["range"]["start"]["character"])
                  for d in diagnostics)


def fresh_server(contents, uri_of, last):
    """What a fresh server publishes for `last` when it is opened last."""
    server = Server()
    try:
        for name in sorted(contents):
            if name != last:
                server.step("open", uri_of[name], 1, contents[name])
        pubs = published(server.step("open", uri_of[last], 1, contents[last]))
    finally:
        server.stop()
    # How many notifications the server sends is judged on the server under test;
    # here only what the fresh server publishes for the document matters.
    pubs = [p for p in pubs if p["uri"] == uri_of[last]]
    if not pubs:
        raise RuntimeError("the fresh server published nothing for " + uri_of[last])
    return triples(pubs[0]["diagnostics"])


ANSI = re.compile(r"\x1b\[[0-9;]*m")
HEADER = re.compile(r"^error\[(\w+)\]")
LOCATION = re.compile(r"^\s*┌─ (.*):(\d+):(\d+)$")


def check(paths, name):
    """(code, line, character) of what `check` reports for `name`: the problems that
    have a label in that file, each with the start of its primary label (the first
    location that `check` prints for the problem)."""
    result = subprocess.run([EXE, "check"] + sorted(paths.values()),
                            stdout=subprocess.PIPE, stderr=subprocess.PIPE)
    text = ANSI.sub("", result.stderr.decode("utf-8"))
    problems = []  # [code, primary position, files with a label]
    for line in text.splitlines():
        m = HEADER.match(line)
        if m:
            problems.append([m.group(1), None, set()])
            continue
        m = LOCATION.match(line)
        if m and problems:
            if problems[-1][1] is None:
                problems[-1][1] = (int(m.group(2)) - 1, int(m.group(3)) - 1)
            problems[-1][2].add(os.path.realpath(m.group(1)))
    found = [(code, position[0], position[1]) for code, position, files in problems
             if os.path.realpath(paths[name]) in files]
    if not found and result.returncode == 0:
        assert result.stdout.decode().strip() == "OK"
    return sorted(found)


def main():
    root = os.path.realpath(tempfile.mkdtemp(prefix="c11-demo-b-"))
    failures = []
    try:
        paths = {"a": os.path.join(root, "a.st"), "b": os.path.join(root, "b.st")}
        uri_of = {name: "file://" + path for name, path in paths.items()}

        # (kind, document, version, text). Up to step 5 every problem has its labels
        # in one document. From step 6 on both documents declare PROGRAM main, so the
        # problem P0019 has its primary label in b.st and a secondary label in a.st.
        history = [
            ("open", "a", 1, MAIN),
            ("open", "b", 1, OTHER),
            ("change", "a", 2, MAIN_SEMANTIC),
            ("change", "b", 2, OTHER_SYNTAX),
            ("change", "a", 3, MAIN),
            ("change", "b", 3, MAIN_AGAIN),
            ("change", "a", 4, MAIN),
            ("change", "b", 4, OTHER),
        ]

        contents = {}
        server = Server()
        try:
            for index, (kind, name, version, text) in enumerate(history):
                label = "step %d (%s %s v%d)" % (index + 1, kind, name, version)
                contents[name] = text
                with open(paths[name], "w", newline="") as f:
                    f.write(text)

                pubs = published(server.step(kind, uri_of[name], version, text))
                if len(pubs) != 1:
                    failures.append("%s: %d publishDiagnostics instead of 1: %r" % (
                        label, len(pubs),
                        [(p["uri"], p.get("version"), triples(p["diagnostics"])) for p in pubs]))
                    if not pubs:
                        continue
                pub = pubs[0]
                if pub["uri"] != uri_of[name]:
                    failures.append("%s: published for %s" % (label, pub["uri"]))
                if pub.get("version") != version:
                    failures.append("%s: published version %r" % (label, pub.get("version")))
                got = triples(pub["diagnostics"])
                fresh = fresh_server(contents, uri_of, name)
                cli = check(paths, name)
                print("%s: server %r fresh %r check %r" % (label, got, fresh, cli))
                if got != fresh:
                    failures.append("%s: server %r but a fresh server %r" % (label, got, fresh))
                if got != cli:
                    failures.append("%s: server %r but check %r" % (label, got, cli))
        finally:
            server.stop()
    finally:
        shutil.rmtree(root, ignore_errors=True)

    if failures:
        print("PROPERTY C11 VIOLATED")
        for failure in failures:
            print("  " + failure)
        return 1
    print("property C11 holds on this history")
    return 0


if __name__ == "__main__":
    sys.exit(main())
