#!/usr/bin/env python3
"""Demonstration for change C (U+FEFF inside the text is white space).

usage: demo.py [compiler workspace]   (default /tmp/mut6/C14/compiler)

Builds `ironplcc` in the given workspace and
 1. checks the stated observables of property C14 on concrete examples
    (exit status 0 only if they hold):
      a. the same program in the five encodings gives the same verdict,
         problem codes and line/column positions,
         also for programs that have U+FEFF between tokens (four encodings:
         Windows-1252 has no such character),
      b. every byte value 0x00-0xFF placed in a comment, in a string, between
         tokens and inside an identifier (exhaustive) gives the same verdict,
         codes and positions as the UTF-8 form of the text that the bytes
         mean (UTF-8 if valid, else Windows-1252), positions inside that
         text, and no crash,
      c. arbitrary byte content (here: random bytes with byte-order marks
         sprinkled in) gives a verdict, no crash, and positions inside the
         decoded text;
 2. prints what the tool says about files that are the concatenation of two
    files that each have a byte-order mark. This is the behaviour that
    differs before/after the change.

Files are only created in a `mktemp -d` style directory, which is also TMPDIR
of the tool.
"""
import os
import random
import re
import shutil
import subprocess
import sys
import tempfile

WS = sys.argv[1] if len(sys.argv) > 1 else "/tmp/mut6/C14/compiler"
ANSI = re.compile(r"\x1b\[[0-9;]*m")

VALID = (
    "PROGRAM main\n"
    "  VAR\n"
    "    s : STRING := 'Grüße €';  (* café – ñ *)\n"
    "    x : INT;\n"
    "  END_VAR\n"
    "  x := 1; (* … *)\n"
    "END_PROGRAM\n"
)
# y is not declared: a semantic problem located after non-ASCII text
SEMANTIC = VALID.replace("  x := 1; (* … *)\n", "  (* é€ *) y := 1;\n")
# ¤ between tokens: a lexical problem located after non-ASCII text
LEXICAL = VALID.replace("  x := 1; (* … *)\n", "  (* é€ *) x := 1 ¤ 2;\n")

FIVE = {
    "utf8": lambda t: t.encode("utf-8"),
    "utf8-bom": lambda t: b"\xef\xbb\xbf" + t.encode("utf-8"),
    "utf16le-bom": lambda t: b"\xff\xfe" + t.encode("utf-16-le"),
    "utf16be-bom": lambda t: b"\xfe\xff" + t.encode("utf-16-be"),
    "windows-1252": lambda t: t.encode("cp1252"),
}
# Two files that each start with U+FEFF, concatenated (copy /b a.st+b.st all.st)
PART2 = VALID.replace("main", "other")
CONCAT_VALID = "\ufeff" + VALID + "\ufeff" + PART2
CONCAT_SEMANTIC = "\ufeff" + VALID + "\ufeff" + PART2.replace("  x := 1; (* … *)\n", "\ufeff(* é€ *)\ufeff y := 1;\n")
FOUR = {k: v for k, v in FIVE.items() if k != "windows-1252"}
# The text starts with U+FEFF: that is the byte-order mark of the file
STORED = {
    "utf8-bom": lambda t: t.encode("utf-8"),
    "utf16le-bom": lambda t: t.encode("utf-16-le"),
    "utf16be-bom": lambda t: t.encode("utf-16-be"),
}
# U+FEFF between tokens, not at the start of the text
INTERIOR_VALID = VALID.replace("  x := 1;", "  x\ufeff:=\ufeff 1;")
INTERIOR_SEMANTIC = SEMANTIC.replace(" y := 1;", "\ufeff y :=\ufeff1;")


def build():
    env = dict(os.environ, CARGO_NET_OFFLINE="true")
    subprocess.run(
        ["cargo", "build", "-q", "-p", "ironplcc", "--offline"],
        cwd=WS, env=env, check=True,
    )
    return os.path.join(WS, "target", "debug", "ironplcc")


def run(binary, tmp, name, data):
    """Returns (exit status, stdout, [codes], [(line, col)], stderr)."""
    path = os.path.join(tmp, name)
    with open(path, "wb") as f:
        f.write(data)
    env = dict(os.environ, TMPDIR=tmp)
    p = subprocess.run([binary, "check", path], env=env, capture_output=True, timeout=60)
    err = ANSI.sub("", p.stderr.decode("utf-8", "replace"))
    codes = re.findall(r"^error\[(P\d+)\]", err, re.M)
    pos = [(int(a), int(b)) for a, b in re.findall(r"┌─ .*:(\d+):(\d+)$", err, re.M)]
    return p.returncode, p.stdout.decode("utf-8", "replace").strip(), codes, pos, err


def cp1252_whatwg(data):
    out = []
    for b in data:
        try:
            out.append(bytes([b]).decode("cp1252"))
        except UnicodeDecodeError:
            out.append(chr(b))
    return "".join(out)


def strict(data, enc):
    try:
        return data.decode(enc)
    except UnicodeDecodeError:
        return None


def five_encodings_text(data):
    """What the bytes mean according to the five encodings of the property."""
    if data[:3] == b"\xef\xbb\xbf":
        return strict(data[3:], "utf-8")
    if data[:2] == b"\xff\xfe":
        return strict(data[2:], "utf-16-le")
    if data[:2] == b"\xfe\xff":
        return strict(data[2:], "utf-16-be")
    t = strict(data, "utf-8")
    return t if t is not None else cp1252_whatwg(data)


def candidate_texts(data):
    return [five_encodings_text(data)]


def inside(text, line, col):
    if (line, col) == (1, 1):
        return True  # start of any text, also of no text
    if text is None:
        return False
    lines = text.split("\n")
    return 1 <= line <= len(lines) and 1 <= col <= len(lines[line - 1]) + 1


def main():
    binary = build()
    tmp = tempfile.mkdtemp(prefix="c14-demo-c-")
    ok = True
    try:
        print("== 1a. same program, five encodings: verdict / codes / line:col")
        for label, text in (("valid", VALID), ("semantic", SEMANTIC), ("lexical", LEXICAL)):
            results = {}
            for enc, f in FIVE.items():
                rc, out, codes, pos, _ = run(binary, tmp, "%s-%s.st" % (label, enc), f(text))
                results[enc] = (rc, out, codes, pos)
                print("  %-9s %-13s rc=%d stdout=%r codes=%s pos=%s" % (label, enc, rc, out, codes, pos))
            if len({repr(v) for v in results.values()}) != 1:
                print("  MISMATCH between encodings for", label)
                ok = False
            if label == "valid" and results["utf8"][:2] != (0, "OK"):
                ok = False
            if label != "valid" and (results["utf8"][0] != 1 or not results["utf8"][2]):
                ok = False

        print("== 1a'. programs with U+FEFF between tokens, four encodings")
        for label, text in (("interior-valid", INTERIOR_VALID), ("interior-semantic", INTERIOR_SEMANTIC)):
            results = {}
            for enc, f in FOUR.items():
                rc, out, codes, pos, _ = run(binary, tmp, "%s-%s.st" % (label, enc), f(text))
                results[enc] = (rc, out, codes, pos)
                print("  %-17s %-12s rc=%d stdout=%r codes=%s pos=%s" % (label, enc, rc, out, codes, pos))
                if not all(inside(text, *p) for p in pos):
                    print("  OUTSIDE the text")
                    ok = False
            if len({repr(v) for v in results.values()}) != 1:
                print("  MISMATCH between encodings for", label)
                ok = False

        print("== 2. concatenation of two files that each have a byte-order mark (differs before/after)")
        for label, text in (("concat-valid", CONCAT_VALID), ("concat-semantic", CONCAT_SEMANTIC)):
            results = {}
            for enc, f in STORED.items():
                rc, out, codes, pos, _ = run(binary, tmp, "%s-%s.st" % (label, enc), f(text))
                results[enc] = (rc, out, codes, pos)
                print("  %-17s %-12s rc=%d stdout=%r codes=%s pos=%s" % (label, enc, rc, out, codes, pos))
                if not all(inside(text[1:], *p) for p in pos):
                    print("  OUTSIDE the text")
                    ok = False
            if len({repr(v) for v in results.values()}) != 1:
                print("  MISMATCH between encodings for", label)
                ok = False

        print("== 1b. every byte value in a comment / a string / between tokens / inside an identifier")
        hosts = {
            "comment": b"PROGRAM main\n  VAR\n    x : INT; (* a@b *)\n  END_VAR\n  x := 1;\nEND_PROGRAM\n",
            "string": b"PROGRAM main\n  VAR\n    s : STRING := 'a@b';\n  END_VAR\n  y := 1;\nEND_PROGRAM\n",
            "between": b"PROGRAM main\n  VAR\n    x : INT;\n  END_VAR\n  x :=@1;\nEND_PROGRAM\n",
            "identifier": b"PROGRAM main\n  VAR\n    x : INT;\n  END_VAR\n  x@x := 1;\nEND_PROGRAM\n",
            # tiny hosts: the kind of file in which one byte weighs most
            "tiny-comment": b"(*@*)",
            "tiny-string": b"x:='@';",
            "tiny-between": b"x @ y",
            "tiny-identifier": b"a@b",
            "alone": b"@",
        }
        mismatches = 0
        crashes = 0
        runs = 0
        for place, host in hosts.items():
            for value in range(256):
                data = host.replace(b"@", bytes([value]))
                text = five_encodings_text(data)
                got = run(binary, tmp, "byte.st", data)
                want = run(binary, tmp, "byte.st", text.encode("utf-8"))
                runs += 1
                if "panicked" in got[4] or got[0] not in (0, 1):
                    crashes += 1
                if not all(inside(text, *p) for p in got[3]):
                    mismatches += 1
                    print("  OUTSIDE %s 0x%02X: %r" % (place, value, got[:4]))
                if got[:4] != want[:4]:
                    mismatches += 1
                    print("  MISMATCH %s 0x%02X: %r / %r" % (place, value, got[:4], want[:4]))
        print("  %d files, %d crashes, %d differences to the UTF-8 form or positions outside the text" % (runs, crashes, mismatches))
        if crashes or mismatches:
            ok = False

        print("== 1c. arbitrary bytes: verdict, no crash, positions inside the decoded text")
        rnd = random.Random(14)
        samples = {
            "only-bom": b"\xef\xbb\xbf",
            "two-boms": b"\xef\xbb\xbf\xef\xbb\xbf",
            "bom-in-identifier": b"a\xef\xbb\xbfb := 1 ?",
            "bom-in-keyword": "PRO\ufeffGRAM main END_PROGRAM".encode("utf-8"),
            "bom-then-error": "\ufeff\ufeff  \ufeff ? x".encode("utf-8"),
            "u16-bom-inside": b"\xff\xfe" + "x :=\ufeff 1 ? 2".encode("utf-16-le"),
            "reversed-bom-inside": b"\xff\xfe" + "x := \ufffe 1".encode("utf-16-le"),
            "truncated-bom": b"x := 1;\n\xef\xbb",
        }
        marks = [b"\xef\xbb\xbf", b"\xff\xfe", b"\xfe\xff", b" ", b"\n", b"x", b"?"]
        for i in range(80):
            parts = []
            for _ in range(rnd.randrange(1, 12)):
                if rnd.random() < 0.5:
                    parts.append(rnd.choice(marks))
                else:
                    parts.append(bytes(rnd.randrange(256) for _ in range(rnd.randrange(0, 6))))
            samples["random-%02d" % i] = b"".join(parts)
        crashes = 0
        outside = 0
        for name, data in samples.items():
            rc, out, codes, pos, err = run(binary, tmp, name + ".st", data)
            texts = candidate_texts(data)
            bad = [p for p in pos if not any(inside(t, *p) for t in texts)]
            verdict = (rc == 0 and out == "OK") or (rc == 1 and len(codes) > 0)
            if not verdict or "panicked" in err:
                crashes += 1
            if bad:
                outside += 1
            if not name.startswith("random") or bad or not verdict:
                print("  %-28s rc=%d stdout=%r codes=%s pos=%s%s" % (name, rc, out, codes, pos, " OUTSIDE " + repr(bad) if bad else ""))
        print("  %d files, %d without a verdict, %d with a position outside the text" % (len(samples), crashes, outside))
        if crashes or outside:
            ok = False
    finally:
        shutil.rmtree(tmp, ignore_errors=True)
    print("RESULT:", "stated observables hold" if ok else "VIOLATION")
    return 0 if ok else 1


if __name__ == "__main__":
    sys.exit(main())
