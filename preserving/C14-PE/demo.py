#!/usr/bin/env python3
"""Demonstration for change B (UTF-16 without byte-order mark is recognized).

usage: demo.py [compiler workspace]   (default /tmp/mut6/C14/compiler)

Builds `ironplcc` in the given workspace and
 1. checks the stated observables of property C14 on concrete examples
    (exit status 0 only if they hold):
      a. the same program in the five encodings gives the same verdict,
         problem codes and line/column positions,
      b. every byte value 0x00-0xFF placed in a comment, in a string, between
         tokens and inside an identifier (exhaustive) gives the same verdict,
         codes and positions as the UTF-8 form of the text that the bytes
         mean (UTF-8 if valid, else Windows-1252), and no crash,
      c. arbitrary byte content (here: files close to the recognition rule
         for UTF-16 without byte-order mark, and random bytes) gives a
         verdict, no crash, and positions inside the decoded text;
 2. prints what the tool says about the same programs stored as UTF-16
    without byte-order mark. This is the behaviour that differs before/after
    the change.

Files are only created in a `mktemp -d` style directory, which is also TMPDIR
of the tool.
"""
import os
import random
import re
import shutil
import subprocess
import sys
import tempfile

WS = sys.argv[1] if len(sys.argv) > 1 else "/tmp/mut6/C14/compiler"
ANSI = re.compile(r"\x1b\[[0-9;]*m")

VALID = (
    "PROGRAM main\n"
    "  VAR\n"
    "    s : STRING := 'Grüße €';  (* café – ñ *)\n"
    "    x : INT;\n"
    "  END_VAR\n"
    "  x := 1; (* … *)\n"
    "END_PROGRAM\n"
)
# y is not declared: a semantic problem located after non-ASCII text
SEMANTIC = VALID.replace("  x := 1; (* … *)\n", "  (* é€ *) y := 1;\n")
# ¤ between tokens: a lexical problem located after non-ASCII text
LEXICAL = VALID.replace("  x := 1; (* … *)\n", "  (* é€ *) x := 1 ¤ 2;\n")

FIVE = {
    "utf8": lambda t: t.encode("utf-8"),
    "utf8-bom": lambda t: b"\xef\xbb\xbf" + t.encode("utf-8"),
    "utf16le-bom": lambda t: b"\xff\xfe" + t.encode("utf-16-le"),
    "utf16be-bom": lambda t: b"\xfe\xff" + t.encode("utf-16-be"),
    "windows-1252": lambda t: t.encode("cp1252"),
}
NOBOM = {
    "utf16le-nobom": lambda t: t.encode("utf-16-le"),
    "utf16be-nobom": lambda t: t.encode("utf-16-be"),
}


def build():
    env = dict(os.environ, CARGO_NET_OFFLINE="true")
    subprocess.run(
        ["cargo", "build", "-q", "-p", "ironplcc", "--offline"],
        cwd=WS, env=env, check=True,
    )
    return os.path.join(WS, "target", "debug", "ironplcc")


def run(binary, tmp, name, data):
    """Returns (exit status, stdout, [codes], [(line, col)], stderr)."""
    path = os.path.join(tmp, name)
    with open(path, "wb") as f:
        f.write(data)
    env = dict(os.environ, TMPDIR=tmp)
    p = subprocess.run([binary, "check", path], env=env, capture_output=True, timeout=60)
    err = ANSI.sub("", p.stderr.decode("utf-8", "replace"))
    codes = re.findall(r"^error\[(P\d+)\]", err, re.M)
    pos = [(int(a), int(b)) for a, b in re.findall(r"┌─ .*:(\d+):(\d+)$", err, re.M)]
    return p.returncode, p.stdout.decode("utf-8", "replace").strip(), codes, pos, err


def cp1252_whatwg(data):
    out = []
    for b in data:
        try:
            out.append(bytes([b]).decode("cp1252"))
        except UnicodeDecodeError:
            out.append(chr(b))
    return "".join(out)


def strict(data, enc):
    try:
        return data.decode(enc)
    except UnicodeDecodeError:
        return None


def sniff_utf16(data):
    """The recognition rule of the change."""
    if len(data) < 16 or len(data) % 2:
        return None
    if data[:3] == b"\xef\xbb\xbf" or data[:2] in (b"\xff\xfe", b"\xfe\xff"):
        return None
    le = be = 0
    for i in range(0, len(data), 2):
        a, b = data[i], data[i + 1]
        if a == 0 and b == 0:
            return None
        if b == 0:
            le += 1
        elif a == 0:
            be += 1
    units = len(data) // 2
    if le * 2 > units:
        return "utf-16-le"
    if be * 2 > units:
        return "utf-16-be"
    return None


def five_encodings_text(data):
    """What the bytes mean according to the five encodings of the property."""
    if data[:3] == b"\xef\xbb\xbf":
        return strict(data[3:], "utf-8")
    if data[:2] == b"\xff\xfe":
        return strict(data[2:], "utf-16-le")
    if data[:2] == b"\xfe\xff":
        return strict(data[2:], "utf-16-be")
    t = strict(data, "utf-8")
    return t if t is not None else cp1252_whatwg(data)


def candidate_texts(data):
    """The texts a decoder may decode the bytes to (None: not decodable).

    The demonstration must run on the tree with and without the change, so a
    position is accepted when it lies inside one of them.
    """
    texts = [five_encodings_text(data)]
    enc = sniff_utf16(data)
    if enc and strict(data, enc) is not None:
        texts.append(strict(data, enc))
    return texts


def inside(text, line, col):
    if (line, col) == (1, 1):
        return True  # start of any text, also of no text
    if text is None:
        return False
    lines = text.split("\n")
    return 1 <= line <= len(lines) and 1 <= col <= len(lines[line - 1]) + 1


def main():
    binary = build()
    tmp = tempfile.mkdtemp(prefix="c14-demo-b-")
    ok = True
    try:
        print("== 1a. same program, five encodings: verdict / codes / line:col")
        for label, text in (("valid", VALID), ("semantic", SEMANTIC), ("lexical", LEXICAL)):
            results = {}
            for enc, f in FIVE.items():
                rc, out, codes, pos, _ = run(binary, tmp, "%s-%s.st" % (label, enc), f(text))
                results[enc] = (rc, out, codes, pos)
                print("  %-9s %-13s rc=%d stdout=%r codes=%s pos=%s" % (label, enc, rc, out, codes, pos))
            if len({repr(v) for v in results.values()}) != 1:
                print("  MISMATCH between encodings for", label)
                ok = False
            if label == "valid" and results["utf8"][:2] != (0, "OK"):
                ok = False
            if label != "valid" and (results["utf8"][0] != 1 or not results["utf8"][2]):
                ok = False

        print("== 2. the same programs stored as UTF-16 without byte-order mark (differs before/after)")
        for label, text in (("valid", VALID), ("semantic", SEMANTIC), ("lexical", LEXICAL)):
            for enc, f in NOBOM.items():
                rc, out, codes, pos, _ = run(binary, tmp, "%s-%s.st" % (label, enc), f(text))
                print("  %-9s %-13s rc=%d stdout=%r codes=%s pos=%s" % (label, enc, rc, out, codes, pos))

        print("== 1b. every byte value in a comment / a string / between tokens / inside an identifier")
        hosts = {
            "comment": b"PROGRAM main\n  VAR\n    x : INT; (* a@b *)\n  END_VAR\n  x := 1;\nEND_PROGRAM\n",
            "string": b"PROGRAM main\n  VAR\n    s : STRING := 'a@b';\n  END_VAR\n  y := 1;\nEND_PROGRAM\n",
            "between": b"PROGRAM main\n  VAR\n    x : INT;\n  END_VAR\n  x :=@1;\nEND_PROGRAM\n",
            "identifier": b"PROGRAM main\n  VAR\n    x : INT;\n  END_VAR\n  x@x := 1;\nEND_PROGRAM\n",
            # tiny hosts: the kind of file in which one byte weighs most
            "tiny-comment": b"(*@*)",
            "tiny-string": b"x:='@';",
            "tiny-between": b"x @ y",
            "tiny-identifier": b"a@b",
            "alone": b"@",
        }
        mismatches = 0
        crashes = 0
        runs = 0
        for place, host in hosts.items():
            for value in range(256):
                data = host.replace(b"@", bytes([value]))
                text = five_encodings_text(data)
                got = run(binary, tmp, "byte.st", data)
                want = run(binary, tmp, "byte.st", text.encode("utf-8"))
                runs += 1
                if "panicked" in got[4] or got[0] not in (0, 1):
                    crashes += 1
                if got[:4] != want[:4]:
                    mismatches += 1
                    print("  MISMATCH %s 0x%02X: %r / %r" % (place, value, got[:4], want[:4]))
        print("  %d files, %d crashes, %d differences to the UTF-8 form" % (runs, crashes, mismatches))
        if crashes or mismatches:
            ok = False

        print("== 1c. arbitrary bytes: verdict, no crash, positions inside the decoded text")
        rnd = random.Random(14)
        samples = {
            "u16le-nobom-lexical": NOBOM["utf16le-nobom"](LEXICAL),
            "u16be-nobom-semantic": NOBOM["utf16be-nobom"](SEMANTIC),
            "u16le-nobom-odd-length": NOBOM["utf16le-nobom"](LEXICAL) + b"\x41",
            "u16le-nobom-with-nul": NOBOM["utf16le-nobom"](LEXICAL.replace("x := 1", "x :=\0 1")),
            "u16le-nobom-lone-surrogate": NOBOM["utf16le-nobom"](LEXICAL) + b"\x00\xd8",
            "u16le-nobom-short": NOBOM["utf16le-nobom"]("x:=1;"),
            "u16le-nobom-cjk": NOBOM["utf16le-nobom"]("(* \u4e2d\u6587\u6ce8\u91ca\u4e2d\u6587\u6ce8\u91ca\u4e2d\u6587\u6ce8\u91ca *) x := 1 \u00a4 2;"),
            "ascii-quarter-nul": b"x\0y\0z\0 := 1; (* padding padd *)",
            "ascii-alternating-nul-be": b"\0x\0y\0z\0 \0:\0=\0 \0001\0;\0\n",
        }
        for i in range(80):
            n = rnd.randrange(8, 40) * 2
            kind = rnd.randrange(3)
            if kind == 0:
                body = bytes(rnd.randrange(256) for _ in range(n))
            elif kind == 1:
                # mostly (byte, 0) pairs: close to the rule
                body = b"".join(bytes([rnd.randrange(1, 256), rnd.choice([0, 0, 0, rnd.randrange(256)])]) for _ in range(n // 2))
            else:
                body = b"".join(bytes([rnd.choice([0, 0, 0, rnd.randrange(256)]), rnd.randrange(1, 256)]) for _ in range(n // 2))
            samples["random-%02d" % i] = body
        crashes = 0
        outside = 0
        for name, data in samples.items():
            rc, out, codes, pos, err = run(binary, tmp, name + ".st", data)
            texts = candidate_texts(data)
            bad = [p for p in pos if not any(inside(t, *p) for t in texts)]
            verdict = (rc == 0 and out == "OK") or (rc == 1 and len(codes) > 0)
            if not verdict or "panicked" in err:
                crashes += 1
            if bad:
                outside += 1
            if not name.startswith("random") or bad or not verdict:
                print("  %-28s rc=%d stdout=%r codes=%s pos=%s%s" % (name, rc, out, codes, pos, " OUTSIDE " + repr(bad) if bad else ""))
        print("  %d files, %d without a verdict, %d with a position outside the text" % (len(samples), crashes, outside))
        if crashes or outside:
            ok = False
    finally:
        shutil.rmtree(tmp, ignore_errors=True)
    print("RESULT:", "stated observables hold" if ok else "VIOLATION")
    return 0 if ok else 1


if __name__ == "__main__":
    sys.exit(main())
