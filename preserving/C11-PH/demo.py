#!/usr/bin/env python3
# ---------------------------------------------------------------------------
# Common part: a minimal LSP client over stdio and an independent check of
# property C11 (used by the specific part at the end of this file).
# ---------------------------------------------------------------------------
import itertools, json, os, re, select, shutil, subprocess, sys, tempfile, time

if len(sys.argv) < 2:
    sys.exit("usage: demo.py <compiler workspace directory>")
BINARY = os.path.join(os.path.abspath(sys.argv[1]), "target", "debug", "ironplcc")
if not os.access(BINARY, os.X_OK):
    sys.exit("binary not found: " + BINARY)

FAILURES = []


def fail(msg):
    FAILURES.append(msg)
    print("PROPERTY VIOLATION: " + msg)


class Lsp:
    """One server process. Every message the server sends is kept in order."""

    def __init__(self, init_params=None, handshake=True):
        self.p = subprocess.Popen([BINARY, "lsp", "--stdio"], stdin=subprocess.PIPE,
                                  stdout=subprocess.PIPE, stderr=subprocess.DEVNULL)
        self.buf = b""
        self.nid = 0
        self.pending = []
        if handshake:
            params = {"processId": None, "rootUri": None, "capabilities": {}}
            if init_params:
                params.update(init_params)
            self.init_result = self.request("initialize", params)
            self.notify("initialized", {})

    def _send(self, obj):
        body = json.dumps(obj).encode()
        self.p.stdin.write(b"Content-Length: %d\r\n\r\n" % len(body) + body)
        self.p.stdin.flush()

    def notify(self, method, params):
        self._send({"jsonrpc": "2.0", "method": method, "params": params})

    def _read(self, timeout=30.0):
        end = time.time() + timeout
        while True:
            i = self.buf.find(b"\r\n\r\n")
            if i >= 0:
                head = self.buf[:i].decode()
                n = [int(l.split(":")[1]) for l in head.split("\r\n")
                     if l.lower().startswith("content-length")][0]
                if len(self.buf) >= i + 4 + n:
                    body = self.buf[i + 4:i + 4 + n]
                    self.buf = self.buf[i + 4 + n:]
                    return json.loads(body)
            left = end - time.time()
            if left <= 0:
                return None
            r, _, _ = select.select([self.p.stdout], [], [], left)
            if not r:
                return None
            chunk = os.read(self.p.stdout.fileno(), 65536)
            if not chunk:
                return None
            self.buf += chunk

    def request(self, method, params):
        self.nid += 1
        rid = self.nid
        self._send({"jsonrpc": "2.0", "id": rid, "method": method, "params": params})
        while True:
            m = self._read()
            if m is None:
                raise RuntimeError("server did not answer the request " + method)
            if m.get("id") == rid and "method" not in m:
                return m
            self.pending.append(m)

    def drain(self):
        """Everything the server sent up to now. The server handles messages
        strictly in order, so the answer to a request for a method it does not
        implement is a barrier: all earlier traffic precedes it."""
        self.request("$/demo/barrier", {})
        out, self.pending = self.pending, []
        return out

    def open(self, uri, version, text):
        self.notify("textDocument/didOpen", {"textDocument": {
            "uri": uri, "languageId": "61131-3-st", "version": version, "text": text}})
        return self.drain()

    def change(self, uri, version, text):
        self.notify("textDocument/didChange", {
            "textDocument": {"uri": uri, "version": version},
            "contentChanges": [{"text": text}]})
        return self.drain()

    def close(self):
        try:
            self.request("shutdown", None)
            self.notify("exit", None)
            self.p.stdin.close()
            self.p.wait(timeout=10)
        except Exception:
            self.p.kill()
            self.p.wait()


# The five kinds of document text of the property.
TEXTS = {
    "valid": "TYPE\n  LEVEL : (LOW, HIGH);\nEND_TYPE\n",
    "lexical": "PROGRAM plex\nVAR\n  a : INT;\nEND_VAR\n  a := 1 ` 2;\nEND_PROGRAM\n",
    "syntax": "PROGRAM psyn\nVAR\n  a : INT\nEND_VAR\n  a := 1;\nEND_PROGRAM\n",
    "semantic": "PROGRAM psem\nVAR\n  a : INT;\nEND_VAR\n  b := 1;\nEND_PROGRAM\n",
    "depends": "FUNCTION_BLOCK fdep\nVAR\n  l : LEVEL;\nEND_VAR\nEND_FUNCTION_BLOCK\n",
}


def publishes(msgs, uri=None):
    return [m for m in msgs if m.get("method") == "textDocument/publishDiagnostics"
            and (uri is None or m["params"]["uri"] == uri)]


def others(msgs):
    return [m for m in msgs if m.get("method") != "textDocument/publishDiagnostics"]


def keys(diagnostics):
    return sorted((d["code"], d["range"]["start"]["line"], d["range"]["start"]["character"])
                  for d in diagnostics)


def canonical(diagnostics):
    return sorted(json.dumps(d, sort_keys=True) for d in diagnostics)


def answer(msgs, uri, version, what):
    """The one publishDiagnostics that answers a notification."""
    mine = publishes(msgs, uri)
    if len(mine) != 1:
        fail("%s: %d publishDiagnostics for %s instead of exactly one" % (what, len(mine), uri))
        return None
    if mine[0]["params"].get("version") != version:
        fail("%s: version %r instead of %r" % (what, mine[0]["params"].get("version"), version))
    return mine[0]["params"]["diagnostics"]


def fresh_reference(state, uri, init_params=None):
    """What a freshly started server publishes for `uri` when it is opened
    last, after all other open documents with their current contents."""
    s = Lsp(init_params)
    try:
        for other in sorted(state):
            if other != uri:
                s.open(other, 1, state[other])
        return answer(s.open(uri, 1, state[uri]), uri, 1, "fresh server")
    finally:
        s.close()


ANSI = re.compile(r"\x1b\[[0-9;]*m")


def check_reference(state, extra_files=None):
    """Problem codes and start positions `ironplcc check` reports per file
    (keyed by file name) for files with the same contents."""
    d = tempfile.mkdtemp(prefix="c11demo-check-")
    try:
        names = {}
        for uri, text in state.items():
            name = uri.rsplit("/", 1)[1]
            names[name] = uri
            with open(os.path.join(d, name), "w", encoding="utf-8", newline="") as f:
                f.write(text)
        for name, text in (extra_files or {}).items():
            if name not in names:
                with open(os.path.join(d, name), "w", encoding="utf-8", newline="") as f:
                    f.write(text)
        files = sorted(os.path.join(d, n) for n in os.listdir(d))
        r = subprocess.run([BINARY, "check"] + files, stdout=subprocess.PIPE,
                           stderr=subprocess.PIPE)
        err = ANSI.sub("", r.stderr.decode("utf-8", "replace"))
        result = {uri: [] for uri in state}
        code, first, seen = None, None, set()
        for line in err.splitlines():
            m = re.match(r"^error\[(\w+)\]", line)
            if m:
                code, first, seen = m.group(1), None, set()
                continue
            m = re.match(r"^\s*┌─ (.*):(\d+):(\d+)$", line)
            if m and code:
                name = os.path.basename(m.group(1))
                if first is None:
                    first = (int(m.group(2)) - 1, int(m.group(3)) - 1)
                if name in names and name not in seen:
                    seen.add(name)
                    result[names[name]].append((code, first[0], first[1]))
        return {u: sorted(v) for u, v in result.items()}
    finally:
        shutil.rmtree(d)


def verify_history(history, init_params=None, label="", extra_files=None, verbose=False):
    """Runs a history of (kind, uri, version, text) on one server and checks
    the property after every notification. Returns all traffic per step."""
    s = Lsp(init_params)
    state = {}
    traffic = [s.drain()]
    try:
        for n, (kind, uri, version, text) in enumerate(history):
            what = "%s step %d %s %s v%s" % (label, n, kind, uri.rsplit("/", 1)[1], version)
            state[uri] = text
            msgs = s.open(uri, version, text) if kind == "open" else s.change(uri, version, text)
            traffic.append(msgs)
            got = answer(msgs, uri, version, what)
            if got is None:
                continue
            ref = fresh_reference(state, uri, init_params)
            if ref is None or canonical(got) != canonical(ref):
                fail("%s: differs from a fresh server\n  got %s\n  ref %s" % (what, got, ref))
            chk = check_reference(state, extra_files)[uri]
            if keys(got) != chk:
                fail("%s: differs from check\n  lsp   %s\n  check %s" % (what, keys(got), chk))
            if verbose:
                print("  %-40s -> %s" % (what, keys(got)))
    finally:
        s.close()
    return traffic


def finish():
    if FAILURES:
        print("\n%d property violation(s)" % len(FAILURES))
        sys.exit(1)
    print("\nproperty C11 holds on everything tried")
    sys.exit(0)

# ---------------------------------------------------------------------------
# Specific part (change A): traffic after the handshake when a workspace folder
# is given, and the property with and without such a folder.
# ---------------------------------------------------------------------------
def show(msgs, indent="    "):
    if not msgs:
        print(indent + "(nothing)")
    for m in msgs:
        p = m.get("params", {})
        if m.get("method") == "textDocument/publishDiagnostics":
            print("%spublishDiagnostics %s v%s %s" % (indent, p["uri"].rsplit("/", 1)[1],
                                                     p.get("version"), keys(p["diagnostics"])))
        else:
            print("%s%s type=%s %s" % (indent, m.get("method"), p.get("type"),
                                       json.dumps(p.get("message"))))


def short(text, d):
    return text.replace(d, "<dir>")


work = tempfile.mkdtemp(prefix="c11demo-a-")
try:
    s = Lsp()
    print("== initialize result: serverInfo = %s, other keys = %s" % (
        json.dumps(s.init_result["result"].get("serverInfo")),
        sorted(k for k in s.init_result["result"] if k != "serverInfo")))
    s.close()

    # 1. No workspace folder: nothing but the answers.
    loose = os.path.join(work, "loose")
    os.mkdir(loose)
    A = "file://%s/a.st" % loose
    B = "file://%s/b.st" % loose
    print("== session without a workspace folder")
    traffic = verify_history([
        ("open", A, 1, TEXTS["depends"]),
        ("open", B, 1, TEXTS["valid"]),
        ("change", A, 2, TEXTS["semantic"]),
        ("change", B, 2, TEXTS["lexical"]),
        ("change", A, 3, TEXTS["valid"]),
    ], label="no folder", verbose=True)
    print("  traffic after the handshake:")
    show(traffic[0])
    print("  traffic that is not publishDiagnostics, whole session:")
    show([m for step in traffic for m in others(step)])

    # 2. A workspace folder of which two entries cannot be loaded.
    folder = os.path.join(work, "ws")
    os.mkdir(folder)
    with open(os.path.join(folder, "level.st"), "w") as f:
        f.write(TEXTS["valid"])
    os.symlink(os.path.join(folder, "nowhere"), os.path.join(folder, "dangling.st"))
    os.mkdir(os.path.join(folder, "subdir.st"))
    init = {"workspaceFolders": [{"uri": "file://" + folder, "name": "ws"},
                                 {"uri": "file://" + loose, "name": "second"}]}
    loaded = {"level.st": TEXTS["valid"]}
    D = "file://%s/dep.st" % folder
    S = "file://%s/sem.st" % folder
    L = "file://%s/level.st" % folder
    print("\n== session with a workspace folder (one good file, a dangling link, a directory)")
    for run in (1, 2):
        s = Lsp(init)
        startup = s.drain()
        s.close()
        print("  traffic after the handshake, session %d:" % run)
        show([json.loads(short(json.dumps(m), work)) for m in startup])
        if publishes(startup):
            fail("publishDiagnostics without a notification")
    traffic = verify_history([
        ("open", D, 1, TEXTS["depends"]),         # LEVEL comes from level.st on disk
        ("open", S, 1, TEXTS["semantic"]),
        ("change", D, 2, TEXTS["syntax"]),
        ("open", L, 7, TEXTS["semantic"].replace("psem", "plevel")),  # LEVEL is gone
        ("change", D, 3, TEXTS["depends"]),
        ("change", L, 8, TEXTS["valid"]),
        ("change", S, 2, TEXTS["valid"].replace("LEVEL", "OTHER").replace("LOW", "L0").replace("HIGH", "L1")),
    ], init_params=init, label="folder", extra_files=loaded, verbose=True)
    extra = [m for step in traffic[1:] for m in others(step)]
    print("  traffic that is not publishDiagnostics after the first notification:")
    show(extra)

    # 3. A folder that cannot be read at all and one that is not a local path.
    print("\n== workspace folder that does not exist / is not a file URI")
    for uri in ("file://" + os.path.join(work, "missing"), "untitled:ws"):
        init = {"workspaceFolders": [{"uri": uri, "name": "x"}]}
        s = Lsp(init)
        startup = s.drain()
        s.close()
        print("  traffic after the handshake, folder %s:" % short(uri, work))
        show([json.loads(short(json.dumps(m), work)) for m in startup])
        verify_history([("open", A, 1, TEXTS["depends"]), ("open", B, 1, TEXTS["valid"]),
                        ("change", A, 2, TEXTS["depends"])], init_params=init,
                       label="bad folder", verbose=True)
finally:
    shutil.rmtree(work)
finish()
