#!/usr/bin/env python3
"""Demonstration for change B (see README.md). Usage: demo.py [compiler workspace [prebuilt ironplcc binary]]"""
import json, os, re, subprocess, sys, tempfile, shutil

WS = os.path.abspath(sys.argv[1] if len(sys.argv) > 1 else "/tmp/mut6/C15/compiler")


def build():
    if len(sys.argv) > 2:          # optional: a binary that is already built (e.g. of HEAD)
        return os.path.abspath(sys.argv[2])
    env = dict(os.environ, CARGO_NET_OFFLINE="true")
    subprocess.run(["cargo", "build", "-p", "ironplcc", "--offline", "--quiet"],
                   cwd=WS, env=env, check=True)
    return os.path.join(WS, "target", "debug", "ironplcc")


class Client:
    """A minimal LSP client over stdio."""

    def __init__(self, binary, tmp):
        env = dict(os.environ, TMPDIR=tmp)
        self.p = subprocess.Popen([binary, "lsp", "--stdio"], stdin=subprocess.PIPE,
                                  stdout=subprocess.PIPE, stderr=subprocess.DEVNULL,
                                  env=env, cwd=tmp)
        self.next_id = 0
        self.version = 0

    def _send(self, msg):
        body = json.dumps(msg).encode("utf-8")
        self.p.stdin.write(b"Content-Length: %d\r\n\r\n" % len(body) + body)
        self.p.stdin.flush()

    def _recv(self):
        length = None
        while True:
            line = self.p.stdout.readline()
            if not line:
                raise RuntimeError("server closed the stream")
            line = line.strip()
            if not line:
                break
            if line.lower().startswith(b"content-length:"):
                length = int(line.split(b":")[1])
        return json.loads(self.p.stdout.read(length).decode("utf-8"))

    def request(self, method, params):
        """Returns the whole response message (has `result` or `error`)."""
        self.next_id += 1
        self._send({"jsonrpc": "2.0", "id": self.next_id, "method": method, "params": params})
        while True:
            msg = self._recv()
            if msg.get("id") == self.next_id and "method" not in msg:
                return msg

    def notify(self, method, params):
        self._send({"jsonrpc": "2.0", "method": method, "params": params})

    def wait_notification(self, method):
        while True:
            msg = self._recv()
            if msg.get("method") == method:
                return msg

    def initialize(self):
        r = self.request("initialize", {"processId": None, "rootUri": None, "capabilities": {}})
        self.notify("initialized", {})
        return r["result"]

    def open(self, uri, text):
        self.version += 1
        self.notify("textDocument/didOpen", {"textDocument": {
            "uri": uri, "languageId": "61131-3-st", "version": self.version, "text": text}})
        self.wait_notification("textDocument/publishDiagnostics")

    def change(self, uri, text):
        self.version += 1
        self.notify("textDocument/didChange", {
            "textDocument": {"uri": uri, "version": self.version},
            "contentChanges": [{"text": text}]})
        self.wait_notification("textDocument/publishDiagnostics")

    def tokens_full(self, uri):
        return self.request("textDocument/semanticTokens/full", {"textDocument": {"uri": uri}})

    def shutdown(self):
        self.request("shutdown", None)
        self.notify("exit", None)
        self.p.wait(timeout=20)


# ---- an independent reference for the example documents -------------------

WORD_OPERATORS = {"AND", "OR", "XOR", "NOT", "MOD"}
KEYWORDS = {
    "PROGRAM", "END_PROGRAM", "VAR", "END_VAR", "VAR_INPUT", "VAR_OUTPUT", "CONSTANT", "RETAIN",
    "AT", "BOOL", "INT", "DINT", "REAL", "IF", "THEN", "ELSE", "ELSIF", "END_IF", "TRUE", "FALSE",
    "FUNCTION_BLOCK", "END_FUNCTION_BLOCK", "WHILE", "DO", "END_WHILE", "RETURN", "ARRAY", "OF",
} | WORD_OPERATORS
REF = re.compile(r"""
    (?P<comment>\(\*(?:[^*]|\*[^)])*\*\))
  | (?P<address>%[IQMiqm](?:\*|[XBWDLxbwdl]?\d(?:\.\d)*))
  | (?P<number>\d[\d_]*(?:\.[\d_]+)?)
  | (?P<string>'[^']*')
  | (?P<word>[A-Za-z_][A-Za-z0-9_]*)
  | (?P<operator>:=|=>|<>|<=|>=|\*\*|[=<>/*+\-&])
  | (?P<punct>\.\.|[()\[\],;:.\#])
  | (?P<space>\r\n|\n|[ \t]+)
""", re.X)


def reference_lexemes(text):
    """List of (byte_start, byte_end, text, classes) or None when some text is no token.

    `classes` is the set of classes of the statement the lexeme belongs to: a word
    operator such as AND is a keyword of the language that denotes an operator."""
    out, pos = [], 0
    while pos < len(text):
        m = REF.match(text, pos)
        if not m:
            return None
        kind, lexeme = m.lastgroup, m.group()
        if kind == "word":
            if lexeme.upper() in WORD_OPERATORS:
                classes = {"keyword", "operator"}
            elif lexeme.upper() in KEYWORDS:
                classes = {"keyword"}
            else:
                classes = {"identifier"}
        else:
            classes = {kind}
        b0 = len(text[:pos].encode("utf-8"))
        out.append((b0, b0 + len(lexeme.encode("utf-8")), lexeme, classes))
        pos = m.end()
    return out


# legend entries that match a class of the statement
LEGEND_FOR_CLASS = {
    "keyword": {"keyword", "modifier"},
    "identifier": {"variable"},
    "comment": {"comment"},
    "operator": {"operator"},
    "address": {"operator"},   # the legend has no entry of its own for addresses
}


def decode(data):
    """LSP relative encoding -> list of (line, start, length, type_index, modifier_bits)."""
    assert len(data) % 5 == 0, "data is not a sequence of 5-tuples"
    out, line, start = [], 0, 0
    for i in range(0, len(data), 5):
        dl, ds, ln, ty, mods = data[i:i + 5]
        assert min(dl, ds, ln, ty, mods) >= 0
        line, start = (line + dl, ds) if dl else (line, start + ds)
        out.append((line, start, ln, ty, mods))
    return out


def check_tokens(text, data, legend_types, what):
    """The observables of C15 for a document where every piece of text is a token."""
    raw = text.encode("utf-8")
    line_starts = [0] + [i + 1 for i, b in enumerate(raw) if b == 0x0A]
    ref = reference_lexemes(text)
    assert ref is not None
    by_start = {b0: (b1, lexeme, classes) for (b0, b1, lexeme, classes) in ref}
    prev_end = -1
    rows = []
    for (line, start, length, ty, mods) in decode(data):
        b0 = line_starts[line] + start
        b1 = b0 + length
        assert b0 >= prev_end and b1 > b0, f"{what}: ranges not strictly increasing / overlap"
        prev_end = b1
        assert b0 in by_start and by_start[b0][0] == b1, \
            f"{what}: range {line}:{start}+{length} does not cover exactly one lexeme"
        _, lexeme, classes = by_start[b0]
        highlightable = classes & set(LEGEND_FOR_CLASS)
        assert highlightable, f"{what}: {lexeme!r} is not a keyword/identifier/comment/operator/address"
        name = legend_types[ty]
        assert any(name in LEGEND_FOR_CLASS[c] for c in highlightable), \
            f"{what}: legend entry {name!r} does not match the class of {lexeme!r}"
        rows.append((lexeme, name, mods))
    print(f"  ok: {what}: {len(rows)} tokens, strictly increasing, each exactly one lexeme, legend matches")
    return rows


def legend_of(init_result):
    provider = init_result["capabilities"]["semanticTokensProvider"]
    return provider, provider["legend"]["tokenTypes"], provider["legend"]["tokenModifiers"]


# ---- change B: a token modifier (defaultLibrary) on the elementary type names ----

DOC1 = ("FUNCTION_BLOCK counter\r\n"
        "VAR_INPUT (* in *) reset : BOOL; END_VAR\r\n"
        "VAR_OUTPUT (* out *) cnt : INT; total : DINT; END_VAR\r\n"
        "VAR CONSTANT (* a comment\r\n"
        "  over two lines *) limit : REAL := 1.5; END_VAR\r\n"
        "IF reset THEN cnt := 0; ELSE cnt := cnt + 1; END_IF;\r\n"
        "END_FUNCTION_BLOCK\r\n")
DOC2 = DOC1.replace("total : DINT;", "total : dint; (* new *) flag AT %QX1.0 : bool;")
BAD = DOC1.replace("cnt := 0;", "cnt := $0;")   # `$` is not a token


def main():
    binary = build()
    tmp = tempfile.mkdtemp()
    try:
        c = Client(binary, tmp)
        provider, types, mods = legend_of(c.initialize())
        print("legend tokenTypes:    ", types)
        print("legend tokenModifiers:", mods, " (BEFORE the change: [])")
        uri = "file://" + os.path.join(tmp, "counter.st")
        c.open(uri, DOC1)
        r1 = c.tokens_full(uri)
        rows1 = check_tokens(DOC1, r1["result"]["data"], types, "opened document")
        c.change(uri, BAD)
        rb = c.tokens_full(uri)
        assert "error" not in rb and rb["result"] is None, "invalid text must give a null result"
        print("  ok: document with `$`: result is null")
        c.change(uri, DOC2)
        r2 = c.tokens_full(uri)
        rows2 = check_tokens(DOC2, r2["result"]["data"], types, "edited document")
        c.shutdown()

        # every bit that is set is announced in the legend (protocol hygiene, not part of C15)
        for (lex, name, bits) in rows1 + rows2:
            assert bits < (1 << len(mods)), f"{lex!r} carries a modifier bit without legend entry"
        print("tokens of the edited document that carry modifiers (BEFORE the change: none, all bit sets 0):")
        for (lex, name, bits) in rows2:
            if bits:
                print(f"  {lex:6} type={name:8} modifiers={[m for i, m in enumerate(mods) if bits >> i & 1]}")
        print("tokens with bit set 0:", sum(1 for r in rows2 if not r[2]), "of", len(rows2))
    finally:
        shutil.rmtree(tmp, ignore_errors=True)
    print("C15 observables hold on the example")


if __name__ == "__main__":
    main()
