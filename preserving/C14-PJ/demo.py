#!/usr/bin/env python3
"""Demo / independent check for change A (limit on the size of the DECODED text).

usage: demo.py <path of the `compiler` workspace>   (binary: $1/target/debug/ironplcc)

Prints what the tool does with texts around 1 MiB and exits 0 when property C14
holds on everything tried: the same text stored in five encodings gives the same
verdict, problem codes and line/column positions (command line: check and
tokenize; language server: semantic tokens of a workspace file), and every
position lies inside the decoded text.
"""
import json, os, re, shutil, signal, subprocess, sys, tempfile

BIN = os.path.join(os.path.abspath(sys.argv[1]), "target", "debug", "ironplcc")
LIMIT = 1024 * 1024
ANSI = re.compile(r"\x1b\[[0-9;]*m")
failures = []


def encodings(text):
    out = {
        "utf8": text.encode("utf-8"),
        "utf8-bom": b"\xef\xbb\xbf" + text.encode("utf-8"),
        "utf16le-bom": b"\xff\xfe" + text.encode("utf-16-le"),
        "utf16be-bom": b"\xfe\xff" + text.encode("utf-16-be"),
        "cp1252": text.encode("cp1252"),
    }
    # the Windows-1252 bytes must not happen to be valid UTF-8 (then the
    # file IS a UTF-8 file of another text); all texts here have a lone 0xE9
    try:
        out["cp1252"].decode("utf-8")
        raise SystemExit("bad test text: cp1252 form is valid UTF-8")
    except UnicodeDecodeError:
        pass
    return out


def run(args, env):
    r = subprocess.run([BIN] + args, capture_output=True, env=env, timeout=600)
    return r.returncode, r.stdout.decode("utf-8", "replace"), ANSI.sub("", r.stderr.decode("utf-8", "replace"))


def diagnostics(stderr):
    """[(code, line, col)] in the order printed"""
    found = []
    code = None
    for line in stderr.splitlines():
        m = re.match(r"^error\[(P\d+)\]", line)
        if m:
            code = m.group(1)
            continue
        m = re.match(r"^\s*┌─ (.*):(\d+):(\d+)$", line)
        if m and code:
            found.append((code, int(m.group(2)), int(m.group(3)), m.group(1)))
            code = None
    return found


def inside(text, line, col):
    lines = text.split("\n")
    return 1 <= line <= len(lines) and 1 <= col <= len(lines[line - 1]) + 1


def lsp_tokens(folder, path, env):
    """semantic tokens the server gives for a file it loaded from the workspace folder"""
    p = subprocess.Popen([BIN, "lsp", "--stdio"], stdin=subprocess.PIPE, stdout=subprocess.PIPE,
                         stderr=subprocess.DEVNULL, env=env)

    def send(obj):
        body = json.dumps(obj).encode()
        p.stdin.write(b"Content-Length: %d\r\n\r\n" % len(body) + body)
        p.stdin.flush()

    def recv():
        length = None
        while True:
            line = p.stdout.readline()
            if not line:
                raise SystemExit("language server closed the connection")
            line = line.strip()
            if not line:
                break
            if line.lower().startswith(b"content-length:"):
                length = int(line.split(b":")[1])
        return json.loads(p.stdout.read(length))

    def response(ident):
        while True:
            msg = recv()
            if msg.get("id") == ident and "method" not in msg:
                return msg

    send({"jsonrpc": "2.0", "id": 1, "method": "initialize", "params": {
        "processId": None, "rootUri": None, "capabilities": {},
        "workspaceFolders": [{"uri": "file://" + folder, "name": "w"}]}})
    response(1)
    send({"jsonrpc": "2.0", "method": "initialized", "params": {}})
    send({"jsonrpc": "2.0", "id": 2, "method": "textDocument/semanticTokens/full",
          "params": {"textDocument": {"uri": "file://" + path}}})
    result = response(2).get("result")
    send({"jsonrpc": "2.0", "id": 3, "method": "shutdown", "params": None})
    response(3)
    send({"jsonrpc": "2.0", "method": "exit", "params": None})
    p.stdin.close()
    p.wait(timeout=60)
    return None if result is None else result["data"]


def lsp_open(path, text, env):
    """problem codes and ranges published when the editor opens `text`"""
    p = subprocess.Popen([BIN, "lsp", "--stdio"], stdin=subprocess.PIPE, stdout=subprocess.PIPE,
                         stderr=subprocess.DEVNULL, env=env)

    def send(obj):
        body = json.dumps(obj).encode()
        p.stdin.write(b"Content-Length: %d\r\n\r\n" % len(body) + body)
        p.stdin.flush()

    def recv():
        length = None
        while True:
            line = p.stdout.readline().strip()
            if not line:
                break
            if line.lower().startswith(b"content-length:"):
                length = int(line.split(b":")[1])
        return json.loads(p.stdout.read(length))

    send({"jsonrpc": "2.0", "id": 1, "method": "initialize",
          "params": {"processId": None, "rootUri": None, "capabilities": {}}})
    while recv().get("id") != 1:
        pass
    send({"jsonrpc": "2.0", "method": "initialized", "params": {}})
    send({"jsonrpc": "2.0", "method": "textDocument/didOpen", "params": {"textDocument": {
        "uri": "file://" + path, "languageId": "st", "version": 1, "text": text}}})
    while True:
        msg = recv()
        if msg.get("method") == "textDocument/publishDiagnostics":
            break
    send({"jsonrpc": "2.0", "id": 3, "method": "shutdown", "params": None})
    while recv().get("id") != 3:
        pass
    send({"jsonrpc": "2.0", "method": "exit", "params": None})
    p.stdin.close()
    p.wait(timeout=60)
    return [(d["code"], d["range"]["start"]["line"], d["range"]["start"]["character"])
            for d in msg["params"]["diagnostics"]]


def make_text(pad_line, decoded_len, with_error=True):
    """a program with a syntax error in its last statement, padded with comment
    lines to exactly `decoded_len` bytes of UTF-8"""
    head = "PROGRAM p\nVAR\n  x : INT; (* café *)\n  s : STRING := 'naïve €';\nEND_VAR\n"
    tail = ("  x := 1 +;\n" if with_error else "  x := 1;\n") + "END_PROGRAM\n"
    body = ""
    unit = len(pad_line.encode("utf-8"))
    room = decoded_len - len(head.encode("utf-8")) - len(tail.encode("utf-8"))
    n = room // unit
    body = pad_line * n
    rest = room - n * unit
    if rest:
        # an ASCII comment of exactly `rest` bytes, or spaces when too short
        body += ("(*" + "-" * (rest - 5) + "*)\n") if rest >= 5 else " " * rest
    text = head + body + tail
    assert len(text.encode("utf-8")) == decoded_len, (len(text.encode("utf-8")), decoded_len)
    return text


def main():
    signal.alarm(1500)  # never hang
    work = tempfile.mkdtemp(prefix="c14-demo-A-")
    try:
        tooltmp = os.path.join(work, "tmp")
        os.mkdir(tooltmp)
        env = dict(os.environ, TMPDIR=tooltmp)

        ascii_pad = "(* padding padding padding padding padding padding padding padding *)\n"
        latin_pad = "(* " + "éüñ€" * 16 + " *)\n"  # 2 to 3 bytes as UTF-8, 1 as cp1252, 2 as UTF-16
        cases = [
            # name, text, remark
            ("small", make_text(ascii_pad, 4096), "control"),
            ("utf16-file-over-1MiB", make_text(ascii_pad, 3 * LIMIT // 4),
             "0.75 MiB decoded; the UTF-16 files are 1.5 MiB on disk"),
            ("cp1252-file-under-1MiB", make_text(latin_pad, LIMIT + LIMIT // 8),
             "1.125 MiB decoded; the Windows-1252 file is under 0.6 MiB on disk"),
            ("exactly-1MiB", make_text(ascii_pad, LIMIT), "decoded size == 1 MiB"),
            ("1MiB-plus-1", make_text(ascii_pad, LIMIT + 1), "decoded size == 1 MiB + 1"),
            ("1MiB-plus-1-valid", make_text(latin_pad, LIMIT + 1, with_error=False),
             "a valid program of 1 MiB + 1"),
        ]
        for name, text, remark in cases:
            outcomes = {}
            sizes = {}
            for enc, data in encodings(text).items():
                folder = os.path.join(work, name, enc)
                os.makedirs(folder)
                path = os.path.join(folder, "prog.st")
                with open(path, "wb") as f:
                    f.write(data)
                sizes[enc] = len(data)
                outcome = []
                for cmd in ("check", "tokenize"):
                    code, out, err = run([cmd, path], env)
                    if code not in (0, 1) or "panicked" in err:
                        failures.append("%s %s %s: crash (exit %s)" % (name, enc, cmd, code))
                    diags = diagnostics(err)
                    for (pcode, line, col, where) in diags:
                        if where == path and not inside(text, line, col):
                            failures.append("%s %s %s: %s at %d:%d is outside the text" % (name, enc, cmd, pcode, line, col))
                    if code == 0 and diags:
                        failures.append("%s %s %s: problems but verdict OK" % (name, enc, cmd))
                    if code != 0 and not diags:
                        failures.append("%s %s %s: failure without a coded problem" % (name, enc, cmd))
                    outcome.append((cmd, code, out.replace(folder, "<dir>"),
                                    [(c, l, k, w.replace(folder, "<dir>")) for (c, l, k, w) in diags]))
                # twice: a second run of the tool on the same file gives the same answer
                again = run(["check", path], env)
                if (again[0], again[1]) != (outcome[0][1], outcome[0][2].replace("<dir>", folder)):
                    failures.append("%s %s: second run differs" % (name, enc))
                tokens = lsp_tokens(folder, path, env)
                outcome.append(("lsp-tokens", tokens))
                outcomes[enc] = outcome
            reference = outcomes["utf8"]
            for enc, outcome in outcomes.items():
                if outcome != reference:
                    failures.append("%s: %s differs from utf8" % (name, enc))
            check = reference[0]
            tokenize = reference[1]
            print("%-24s decoded %8d bytes (%s)" % (name, len(text.encode("utf-8")), remark))
            print("    on disk: " + ", ".join("%s=%d" % kv for kv in sizes.items()))
            print("    check    -> exit %d %s" % (check[1], [(c, "%d:%d" % (l, k)) for (c, l, k, w) in check[3]]))
            print("    tokenize -> exit %d, %d lines of tokens %s" % (
                tokenize[1], tokenize[2].count("Type: "), [(c, "%d:%d" % (l, k)) for (c, l, k, w) in tokenize[3]]))
            toks = reference[2][1]
            print("    lsp semantic tokens of the workspace file -> %s" % (
                "null" if toks is None else "%d tokens" % (len(toks) // 5)))
            print("    same in all five encodings: %s" % all(o == reference for o in outcomes.values()))

        # the editor's text (no file, no encoding) is held to the same limit
        for name, text in (("editor text of 1 MiB", make_text(ascii_pad, LIMIT)),
                           ("editor text of 1 MiB + 1", make_text(ascii_pad, LIMIT + 1))):
            got = lsp_open(os.path.join(work, "editor.st"), text, env)
            print("%-24s didOpen -> %s" % (name, got))
            lines = text.split("\n")
            for (c, l, k) in got:
                if not (0 <= l < len(lines) and 0 <= k <= len(lines[l])):
                    failures.append("%s: %s at %d:%d outside the text" % (name, c, l, k))
            if not got:
                failures.append("%s: no problem reported for a text with a syntax error" % name)
    finally:
        shutil.rmtree(work, ignore_errors=True)

    if failures:
        print("PROPERTY VIOLATED:")
        for f in failures:
            print("  " + f)
        sys.exit(1)
    print("property C14 holds on everything tried")


main()
