#!/usr/bin/env bash
# Demo for change B: every character sequence of a file that is not a token is
# reported (one P0031 each), not only the first one of the file.
#
# usage: demo.sh [compiler-workspace]      (default /tmp/mut6/C03/compiler)
#
# Exit 0 when the observables stated by property C03 hold on the examples:
#   * a set containing a file that does not tokenize fails (exit code != 0, no
#     "OK" on stdout, a diagnostic for that file is printed), for every order
#     of the files and whatever valid files accompany it;
#   * the problem of a second faulty file (syntax error) is not hidden;
#   * the accompanying valid files alone still pass.
set -eu
WS="${1:-/tmp/mut6/C03/compiler}"
T="$(mktemp -d)"
: "${T:?}"
trap 'rm -rf "${T:?}"' EXIT
export TMPDIR="$T"

(cd "$WS" && CARGO_NET_OFFLINE=true cargo build -q -p ironplcc --offline)
BIN="$WS/target/debug/ironplcc"

cat > "$T/types.st" <<'EOF'
TYPE
  LEVEL : (LOW, HIGH) := LOW;
END_TYPE
EOF
cat > "$T/fb_a.st" <<'EOF'
FUNCTION_BLOCK FB1
VAR
  x : BOOL;
END_VAR
  x := TRUE;
END_FUNCTION_BLOCK
EOF
# three character sequences that are not tokens
cat > "$T/bad_tok.st" <<'EOF'
FUNCTION_BLOCK FB2
VAR
  y ? BOOL;
  z ? BOOL;
END_VAR
  y := TRUE ?
END_FUNCTION_BLOCK
EOF
# does tokenize, does not parse
cat > "$T/bad_syn.st" <<'EOF'
FUNCTION_BLOCK FB3
VAR
  y  BOOL;
END_VAR
END_FUNCTION_BLOCK
EOF

fail=0
strip() { sed 's/\x1b\[[0-9;]*m//g'; }
count() { grep -c "$1" "$T/err" || true; }

run() {
  local name="$1" expect="$2"; shift 2
  local rc=0
  (cd "$T" && "$BIN" check "$@" >"$T/out" 2>"$T/err.raw") || rc=$?
  strip <"$T/err.raw" >"$T/err"
  echo "[$name] files: $*  -> exit=$rc stdout='$(tr '\n' ' ' <"$T/out")' P0031 x$(count 'error\[P0031\]') P0002 x$(count 'error\[P0002\]')"
  if [ "$expect" = ok ]; then
    if [ "$rc" -ne 0 ] || ! grep -qx OK "$T/out"; then echo "  VIOLATION: valid set does not pass"; fail=1; fi
  else
    if [ "$rc" -eq 0 ]; then echo "  VIOLATION: exit code 0"; fail=1; fi
    if grep -q OK "$T/out"; then echo "  VIOLATION: OK printed"; fail=1; fi
    if ! grep -q 'error\[P[0-9]*\]' "$T/err"; then echo "  VIOLATION: no diagnostic"; fail=1; fi
  fi
}
need() { grep -q "$1" "$T/err" || { echo "  VIOLATION: expected in diagnostics: $1"; fail=1; }; }

echo "--- accompanying valid files alone"
run valid ok types.st fb_a.st

echo "--- a file that does not tokenize, alone and among valid files, every position"
run tok-1 fail bad_tok.st
need 'bad_tok.st:3:5'
run tok-2 fail bad_tok.st types.st fb_a.st
need 'bad_tok.st:3:5'
run tok-3 fail types.st bad_tok.st fb_a.st
need 'bad_tok.st:3:5'
run tok-4 fail types.st fb_a.st bad_tok.st
need 'bad_tok.st:3:5'
n="$(count 'error\[P0031\]')"
if [ "$n" -gt 1 ]; then
  echo "  (behaviour AFTER change B: $n P0031 diagnostics for bad_tok.st)"
else
  echo "  (behaviour BEFORE change B: only the first P0031 of bad_tok.st)"
fi
grep -A4 'error\[P0031\]' "$T/err" | grep -E 'error|bad_tok.st' || true

echo "--- together with a second faulty file: neither problem hides the other"
run two-1 fail bad_syn.st types.st bad_tok.st fb_a.st
need 'bad_tok.st:3:5'; need 'error\[P0002\]'; need 'bad_syn.st:3'
run two-2 fail bad_tok.st fb_a.st bad_syn.st
need 'bad_tok.st:3:5'; need 'error\[P0002\]'; need 'bad_syn.st:3'

if [ "$fail" -eq 0 ]; then echo "RESULT: property observables hold"; else echo "RESULT: property observables VIOLATED"; fi
exit "$fail"
