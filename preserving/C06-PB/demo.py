#!/usr/bin/env python3
"""Demo for change B (see README.md). Usage: demo.py [COMPILER_WORKSPACE]"""
# ---------------------------------------------------------------------------
# Small harness shared (by copy) between the three demos.
# ---------------------------------------------------------------------------
import itertools
import os
import re
import shutil
import subprocess
import sys
import tempfile

ANSI = re.compile(r"\x1b\[[0-9;]*m")


def build(workspace):
    env = dict(os.environ, CARGO_NET_OFFLINE="true")
    subprocess.run(
        ["cargo", "build", "--offline", "-q", "-p", "ironplcc"],
        cwd=workspace, env=env, check=True,
    )
    return os.path.join(workspace, "target", "debug", "ironplcc")


class Layout:
    """A set of files made from declarations; remembers where each one went."""

    def __init__(self, root, decls, chunks, names=("a.st", "b.st", "c.st")):
        # decls: dict name -> text ; chunks: list of lists of decl names
        self.root = root
        self.where = {}  # path -> list of (first_line, last_line, decl_name)
        self.paths = []
        for name, chunk in zip(names, chunks):
            path = os.path.join(root, name)
            line = 1
            spans = []
            with open(path, "w") as f:
                for d in chunk:
                    text = decls[d].strip("\n") + "\n"
                    n = text.count("\n")
                    spans.append((line, line + n - 1, d))
                    f.write(text)
                    line += n
            self.where[os.path.realpath(path)] = spans
            self.paths.append(path)

    def normalise(self, path, line, col):
        """(file, line, col) -> (declaration, line within declaration, col)."""
        for first, last, d in self.where.get(os.path.realpath(path), []):
            if first <= line <= last:
                return (d, line - first + 1, col)
        return (os.path.basename(path), line, col)


HEAD_RE = re.compile(r"^error\[(P\d+)\]: (.*)$")
LOC_RE = re.compile(r"^\s*┌─ (.*):(\d+):(\d+)$")


def check(binary, args, layout=None):
    """Runs `ironplcc check ARGS`. Returns (verdict, diagnostics, stdout, stderr)
    where verdict is 'OK' or 'ERROR' and a diagnostic is (code, location, message)."""
    p = subprocess.run([binary, "check"] + list(args), capture_output=True, text=True)
    err = ANSI.sub("", p.stderr)
    out = p.stdout
    ok = p.returncode == 0
    # The two ways the verdict is shown must agree.
    assert ok == (out.splitlines()[:1] == ["OK"]), (p.returncode, out, err)
    diags = []
    cur = None
    for ln in err.splitlines():
        m = HEAD_RE.match(ln)
        if m:
            cur = [m.group(1), None, m.group(2)]
            diags.append(cur)
            continue
        m = LOC_RE.match(ln)
        if m and cur is not None and cur[1] is None:
            path, line, col = m.group(1), int(m.group(2)), int(m.group(3))
            cur[1] = layout.normalise(path, line, col) if layout else (path, line, col)
    return ("OK" if ok else "ERROR", [tuple(d) for d in diags], out, err)


def splits(seq, max_files=3):
    """All ways to cut seq into 1..max_files non-empty contiguous chunks."""
    n = len(seq)
    for k in range(1, min(max_files, n) + 1):
        for cuts in itertools.combinations(range(1, n), k - 1):
            b = (0,) + cuts + (n,)
            yield [list(seq[b[i]:b[i + 1]]) for i in range(k)]


def configurations(decl_names, max_files=3):
    """All permutations x all contiguous splits into <=3 files x all argument
    orders (together: every distribution of the declarations over <=3 files, in
    every order inside each file, named in every order)."""
    for perm in itertools.permutations(decl_names):
        for chunks in splits(perm, max_files):
            for order in itertools.permutations(range(len(chunks))):
                yield perm, chunks, order


def sweep(binary, decls, runs_per_config=1, also_directory=True, limit=None):
    """Runs check over all configurations. Yields (description, verdict, diags, out, err)."""
    names = list(decls)
    count = 0
    for perm, chunks, order in configurations(names):
        root = tempfile.mkdtemp(prefix="c06demo.")
        try:
            lay = Layout(root, decls, chunks)
            args = [lay.paths[i] for i in order]
            desc = " | ".join(",".join(c) for c in chunks) + "  args=" + \
                " ".join(os.path.basename(a) for a in args)
            for _ in range(runs_per_config):
                v, d, out, err = check(binary, args, lay)
                yield desc, v, d, out, err
            if also_directory and order == tuple(range(len(chunks))):
                v, d, out, err = check(binary, [root], lay)
                yield desc + " (as directory)", v, d, out, err
        finally:
            shutil.rmtree(root)
        count += 1
        if limit and count >= limit:
            return

# ---------------------------------------------------------------------------
# Demo for change B
# ---------------------------------------------------------------------------
CONFIG = """
CONFIGURATION config
  VAR_GLOBAL CONSTANT
    Limit : INT := 17;
  END_VAR
  RESOURCE res ON PLC
    TASK plc_task(INTERVAL := T#100ms, PRIORITY := 1);
    PROGRAM inst WITH plc_task : main;
  END_RESOURCE
END_CONFIGURATION
"""
MAIN = """
PROGRAM main
  VAR
    first : Alpha;
    second : Beta;
  END_VAR
END_PROGRAM
"""
ALPHA = """
FUNCTION_BLOCK Alpha
  VAR
    level : %s;
  END_VAR
END_FUNCTION_BLOCK
"""
BETA = """
FUNCTION_BLOCK Beta
  VAR_EXTERNAL%s
    Limit : INT%s
  END_VAR
END_FUNCTION_BLOCK
"""
LEVEL = """
TYPE
  LEVEL : (LOW, HIGH) := LOW;
END_TYPE
"""


def unit(alpha_type="LEVEL", beta_const=True, beta_semicolon=True):
    return {
        "config": CONFIG,
        "main": MAIN,
        "Alpha": ALPHA % alpha_type,
        "Beta": BETA % (" CONSTANT" if beta_const else "", ";" if beta_semicolon else ""),
        "LEVEL": LEVEL,
    }


def main():
    workspace = sys.argv[1] if len(sys.argv) > 1 else "/tmp/mut4/C06/compiler"
    binary = build(workspace)
    ok = True

    print("== unit without fault (5 declarations): verdict must be OK in every configuration")
    verdicts = set()
    n = 0
    for desc, v, d, out, err in sweep(binary, unit()):
        verdicts.add(v)
        n += 1
    print("   %d checks, verdicts seen: %s" % (n, sorted(verdicts)))
    ok &= verdicts == {"OK"}

    singles = [
        ("unknown type in Alpha", unit(alpha_type="MISSING"), ("P0022", ("Alpha", 3, 13)), False),
        ("Beta lacks CONSTANT", unit(beta_const=False), ("P0018", ("Beta", 3, 5)), False),
        ("syntax error in Beta", unit(beta_semicolon=False), ("P0002", ("Beta", 4, 3)), True),
    ]
    for title, decls, expected, first_only in singles:
        print("== unit with ONE fault (%s): verdict, code and location must not vary" % title)
        seen = set()
        n = 0
        for desc, v, d, out, err in sweep(binary, decls):
            reported = tuple((code, loc) for code, loc, _ in d)
            if first_only:
                # A file with a syntax error contributes no declarations, so what
                # follows the syntax error depends (also at baseline) on which
                # declarations share the file; the fault itself is listed first.
                reported = reported[:1]
            seen.add((v, reported))
            n += 1
        print("   %d checks, distinct (verdict, [(code, location)]) seen: %d" % (n, len(seen)))
        for s in sorted(seen):
            print("     ", s)
        ok &= seen == {("ERROR", (expected,))}

    print("== unit with TWO faults (syntax errors in Alpha and in Beta): only the verdict is promised")
    two = unit(alpha_type="", beta_semicolon=False)
    verdicts = set()
    n = 0
    for desc, v, d, out, err in sweep(binary, two):
        verdicts.add(v)
        n += 1
    print("   %d checks, verdicts seen: %s" % (n, sorted(verdicts)))
    ok &= verdicts == {"ERROR"}

    root = tempfile.mkdtemp(prefix="c06demo.")
    try:
        lay = Layout(root, two, [["config", "main", "LEVEL", "Alpha"], ["Beta"]])
        a, b = lay.paths
        listing = {}
        for title, args in (("a.st b.st", [a, b]), ("b.st a.st", [b, a]), ("<directory>", [root])):
            v, d, out, err = check(binary, args, lay)
            listing[title] = [loc[0] for code, loc, _ in d if code == "P0002"]
            print("   check %-12s -> %s, syntax errors listed for: %s" % (title, v, listing[title]))
            ok &= v == "ERROR" and sorted(listing[title]) == ["Alpha", "Beta"]
    finally:
        shutil.rmtree(root)
    if listing["a.st b.st"] == listing["b.st a.st"]:
        print("BEHAVIOUR: baseline (problems are listed in the order of the file paths)")
    elif listing["a.st b.st"] == ["Alpha", "Beta"] and listing["b.st a.st"] == ["Beta", "Alpha"]:
        print("BEHAVIOUR: change B (problems are listed in the order the files were named)")
    else:
        print("BEHAVIOUR: unexpected")
        ok = False

    print("PROPERTY C06 OBSERVABLES HOLD" if ok else "PROPERTY C06 OBSERVABLES VIOLATED")
    sys.exit(0 if ok else 1)


if __name__ == "__main__":
    main()
