#!/usr/bin/env python3
"""Demo for change A (see README.md). Usage: demo.py [COMPILER_WORKSPACE]"""
# ---------------------------------------------------------------------------
# Small harness shared (by copy) between the three demos.
# ---------------------------------------------------------------------------
import itertools
import os
import re
import shutil
import subprocess
import sys
import tempfile

ANSI = re.compile(r"\x1b\[[0-9;]*m")


def build(workspace):
    env = dict(os.environ, CARGO_NET_OFFLINE="true")
    subprocess.run(
        ["cargo", "build", "--offline", "-q", "-p", "ironplcc"],
        cwd=workspace, env=env, check=True,
    )
    return os.path.join(workspace, "target", "debug", "ironplcc")


class Layout:
    """A set of files made from declarations; remembers where each one went."""

    def __init__(self, root, decls, chunks, names=("a.st", "b.st", "c.st")):
        # decls: dict name -> text ; chunks: list of lists of decl names
        self.root = root
        self.where = {}  # path -> list of (first_line, last_line, decl_name)
        self.paths = []
        for name, chunk in zip(names, chunks):
            path = os.path.join(root, name)
            line = 1
            spans = []
            with open(path, "w") as f:
                for d in chunk:
                    text = decls[d].strip("\n") + "\n"
                    n = text.count("\n")
                    spans.append((line, line + n - 1, d))
                    f.write(text)
                    line += n
            self.where[os.path.realpath(path)] = spans
            self.paths.append(path)

    def normalise(self, path, line, col):
        """(file, line, col) -> (declaration, line within declaration, col)."""
        for first, last, d in self.where.get(os.path.realpath(path), []):
            if first <= line <= last:
                return (d, line - first + 1, col)
        return (os.path.basename(path), line, col)


HEAD_RE = re.compile(r"^error\[(P\d+)\]: (.*)$")
LOC_RE = re.compile(r"^\s*┌─ (.*):(\d+):(\d+)$")


def check(binary, args, layout=None):
    """Runs `ironplcc check ARGS`. Returns (verdict, diagnostics, stdout, stderr)
    where verdict is 'OK' or 'ERROR' and a diagnostic is (code, location, message)."""
    p = subprocess.run([binary, "check"] + list(args), capture_output=True, text=True)
    err = ANSI.sub("", p.stderr)
    out = p.stdout
    ok = p.returncode == 0
    # The two ways the verdict is shown must agree.
    assert ok == (out.splitlines()[:1] == ["OK"]), (p.returncode, out, err)
    diags = []
    cur = None
    for ln in err.splitlines():
        m = HEAD_RE.match(ln)
        if m:
            cur = [m.group(1), None, m.group(2)]
            diags.append(cur)
            continue
        m = LOC_RE.match(ln)
        if m and cur is not None and cur[1] is None:
            path, line, col = m.group(1), int(m.group(2)), int(m.group(3))
            cur[1] = layout.normalise(path, line, col) if layout else (path, line, col)
    return ("OK" if ok else "ERROR", [tuple(d) for d in diags], out, err)


def splits(seq, max_files=3):
    """All ways to cut seq into 1..max_files non-empty contiguous chunks."""
    n = len(seq)
    for k in range(1, min(max_files, n) + 1):
        for cuts in itertools.combinations(range(1, n), k - 1):
            b = (0,) + cuts + (n,)
            yield [list(seq[b[i]:b[i + 1]]) for i in range(k)]


def configurations(decl_names, max_files=3):
    """All permutations x all contiguous splits into <=3 files x all argument
    orders (together: every distribution of the declarations over <=3 files, in
    every order inside each file, named in every order)."""
    for perm in itertools.permutations(decl_names):
        for chunks in splits(perm, max_files):
            for order in itertools.permutations(range(len(chunks))):
                yield perm, chunks, order


def sweep(binary, decls, runs_per_config=1, also_directory=True, limit=None):
    """Runs check over all configurations. Yields (description, verdict, diags, out, err)."""
    names = list(decls)
    count = 0
    for perm, chunks, order in configurations(names):
        root = tempfile.mkdtemp(prefix="c06demo.")
        try:
            lay = Layout(root, decls, chunks)
            args = [lay.paths[i] for i in order]
            desc = " | ".join(",".join(c) for c in chunks) + "  args=" + \
                " ".join(os.path.basename(a) for a in args)
            for _ in range(runs_per_config):
                v, d, out, err = check(binary, args, lay)
                yield desc, v, d, out, err
            if also_directory and order == tuple(range(len(chunks))):
                v, d, out, err = check(binary, [root], lay)
                yield desc + " (as directory)", v, d, out, err
        finally:
            shutil.rmtree(root)
        count += 1
        if limit and count >= limit:
            return

# ---------------------------------------------------------------------------
# Demo for change A
# ---------------------------------------------------------------------------
CONFIG = """
CONFIGURATION config
  VAR_GLOBAL CONSTANT
    Limit : INT := 17;
  END_VAR
  RESOURCE res ON PLC
    TASK plc_task(INTERVAL := T#100ms, PRIORITY := 1);
    PROGRAM inst WITH plc_task : main;
  END_RESOURCE
END_CONFIGURATION
"""
MAIN = """
PROGRAM main
  VAR
    first : Alpha;
    second : Beta;
  END_VAR
END_PROGRAM
"""
FB = """
FUNCTION_BLOCK %s
  VAR_EXTERNAL%s
    Limit : INT;
  END_VAR
END_FUNCTION_BLOCK
"""


def unit(alpha_const, beta_const):
    return {
        "config": CONFIG,
        "main": MAIN,
        "Alpha": FB % ("Alpha", " CONSTANT" if alpha_const else ""),
        "Beta": FB % ("Beta", " CONSTANT" if beta_const else ""),
    }


def main():
    workspace = sys.argv[1] if len(sys.argv) > 1 else "/tmp/mut4/C06/compiler"
    binary = build(workspace)
    ok = True

    print("== unit without fault: verdict must be OK in every configuration")
    verdicts = set()
    n = 0
    for desc, v, d, out, err in sweep(binary, unit(True, True)):
        verdicts.add(v)
        n += 1
    print("   %d checks, verdicts seen: %s" % (n, sorted(verdicts)))
    ok &= verdicts == {"OK"}

    print("== unit with ONE fault (Alpha lacks CONSTANT): verdict, code and location must not vary")
    seen = set()
    n = 0
    for desc, v, d, out, err in sweep(binary, unit(False, True), runs_per_config=2):
        seen.add((v, tuple((code, loc) for code, loc, _ in d)))
        n += 1
    print("   %d checks, distinct (verdict, [(code, location)]) seen: %d" % (n, len(seen)))
    for s in sorted(seen):
        print("     ", s)
    ok &= seen == {("ERROR", (("P0018", ("Alpha", 3, 5)),))}

    print("== unit with TWO faults (Alpha and Beta lack CONSTANT): only the verdict is promised")
    verdicts = set()
    counts = {}
    firsts = set()
    sample = None
    n = 0
    for desc, v, d, out, err in sweep(binary, unit(False, False)):
        verdicts.add(v)
        counts[len(d)] = counts.get(len(d), 0) + 1
        if d:
            firsts.add(d[0][:2])
        ok &= all(code == "P0018" for code, _, _ in d)
        if sample is None:
            sample = err
        n += 1
    print("   %d checks, verdicts seen: %s" % (n, sorted(verdicts)))
    print("   number of diagnostics per check -> number of checks: %s" % counts)
    print("   first diagnostic seen at: %s" % sorted(firsts))
    ok &= verdicts == {"ERROR"}
    print("   sample output (first configuration):")
    for ln in sample.splitlines():
        print("      | " + ln)
    if set(counts) == {1}:
        print("BEHAVIOUR: baseline (only the first offending VAR_EXTERNAL is reported)")
    elif set(counts) == {2}:
        print("BEHAVIOUR: change A (every offending VAR_EXTERNAL is reported, new label texts)")
    else:
        print("BEHAVIOUR: unexpected")
        ok = False

    print("PROPERTY C06 OBSERVABLES HOLD" if ok else "PROPERTY C06 OBSERVABLES VIOLATED")
    sys.exit(0 if ok else 1)


if __name__ == "__main__":
    main()
