#!/usr/bin/env bash
# Demo for change A: a duplicated POU name is reported with the new code P0033
# (before: P0019); a duplicated data type name keeps P0019.
#
# usage: demo.sh [compiler-workspace]      (default /tmp/mut6/C03/compiler)
#
# Exit 0 when the observables stated by property C03 hold on the examples:
#   * check of a set containing two declarations of the same name fails
#     (exit code != 0, no "OK" on stdout) and a diagnostic is printed that points
#     at the duplicated name - for every order of the files on the command line
#     and whatever valid files accompany the pair;
#   * the duplicate does not hide behind the accompanying valid files, and the
#     accompanying valid files alone still pass.
set -eu
WS="${1:-/tmp/mut6/C03/compiler}"
T="$(mktemp -d)"
: "${T:?}"
trap 'rm -rf "${T:?}"' EXIT
export TMPDIR="$T"

(cd "$WS" && CARGO_NET_OFFLINE=true cargo build -q -p ironplcc --offline)
BIN="$WS/target/debug/ironplcc"

cat > "$T/types.st" <<'EOF'
TYPE
  LEVEL : (LOW, HIGH) := LOW;
END_TYPE
EOF
cat > "$T/fb_a.st" <<'EOF'
FUNCTION_BLOCK FB1
VAR
  x : BOOL;
END_VAR
  x := TRUE;
END_FUNCTION_BLOCK
EOF
# same name as fb_a.st (here even a different kind of POU)
cat > "$T/fb_b.st" <<'EOF'
PROGRAM FB1
VAR
  y : BOOL;
END_VAR
  y := TRUE;
END_PROGRAM
EOF
cat > "$T/other.st" <<'EOF'
FUNCTION_BLOCK OTHER
VAR
  z : LEVEL;
END_VAR
END_FUNCTION_BLOCK
EOF
# duplicated data type name
cat > "$T/types_b.st" <<'EOF'
TYPE
  LEVEL : (A1, B1) := A1;
END_TYPE
EOF

fail=0
strip() { sed 's/\x1b\[[0-9;]*m//g'; }

# run NAME EXPECT(ok|fail) files...
run() {
  local name="$1" expect="$2"; shift 2
  local rc=0
  (cd "$T" && "$BIN" check "$@" >"$T/out" 2>"$T/err.raw") || rc=$?
  strip <"$T/err.raw" >"$T/err"
  local codes
  codes="$(grep -o 'error\[P[0-9]*\]' "$T/err" | sort | uniq -c | tr -s ' \n' ' ' || true)"
  echo "[$name] files: $*  -> exit=$rc stdout='$(tr '\n' ' ' <"$T/out")' codes:$codes"
  if [ "$expect" = ok ]; then
    if [ "$rc" -ne 0 ] || ! grep -qx OK "$T/out"; then echo "  VIOLATION: valid set does not pass"; fail=1; fi
  else
    if [ "$rc" -eq 0 ]; then echo "  VIOLATION: exit code 0"; fail=1; fi
    if grep -q OK "$T/out"; then echo "  VIOLATION: OK printed"; fail=1; fi
    if ! grep -q 'error\[P[0-9]*\]' "$T/err"; then echo "  VIOLATION: no diagnostic"; fail=1; fi
  fi
}

echo "--- accompanying valid files alone"
run valid ok types.st fb_a.st other.st

echo "--- duplicated POU name FB1, every file order, with and without company"
run pou-dup-1 fail fb_a.st fb_b.st
grep -q 'FB1' "$T/err" || { echo "  VIOLATION: duplicate name not pointed at"; fail=1; }
run pou-dup-2 fail fb_b.st fb_a.st
run pou-dup-3 fail types.st fb_a.st other.st fb_b.st
run pou-dup-4 fail fb_b.st other.st types.st fb_a.st
run pou-dup-5 fail other.st fb_b.st fb_a.st types.st
grep -q 'FB1' "$T/err" || { echo "  VIOLATION: duplicate name not pointed at"; fail=1; }
if grep -q 'error\[P0033\]' "$T/err"; then
  echo "  (behaviour AFTER change A: POU duplicate has code P0033)"
elif grep -q 'error\[P0019\]' "$T/err"; then
  echo "  (behaviour BEFORE change A: POU duplicate has code P0019)"
fi
sed -n '1,12p' "$T/err"

echo "--- duplicated data type name LEVEL (code stays P0019 before and after)"
run type-dup-1 fail types.st types_b.st
run type-dup-2 fail fb_a.st types_b.st other.st types.st
grep -q 'LEVEL' "$T/err" || { echo "  VIOLATION: duplicate name not pointed at"; fail=1; }
grep -q 'error\[P0019\]' "$T/err" || echo "  note: type duplicate not reported as P0019"

if [ "$fail" -eq 0 ]; then echo "RESULT: property observables hold"; else echo "RESULT: property observables VIOLATED"; fi
exit "$fail"
