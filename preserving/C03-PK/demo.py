#!/usr/bin/env python3
"""Demo for change B (files are read by their OS path, file identifiers stay
unique for names that are not text, diagnostics name files relative to the
working directory).

usage: demo.py <path of the compiler workspace>   (binary: $1/target/debug/ironplcc)

Exit 0 = C03 held on everything tried (with and without the change).
"""
import itertools, os, re, shutil, subprocess, sys, tempfile

ws = os.path.abspath(sys.argv[1])
BIN = os.path.join(ws, "target", "debug", "ironplcc").encode()
root = os.path.realpath(tempfile.mkdtemp(prefix="c03-B-")).encode()
tmp = os.path.join(root, b"tmp")
os.mkdir(tmp)
env = dict(os.environb, TMPDIR=tmp) if hasattr(os, "environb") else None
env = {k: v for k, v in os.environb.items()}
env[b"TMPDIR"] = tmp
ANSI = re.compile(r"\x1b\[[0-9;]*m")
problems = []
shown = []


def write(directory, name, text):
    path = os.path.join(directory, name)
    with open(path, "wb") as f:
        f.write(text.encode("utf-8"))
    return path


def check(paths, cwd=None, shell=None):
    cmd = [BIN, b"check"] + list(paths)
    if shell:
        cmd = [b"/bin/sh", b"-c", shell, b"sh"] + cmd
    p = subprocess.run(cmd, env=env, cwd=cwd, stdout=subprocess.PIPE, stderr=subprocess.PIPE, timeout=120)
    err = ANSI.sub("", p.stderr.decode("utf-8", "replace"))
    codes = sorted(re.findall(r"error\[(P\d+)\]", err))
    names = re.findall(r"┌─ (.*):\d+:\d+", err)
    return p.returncode, codes, names, p.stdout.decode("utf-8", "replace")


def expect_fail(what, paths, **kw):
    rc, codes, names, out = check(paths, **kw)
    if rc == 0 or "OK" in out or not codes:
        problems.append("MASKED: %s: rc=%s codes=%s" % (what, rc, codes))
    return codes, names


VALID_TYPE = "TYPE\n  LEVEL : (LOW, HIGH) := LOW;\nEND_TYPE\n"
VALID_FB = "(* Grüße *)\nFUNCTION_BLOCK FB\nVAR\n x : LEVEL;\nEND_VAR\nEND_FUNCTION_BLOCK\n"
VALID_FB2 = "FUNCTION_BLOCK OTHER\nVAR\n y : INT;\nEND_VAR\nEND_FUNCTION_BLOCK\n"
FAULTS = {
    "syntax": "TYPE\n  T2 : INT (1..10)\nEND_TYPE\n",
    "token": "TYPE\n  café : INT (1..10);\nEND_TYPE\n",
    "struct": "TYPE\n  S : STRUCT\n x: INT; x : INT;\n END_STRUCT;\nEND_TYPE\n",
    "range": "TYPE\n  R2 : INT (10..1);\nEND_TYPE\n",
    "dup-fb": "FUNCTION_BLOCK FB\nVAR\n z : INT;\nEND_VAR\nEND_FUNCTION_BLOCK\n",
    "dup-type": "TYPE\n  LEVEL : (A1, B1) := A1;\nEND_TYPE\n",
}
# Names that all become "caf�.st" when converted lossily, plus names that
# look like the escapes an implementation might use for them.
TWINS = [b"caf\xe9.st", b"caf\xe8.st", b"caf\xff.st", b"caf%E9.st", b"bytes:caf%E9.st", b"caf\xc3.st"]

try:
    n = 0
    for kind, text in FAULTS.items():
        for faulty_name in TWINS:
            n += 1
            d = os.path.join(root, b"set%d" % n)
            os.mkdir(d)
            # the accompanying valid files use all the other twin names
            others = [t for t in TWINS if t != faulty_name]
            valid = [write(d, others[0], VALID_TYPE), write(d, others[1], VALID_FB),
                     write(d, others[2], VALID_FB2), write(d, others[3], "(* nothing *)\n"),
                     write(d, others[4], "")]
            faulty = write(d, faulty_name, text)
            seen = set()
            for k in range(len(valid) + 1):
                paths = valid[:k] + [faulty] + valid[k:]
                seen.add(tuple(expect_fail("%s in %r at %d" % (kind, faulty_name, k), paths)[0]))
            for order in list(itertools.permutations(valid + [faulty]))[::97]:
                seen.add(tuple(expect_fail("%s in %r permuted" % (kind, faulty_name), order)[0]))
            seen.add(tuple(expect_fail("%s in %r via directory" % (kind, faulty_name), [d])[0]))
            # relative paths from inside, from the parent and from elsewhere
            rel = [os.path.basename(p) for p in valid + [faulty]]
            seen.add(tuple(expect_fail("%s in %r relative" % (kind, faulty_name), rel, cwd=d)[0]))
            seen.add(tuple(expect_fail("%s in %r dot" % (kind, faulty_name), [b"."], cwd=d)[0]))
            if len(seen) != 1:
                problems.append("diagnostics depend on order/cwd for %s in %r: %s" % (kind, faulty_name, seen))
            if faulty_name in (b"caf\xe9.st", b"caf%E9.st") :
                shown.append("%-8s in %-22r -> %s" % (kind, faulty_name, sorted(seen)))
            # without the faulty file the rest is judged the same from every
            # directory (passes with the change; cannot be read without it)
            os.remove(faulty)
            verdicts = {check(valid)[0], check([b"."], cwd=d)[0], check([d], cwd=b"/")[0]}
            if len(verdicts) != 1:
                problems.append("verdict of the valid files depends on cwd: %s" % verdicts)
            if kind == "syntax" and faulty_name == b"caf\xe9.st":
                shown.append("valid files alone (names that are not text): exit code %s" % verdicts)

    # the way files are named, from several working directories
    d = os.path.join(root, b"Gr\xc3\xbc\xc3\x9fe")
    sub = os.path.join(d, b"sub")
    os.makedirs(sub)
    write(d, b"a.st", VALID_TYPE)
    bad = write(d, b"b\xe9d.st", FAULTS["range"])
    write(sub, b"c.st", FAULTS["dup-type"])
    for what, paths, kw in (
        ("from inside", [b"."], dict(cwd=d)),
        ("from inside, file arguments", [b"a.st", b"b\xe9d.st"], dict(cwd=d)),
        ("from the parent", [os.path.basename(d)], dict(cwd=root)),
        ("from /", [d], dict(cwd=b"/")),
        ("from a sibling", [os.path.join(b"..", b"a.st"), os.path.join(b"..", b"b\xe9d.st")], dict(cwd=sub)),
        ("two directories' worth", [b"a.st", bad, os.path.join(b"sub", b"c.st")], dict(cwd=d)),
        ("working directory removed", [os.path.join(d, b"a.st"), bad],
         dict(shell=b'mkdir "$0.gone" && cd "$0.gone" && rmdir "$0.gone" && exec "$@"'.replace(b"$0", os.path.join(root, b"x")))),
    ):
        codes, names = expect_fail(what, paths, **kw)
        shown.append("%-28s -> %s named %s" % (what, codes, names))
        if not set(codes) & {"P0004", "P0019", "P0026"}:
            problems.append("%s: neither fault is reported: %s" % (what, codes))
    codes, _ = expect_fail("duplicate across directories", [os.path.join(d, b"a.st"), os.path.join(sub, b"c.st")])
    if "P0019" not in codes:
        problems.append("duplicate LEVEL not diagnosed: %s" % codes)

    # For information only (does not decide the exit code): a file whose name
    # really contains U+FFFD next to a file whose name becomes the same text
    # when converted lossily. The unchanged tree reads the former in place of
    # the latter (so the fault is never read); with the change each file is
    # read by its own path.
    d = os.path.join(root, b"alias")
    os.mkdir(d)
    good = write(d, b"caf\xef\xbf\xbd.st", VALID_TYPE)
    bad = write(d, b"caf\xe9.st", FAULTS["range"])
    rc, codes, names, out = check([good, bad])
    shown.append("valid 'caf\\ufffd.st' + faulty b'caf\\xe9.st' (information only): exit code %s %s" % (rc, codes))

    print("VISIBLE BEHAVIOUR (compare with and without the change):")
    for s in shown:
        print("  " + s)
finally:
    shutil.rmtree(root, ignore_errors=True)

for p in problems:
    print("PROBLEM:", p)
print("C03 held on everything tried" if not problems else "C03 VIOLATED")
sys.exit(1 if problems else 0)
