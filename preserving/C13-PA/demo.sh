#!/bin/sh
# Demonstration for change A (exit status scheme and final line of the command).
#
# usage: demo.sh [compiler-workspace]      (default /tmp/mut4/C13/compiler)
#
# Builds ironplcc without and with patch.diff (the workspace is put back into
# the state it was found in), runs both on the same examples and prints the
# difference. Exits 0 when the observables of property C13 hold on every
# example for both binaries.
set -eu

WS="${1:-/tmp/mut4/C13/compiler}"
HERE=$(cd "$(dirname "$0")" && pwd)
PATCH="$HERE/patch.diff"
TOP=$(git -C "$WS" rev-parse --show-toplevel)
T=$(mktemp -d)
: "${T:?}"

state() {
    if git -C "$TOP" apply --check -R "$PATCH" 2>/dev/null; then
        echo patched
    elif git -C "$TOP" apply --check "$PATCH" 2>/dev/null; then
        echo unpatched
    else
        echo unknown
    fi
}
to_state() {
    want="$1"
    have=$(state)
    if [ "$have" = "$want" ]; then return 0; fi
    if [ "$want" = patched ]; then git -C "$TOP" apply "$PATCH"; else git -C "$TOP" apply -R "$PATCH"; fi
}
build() {
    (cd "$WS" && CARGO_NET_OFFLINE=true cargo build --offline -q -p ironplcc 2>"$T/build.log") || {
        cat "$T/build.log" >&2
        exit 2
    }
    cp "$WS/target/debug/ironplcc" "$1"
}

INITIAL=$(state)
if [ "$INITIAL" = unknown ]; then
    echo "patch.diff neither applies nor reverse-applies in $TOP" >&2
    rm -rf "$T"
    exit 2
fi
cleanup() {
    : "${T:?}"
    to_state "$INITIAL" || echo "WARNING: could not restore the workspace" >&2
    rm -rf "$T"
}
trap cleanup EXIT

to_state unpatched
build "$T/before"
to_state patched
build "$T/after"
to_state "$INITIAL"

# ---------------------------------------------------------------- examples
W="$T/work"
mkdir -p "$W/dir"
cp "$WS/resources/test/first_steps.st" "$W/dir/first_steps.st"
printf 'PROGRAM p\nVAR x : INT; END_VAR\nx := ;\nEND_PROGRAM\n' >"$W/syntax_error.st"
cp "$WS/resources/test/first_steps_semantic_error.st" "$W/semantic_error.st"
mkdir -p "$W/with_subdir/inner"      # reading the entry "inner" as a file fails
cp "$WS/resources/test/first_steps.st" "$W/with_subdir/first_steps.st"

strip_ansi() { sed 's/\x1b\[[0-9;]*m//g'; }

FAIL=0
# run BIN NAME ARGS...: runs and checks the observables of C13 for `check`
run_check() {
    bin="$1"
    shift
    rc=0
    "$T/$bin" check "$@" >"$T/out" 2>"$T/err.raw" || rc=$?
    strip_ansi <"$T/err.raw" >"$T/err"
    ok=$(grep -cx 'OK' "$T/out" || true)
    ndiag=$(grep -cE '^error\[P[0-9]+\]' "$T/err" || true)
    last=$(tail -n 1 "$T/err")
    verdict=VIOLATED
    if [ "$rc" -eq 0 ] && [ "$ok" -ge 1 ] && [ "$ndiag" -eq 0 ]; then verdict=holds; fi
    if [ "$rc" -ne 0 ] && [ "$ok" -eq 0 ] && [ "$ndiag" -ge 1 ]; then verdict=holds; fi
    [ "$verdict" = holds ] || FAIL=1
    printf '  %-6s exit=%s OK-lines=%s coded-diagnostics=%s C13:%s\n         last stderr line: %s\n' \
        "$bin" "$rc" "$ok" "$ndiag" "$verdict" "$last"
}
# run_simple BIN SUBCOMMAND EXPECT(zero|nonzero) ARGS...
run_simple() {
    bin="$1"
    sub="$2"
    expect="$3"
    shift 3
    rc=0
    "$T/$bin" "$sub" "$@" >"$T/out" 2>"$T/err.raw" || rc=$?
    verdict=VIOLATED
    if [ "$expect" = zero ] && [ "$rc" -eq 0 ]; then verdict=holds; fi
    if [ "$expect" = nonzero ] && [ "$rc" -ne 0 ]; then verdict=holds; fi
    [ "$verdict" = holds ] || FAIL=1
    printf '  %-6s exit=%s (property wants %s) C13:%s\n' "$bin" "$rc" "$expect" "$verdict"
}
example() {
    echo
    echo "== check $1"
    shift
    run_check before "$@"
    run_check after "$@"
}

cd "$W"
example "valid directory                       : dir" dir
example "file with a syntax error              : syntax_error.st" syntax_error.st
example "file with a semantic error            : semantic_error.st" semantic_error.st
example "valid dir + missing path              : dir missing.st" dir missing.st
example "missing path + valid dir (other order): missing.st dir" missing.st dir
example "syntax error + missing path           : syntax_error.st missing.st" syntax_error.st missing.st
example "directory with an unreadable entry    : with_subdir" with_subdir

echo
echo "== echo syntax_error.st (does not parse)"
run_simple before echo nonzero syntax_error.st
run_simple after echo nonzero syntax_error.st
echo "== echo semantic_error.st dir/first_steps.st (both parse)"
run_simple before echo zero semantic_error.st dir/first_steps.st
run_simple after echo zero semantic_error.st dir/first_steps.st
echo "== tokenize missing.st"
run_simple before tokenize nonzero missing.st
run_simple after tokenize nonzero missing.st
echo "== tokenize dir"
run_simple before tokenize zero dir
run_simple after tokenize zero dir

echo
if [ "$FAIL" -eq 0 ]; then
    echo "RESULT: the observables of C13 hold on every example, before and after the change"
else
    echo "RESULT: an observable of C13 does NOT hold"
fi
exit "$FAIL"
