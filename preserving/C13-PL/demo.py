#!/usr/bin/env python3
"""Change C: the logs of previous runs are kept; an unusable log location no longer stops the command.

usage: demo.py <compiler workspace dir>      (binary: $1/target/debug/ironplcc)

Prints what is in the temporary directory of the tool after each run and what
happens when the log cannot be created, and checks the command line contract
(C13) around the changed behaviour. Exits 0 when the contract
holds on everything tried (with and without the change).
"""
import itertools
import os
import re
import shutil
import subprocess
import sys
import tempfile

ANSI = re.compile(r"\x1b\[[0-9;]*m")
CODED = re.compile(r"^(?:error|warning|bug|note|help)\[(P\d{4})\]", re.M)

VALID_A = "FUNCTION_BLOCK FBA\nVAR\n  x : INT;\nEND_VAR\n  x := 1;\nEND_FUNCTION_BLOCK\n"
VALID_B = "FUNCTION_BLOCK FBB\nVAR\n  y : INT; (* Größe: ä ö ü, данные *)\nEND_VAR\n  y := 2;\nEND_FUNCTION_BLOCK\n"
SYNTAX = "FUNCTION_BLOCK FBS\nVAR\n  x : INT\nEND_VAR\n  x := 1;\nEND_FUNCTION_BLOCK\n"
SEMANTIC = "TYPE\n  LEVEL : (LOW, HIGH, LOW) := LOW; (* Stufe: niedrig, höher *)\nEND_TYPE\n"
BADTOKEN = "FUNCTION_BLOCK FBT\nVAR\n  x : INT;\nEND_VAR\n  x := 1 ? 2;\nEND_FUNCTION_BLOCK\n"

failures = []


def fail(msg):
    failures.append(msg)
    print("CONTRACT VIOLATED: " + msg)


class Tool:
    def __init__(self, binary, tmpdir):
        self.binary = binary
        self.env = dict(os.environ, TMPDIR=tmpdir, NO_COLOR="1")

    def run(self, action, args, cwd, flags=(), tmpdir=None):
        env = self.env if tmpdir is None else dict(self.env, TMPDIR=tmpdir)
        p = subprocess.run([self.binary] + list(flags) + [action] + list(args), cwd=cwd, env=env,
                           stdout=subprocess.PIPE, stderr=subprocess.PIPE, timeout=120)
        out = p.stdout.decode("utf-8", "replace")
        err = ANSI.sub("", p.stderr.decode("utf-8", "replace"))
        return p.returncode, out, err


def has_ok_line(out):
    return any(line == "OK" for line in out.splitlines())


def check_contract(what, rc, out, err):
    """exit 0 and OK exactly when no diagnostic; else non-zero, >= 1 coded, no OK."""
    codes = CODED.findall(err)
    ok = has_ok_line(out)
    if rc < 0:
        fail("%s: killed by signal %d" % (what, -rc))
    if "panicked" in err:
        fail("%s: panic" % what)
    if rc == 0:
        if codes:
            fail("%s: exit 0 with diagnostics %s" % (what, codes))
        if not ok:
            fail("%s: exit 0 without OK" % what)
    else:
        if not codes:
            fail("%s: exit %d without a coded diagnostic" % (what, rc))
        if ok:
            fail("%s: exit %d and OK" % (what, rc))
    return sorted(codes)


def check_weak(what, rc, out, err):
    """What must hold even when the tool cannot create its log file."""
    codes = CODED.findall(err)
    if rc < 0:
        fail("%s: killed by signal %d" % (what, -rc))
    if "panicked" in err:
        fail("%s: panic" % what)
    if has_ok_line(out) != (rc == 0):
        fail("%s: exit %d, OK line %s" % (what, rc, has_ok_line(out)))
    if codes and rc == 0:
        fail("%s: exit 0 with diagnostics %s" % (what, codes))


def listing(d):
    found = []
    for base, dirs, files in os.walk(d):
        for f in sorted(files) + [x + "/" for x in sorted(dirs)]:
            found.append(os.path.relpath(os.path.join(base, f), d))
    return sorted(found)


def main():
    ws = os.path.abspath(sys.argv[1])
    binary = os.path.join(ws, "target", "debug", "ironplcc")
    root = os.path.realpath(tempfile.mkdtemp(prefix="c13c-"))
    try:
        tooltmp = os.path.join(root, "tmp")
        os.mkdir(tooltmp)
        tool = Tool(binary, tooltmp)

        work = os.path.join(root, "wörk")
        good = os.path.join(work, "good")
        bad = os.path.join(work, "bad")
        for d in (good, bad):
            os.makedirs(d)

        def put(d, name, text):
            with open(os.path.join(d, name), "w", encoding="utf-8") as f:
                f.write(text)
            return os.path.join(d, name)

        put(good, "a.st", VALID_A)
        put(good, "ä.st", VALID_B)
        put(bad, "a.st", VALID_A)
        put(bad, "sem.st", SEMANTIC)
        put(bad, "syn.st", SYNTAX)

        # ---- visible difference: what stays in the temporary directory ------
        print("== temporary directory of the tool after each run")
        runs = [("check", [good], True), ("check", [bad], False), ("check", ["nope.st"], False),
                ("check", [os.path.join(good, "a.st")], True), ("check", [bad, good], False),
                ("check", [good], True), ("check", [good], True)]
        for i, (action, args, expect_ok) in enumerate(runs):
            flags = ["-v", "-v", "-v", "-v"] if i % 2 else []
            rc, out, err = tool.run(action, args, work, flags)
            check_contract("run %d" % i, rc, out, err)
            if (rc == 0) != expect_ok:
                fail("run %d: exit %d" % (i, rc))
            content = listing(tooltmp)
            print("  run %d exit=%d  %s" % (i, rc, content))
            if len(content) > 6:
                fail("the temporary directory keeps growing: %s" % content)

        # ---- check: files, directory, mixture, every order (same TMPDIR) -------
        print("== contract for check (all runs share one temporary directory)")
        n = 0
        for d, expect_ok in ((good, True), (bad, False)):
            names = sorted(os.listdir(d))
            results = []
            for cwd in (d, work):
                for args in ([os.path.relpath(d, cwd)], [d]):
                    rc, out, err = tool.run("check", args, cwd)
                    codes = check_contract("check %s" % args, rc, out, err)
                    results.append((rc == 0, tuple(codes)))
                    n += 1
                for order in itertools.permutations(names):
                    args = [os.path.relpath(os.path.join(d, f), cwd) for f in order]
                    rc, out, err = tool.run("check", args, cwd)
                    codes = check_contract("check %s" % args, rc, out, err)
                    results.append((rc == 0, tuple(codes)))
                    n += 1
            if len(set(results)) != 1:
                fail("directory %s and its files disagree: %s" % (d, set(results)))
            if results[0][0] != expect_ok:
                fail("%s: ok=%s" % (d, results[0][0]))
        for args in ([good, os.path.join(bad, "syn.st")], [os.path.join(bad, "syn.st"), good], ["nope", good], [good, "nope"]):
            rc, out, err = tool.run("check", args, work)
            check_contract("check %s" % args, rc, out, err)
            if rc == 0:
                fail("accepted %s" % args)
            n += 1
        print("  %d runs, temporary directory now: %s" % (n, listing(tooltmp)))

        # ---- many runs at the same moment --------------------------------------
        print("== 12 runs at the same moment in one temporary directory")
        procs = []
        for i in range(12):
            args = [good] if i % 2 == 0 else [bad]
            procs.append((i, subprocess.Popen([binary, "-v", "-v", "-v", "-v", "check"] + args, cwd=work, env=tool.env,
                                              stdout=subprocess.PIPE, stderr=subprocess.PIPE)))
        for i, p in procs:
            out, err = p.communicate(timeout=120)
            err = ANSI.sub("", err.decode("utf-8", "replace"))
            check_contract("parallel run %d" % i, p.returncode, out.decode(), err)
            if (p.returncode == 0) != (i % 2 == 0):
                fail("parallel run %d: exit %d" % (i, p.returncode))
        print("  temporary directory now: %s" % listing(tooltmp))

        # ---- things in the way of the log --------------------------------------
        print("== things in the way of the log (weaker check: OK line exactly with exit 0, never exit 0 with a diagnostic)")
        def scenario(name, prepare):
            t = os.path.join(root, "tmp-" + name)
            tmpdir = prepare(t)
            for args, expect_ok in (([good], True), ([bad], False), ([good], True)):
                for flags in ([], ["-v"]):
                    rc, out, err = tool.run("check", args, work, flags, tmpdir=tmpdir)
                    check_weak("%s: check %s" % (name, args), rc, out, err)
                    if rc == 0 and not expect_ok:
                        fail("%s: accepted %s" % (name, args))
                    extra = [l for l in err.splitlines() if "log" in l]
                    print("  %-32s %-5s exit=%d OK=%-5s coded=%s %s" % (
                        name, "good" if expect_ok else "bad", rc, has_ok_line(out), sorted(CODED.findall(err)), extra[:1]))

        def old_log_is_dir(t):
            os.makedirs(os.path.join(t, "ironplcc", "ironplcc.log.1", "keep"))
            return t
        def log_is_dir(t):
            os.makedirs(os.path.join(t, "ironplcc", "ironplcc.log", "keep"))
            return t
        def location_is_file(t):
            os.makedirs(t)
            open(os.path.join(t, "ironplcc"), "w").close()
            return t
        def tmp_is_file(t):
            open(t, "w").close()
            return t
        def tmp_missing(t):
            return os.path.join(t, "not", "yet", "there")
        scenario("ironplcc.log.1 is a directory", old_log_is_dir)
        scenario("ironplcc.log is a directory", log_is_dir)
        scenario("TMPDIR/ironplcc is a file", location_is_file)
        scenario("TMPDIR is a file", tmp_is_file)
        scenario("TMPDIR does not exist", tmp_missing)

        # ---- files change between runs -----------------------------------------
        print("== file repaired and broken again between runs")
        for text, expect_ok in ((VALID_B, True), (SYNTAX, False), (SEMANTIC, False), (VALID_B, True)):
            put(bad, "syn.st", text)
            put(bad, "sem.st", VALID_A.replace("FBA", "FBC"))
            for cwd, arg in ((bad, "."), (work, "bad")):
                rc, out, err = tool.run("check", [arg], cwd)
                check_contract("check %s after edit" % arg, rc, out, err)
                if (rc == 0) != expect_ok:
                    fail("stale answer from %s: exit %d" % (cwd, rc))
        put(bad, "syn.st", SYNTAX)
        put(bad, "sem.st", SEMANTIC)

        # ---- echo / tokenize ------------------------------------------------
        print("== echo / tokenize")
        tok = put(work, "tok.st", BADTOKEN)
        cases = (
            ([os.path.join(good, "a.st"), os.path.join(good, "ä.st")], True, True),
            ([os.path.join(bad, "sem.st")], True, True),
            ([os.path.join(good, "a.st"), os.path.join(bad, "syn.st")], False, True),
            ([tok, os.path.join(good, "a.st")], False, False),
        )
        for files, parses, tokenizes in cases:
            for order in itertools.permutations(files):
                for tmpdir in (None, os.path.join(root, "tmp-TMPDIR is a file")):
                    args = [os.path.relpath(f, work) for f in order]
                    rc, out, err = tool.run("echo", args, work, tmpdir=tmpdir)
                    if tmpdir is None or rc == 0:
                        if (rc == 0) != parses:
                            fail("echo %s: exit %d, parses=%s" % (args, rc, parses))
                    if tmpdir is None and rc != 0 and not CODED.findall(err):
                        fail("echo %s: failure without a coded diagnostic" % args)
                    rc, out, err = tool.run("tokenize", args, work, tmpdir=tmpdir)
                    if tmpdir is None or rc == 0:
                        if (rc == 0) != tokenizes:
                            fail("tokenize %s: exit %d, tokenizes=%s" % (args, rc, tokenizes))
                    if tmpdir is None and rc != 0 and not CODED.findall(err):
                        fail("tokenize %s: failure without a coded diagnostic" % args)
    finally:
        shutil.rmtree(root, ignore_errors=True)

    if failures:
        print("%d violation(s)" % len(failures))
        return 1
    print("contract holds on everything tried")
    return 0


if __name__ == "__main__":
    sys.exit(main())
