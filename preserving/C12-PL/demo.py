#!/usr/bin/env python3
"""Change B: idle housekeeping in the event loop of the language server.

usage: demo.py <compiler workspace directory>   (binary: $1/target/debug/ironplcc)

Runs two conversations with `ironplcc lsp --stdio` (default verbosity and
`-vv`) that contain pauses longer than the idle time of the server and a
burst of messages without pauses, prints what the server wrote to its
standard error and its log file, and checks property C12 on both
conversations: every request answered exactly once with its id, no answer
to anything else, status 0 after shutdown and exit.

Exits 0 when the property held (with or without the change).
"""
import json
import os
import queue
import shutil
import subprocess
import sys
import tempfile
import threading
import time

PAUSE = 1.4  # seconds; the server calls itself idle after 1 second


class Client:
    def __init__(self, binary, cwd, tmpdir, flags=()):
        env = dict(os.environ)
        env["TMPDIR"] = tmpdir
        self.stderr_path = os.path.join(tmpdir, "stderr.txt")
        self.stderr_file = open(self.stderr_path, "wb")
        self.proc = subprocess.Popen(
            [binary, *flags, "lsp", "--stdio"],
            stdin=subprocess.PIPE,
            stdout=subprocess.PIPE,
            stderr=self.stderr_file,
            cwd=cwd,
            env=env,
        )
        self.inbox = queue.Queue()
        self.reader = threading.Thread(target=self._read, daemon=True)
        self.reader.start()

    def _read(self):
        out = self.proc.stdout
        while True:
            length = None
            while True:
                line = out.readline()
                if not line:
                    self.inbox.put(None)
                    return
                line = line.strip()
                if not line:
                    break
                name, _, value = line.partition(b":")
                if name.lower() == b"content-length":
                    length = int(value)
            body = out.read(length)
            self.inbox.put(json.loads(body.decode("utf-8")))

    def send(self, message):
        message = dict(message, jsonrpc="2.0")
        body = json.dumps(message, ensure_ascii=False).encode("utf-8")
        self.proc.stdin.write(b"Content-Length: %d\r\n\r\n" % len(body) + body)
        self.proc.stdin.flush()

    def receive(self, timeout=30):
        """Next message from the server, None at end of output."""
        return self.inbox.get(timeout=timeout)

    def finish(self, timeout=60):
        """Closes the input, returns (remaining messages, exit status)."""
        self.proc.stdin.close()
        rest = []
        while True:
            message = self.inbox.get(timeout=timeout)
            if message is None:
                break
            rest.append(message)
        status = self.proc.wait(timeout=timeout)
        self.stderr_file.close()
        return rest, status


def converse(binary, flags, failures):
    work = tempfile.mkdtemp(prefix="c12b-work-")
    tmp = tempfile.mkdtemp(prefix="c12b-tmp-")
    label = "flags %s" % (list(flags),)
    client = None
    try:
        with open(os.path.join(work, "on_disk.st"), "w", encoding="utf-8") as f:
            f.write("PROGRAM disk\nEND_PROGRAM\n")
        client = Client(binary, work, tmp, flags)
        sent_requests = {}
        responses, notifications, server_requests = [], [], []

        def request(id_, method, params=None):
            sent_requests[json.dumps(id_)] = method
            message = {"id": id_, "method": method}
            if params is not None:
                message["params"] = params
            client.send(message)

        def notify(method, params=None):
            message = {"method": method}
            if params is not None:
                message["params"] = params
            client.send(message)

        def sort(message):
            if "method" in message and "id" in message:
                server_requests.append(message)
            elif "method" in message:
                notifications.append(message)
            else:
                responses.append(message)

        def wait_response(id_):
            while True:
                message = client.receive()
                if message is None:
                    raise RuntimeError("server closed its output")
                sort(message)
                if "method" not in message and message.get("id") == id_:
                    return message

        def drain(seconds):
            """Pause, and collect whatever the server says on its own meanwhile."""
            deadline = time.time() + seconds
            while True:
                left = deadline - time.time()
                if left <= 0:
                    return
                try:
                    message = client.receive(timeout=left)
                except queue.Empty:
                    return
                if message is None:
                    raise RuntimeError("server closed its output during a pause")
                sort(message)

        uri = "file://" + work + "/gr%C3%B6%C3%9Fe.st"
        text = "(* Größe \U0001F600 *)\nPROGRAM main\nVAR\n  a : INT;\nEND_VAR\n  a := 1;\nEND_PROGRAM\n"

        request(1, "initialize", {"processId": None, "rootUri": None, "capabilities": {},
                                  "workspaceFolders": [{"uri": "file://" + work, "name": "w"}]})
        wait_response(1)
        notify("initialized", {})
        drain(PAUSE)                                        # idle before the first message
        notify("textDocument/didOpen", {"textDocument": {
            "uri": uri, "languageId": "61131-3-st", "version": 1, "text": text}})
        request(2, "textDocument/semanticTokens/full", {"textDocument": {"uri": uri}})
        wait_response(2)
        drain(PAUSE)                                        # idle after a request
        # the file of the workspace folder changes on disk while the server is idle
        with open(os.path.join(work, "on_disk.st"), "w", encoding="utf-8") as f:
            f.write("PROGRAM disk2\nEND_PROGRAM\n")
        request("h", "textDocument/hover", {"textDocument": {"uri": uri},
                                            "position": {"line": 0, "character": 0}})
        notify("$/cancelRequest", {"id": "h"})
        client.send({"id": 4711, "result": None})
        drain(PAUSE)                                        # idle after a client response
        # a burst without pauses: 12 edits with 0, 1 and 2 changes, 12 requests
        for i in range(12):
            changes = [{"text": text + "(* %d *)\n" % i}] * (i % 3)
            notify("textDocument/didChange", {"textDocument": {"uri": uri, "version": 2 + i},
                                              "contentChanges": changes})
            request(100 + i, "textDocument/semanticTokens/full", {"textDocument": {"uri": uri}})
        notify("textDocument/didChange", {"textDocument": {"uri": "untitled:Untitled-1", "version": 1},
                                          "contentChanges": [{"text": "x"}]})
        request(3, "workspace/symbol", {"query": ""})
        wait_response(3)
        drain(PAUSE)                                        # idle right before shutdown
        request(4, "shutdown")
        wait_response(4)
        drain(0.3)                                          # short pause between shutdown and exit
        notify("exit")
        rest, status = client.finish()
        for message in rest:
            sort(message)

        answered = {}
        for response in responses:
            key = json.dumps(response.get("id"))
            answered[key] = answered.get(key, 0) + 1
            if key not in sent_requests:
                failures.append("%s: response to something that is not a request: %s" % (label, key))
        for key, method in sent_requests.items():
            if answered.get(key, 0) != 1:
                failures.append("%s: %s (id %s) answered %d times" %
                                (label, method, key, answered.get(key, 0)))
        for id_ in ("h", 3):
            for response in responses:
                if response.get("id") == id_ and "error" not in response:
                    failures.append("%s: unimplemented method answered without an error" % label)
        order = [r.get("id") for r in responses]
        wanted = [1, 2, "h"] + [100 + i for i in range(12)] + [3, 4]
        if order != wanted:
            failures.append("%s: responses out of order: %r" % (label, order))
        if status != 0:
            failures.append("%s: exit status %r" % (label, status))

        print("== conversation with", label)
        print("requests sent: %d, responses: %d, notifications of the server: %d (%s), "
              "requests of the server: %d, exit status: %s" % (
                  len(sent_requests), len(responses), len(notifications),
                  ", ".join(sorted({n["method"] for n in notifications})),
                  len(server_requests), status))
        with open(client.stderr_path, "rb") as f:
            err = f.read().decode("utf-8", "replace").strip()
        print("standard error of the server:")
        print("\n".join("    " + line for line in err.splitlines()) if err else "    (empty)")
        log = os.path.join(tmp, "ironplcc", "ironplcc.log")
        if os.path.exists(log):
            with open(log, "rb") as f:
                lines = f.read().decode("utf-8", "replace").splitlines()
            idle = [line for line in lines if " idle #" in line]
            print("log file: %d lines, %d of them about idle time" % (len(lines), len(idle)))
            for line in idle:
                print("    " + line)
        else:
            print("log file: none")
    finally:
        if client is not None:
            try:
                client.proc.kill()
            except Exception:
                pass
        shutil.rmtree(work, ignore_errors=True)
        shutil.rmtree(tmp, ignore_errors=True)


def main():
    workspace = os.path.abspath(sys.argv[1])
    binary = os.path.join(workspace, "target", "debug", "ironplcc")
    failures = []
    converse(binary, (), failures)
    converse(binary, ("-vv",), failures)
    if failures:
        print("PROPERTY VIOLATED:")
        for failure in failures:
            print("  -", failure)
        return 1
    print("property C12 held")
    return 0


if __name__ == "__main__":
    sys.exit(main())
