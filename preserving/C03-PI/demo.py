#!/usr/bin/env python3
"""Change C: the project keeps its files in the order of their names and parses them in parallel.

usage: demo.py <path of the `compiler` workspace>   (binary: $1/target/debug/ironplcc)

Part 1 prints the visible difference: the order in which `echo <dir>` writes the
files of a directory over several runs (random without the change, always the
order of the names with it) and the trace line of the parallel parse.
Part 2 is a small independent check of property C03 around the changed
behaviour: each kind of faulty file is placed at the first, a middle and the
last position (by name) of sets of 1..5 files, and also of sets of 13 and 41
files (more files than workers), as a directory and as arguments in every order
or rotation, several times each. Every such check must fail and must report the
code of the fault in the faulty file.

Exit status 0: the property held on everything tried (with or without the change).
"""
import itertools
import os
import re
import shutil
import subprocess
import sys
import tempfile

ANSI = re.compile(r'\x1b\[[0-9;]*m')


def valid_file(i):
    """A valid file that declares names nobody else declares."""
    kind = i % 3
    if kind == 0:
        return 'FUNCTION_BLOCK VFB%d\nVAR\n  x : BOOL;\nEND_VAR\nEND_FUNCTION_BLOCK\n' % i
    if kind == 1:
        return 'TYPE\n  VEN%d : (LOW%d, HIGH%d) := LOW%d;\nEND_TYPE\n' % (i, i, i, i)
    return 'TYPE\n  VST%d : STRUCT\n    a : BOOL;\n    b : INT;\n  END_STRUCT;\nEND_TYPE\n' % i


# name -> (text, code expected in the faulty file)
FAULTS = {
    'tokenize': ('TYPE\n  T1 : (A1, B1) := A1;\nEND_TYPE\n?\n', 'P0031'),
    'parse': ('FUNCTION_BLOCK F1\nVAR\n  x : ;\nEND_VAR\nEND_FUNCTION_BLOCK\n', 'P0002'),
    'struct-element-twice': ('TYPE\n  ST1 : STRUCT\n    a : BOOL;\n    a : BOOL;\n  END_STRUCT;\nEND_TYPE\n', 'P0003'),
    'subrange-limits': ('TYPE\n  S1 : INT (10..1);\nEND_TYPE\n', 'P0004'),
    'enum-value-twice': ('TYPE\n  E1 : (A, A) := A;\nEND_TYPE\n', 'P0005'),
    # declares again what the valid file number 0 declares
    'same-name-as-valid-pou': ('FUNCTION_BLOCK VFB0\nVAR\n  y : INT;\nEND_VAR\nEND_FUNCTION_BLOCK\n', 'P0019'),
}


def run(binary, args, env=None):
    r = subprocess.run([binary] + args, capture_output=True, env=env)
    out = r.stdout.decode('utf-8', 'replace')
    err = ANSI.sub('', r.stderr.decode('utf-8', 'replace'))
    return r.returncode, out, err


def rendered(err):
    """[(code, file, line)] in the order of the output; file of the first snippet."""
    result = []
    lines = err.splitlines()
    for i, line in enumerate(lines):
        m = re.match(r'error\[(P\d+)\]', line)
        if not m:
            continue
        where = (None, None)
        for nxt in lines[i + 1:i + 3]:
            w = re.match(r'\s*┌─ (.*):(\d+):(\d+)\s*$', nxt)
            if w:
                where = (os.path.basename(w.group(1)), int(w.group(2)))
                break
        result.append((m.group(1),) + where)
    return result


def main():
    if len(sys.argv) != 2:
        print(__doc__)
        return 2
    binary = os.path.join(sys.argv[1], 'target', 'debug', 'ironplcc')
    if not os.path.exists(binary):
        print('no binary at', binary)
        return 2

    violations = []

    # ---- Part 1: the visible difference -------------------------------
    tmp = tempfile.mkdtemp(prefix='c03-demo-c-')
    try:
        root = os.path.join(tmp, 'set')
        os.makedirs(root)
        for i in range(0, 18, 3):  # six function blocks VFB0, VFB3, ...
            open(os.path.join(root, 'f%02d.st' % i), 'w').write(valid_file(i))
        orders = set()
        for _ in range(12):
            rc, out, err = run(binary, ['echo', root])
            orders.add(' '.join(re.findall(r'FUNCTION_BLOCK (VFB\d+)', out)))
        print('[difference] `echo <dir>` of six files, 12 runs: %d different order(s) of the output' % len(orders))
        for o in sorted(orders)[:4]:
            print('    ' + o)
        if len(orders) > 4:
            print('    ...')

        # trace log of a check (the log file is written below TMPDIR)
        logdir = os.path.join(tmp, 'log')
        os.makedirs(logdir)
        env = dict(os.environ, TMPDIR=logdir)
        rc, out, err = run(binary, ['-v', '-v', '-v', '-v', 'check', root], env=env)
        log = ''
        logfile = os.path.join(logdir, 'ironplcc', 'ironplcc.log')
        if os.path.exists(logfile):
            log = open(logfile, errors='replace').read()
        lines = [l for l in log.splitlines() if 'workers' in l]
        print('[difference] `check <dir>` (exit %d, %s); trace lines about workers: %s' % (
            rc, out.strip(), [re.sub(r'^\[[^\]]*\] ', '', l) for l in lines] or 'none'))

        # deeply nested expressions: the parser runs on threads with a large stack
        for depth in (300, 1000):
            deep_root = os.path.join(tmp, 'deep%d' % depth)
            os.makedirs(deep_root)
            nested = '(' * depth + '1' + ')' * depth
            open(os.path.join(deep_root, 'a_valid.st'), 'w').write(valid_file(0))
            open(os.path.join(deep_root, 'b_deep.st'), 'w').write(
                'FUNCTION_BLOCK DEEP\nVAR\n  x : INT;\nEND_VAR\n  x := %s;\nEND_FUNCTION_BLOCK\n' % nested)
            rc, out, err = run(binary, ['check', deep_root])
            print('[difference] valid set with an expression nested %d deep: exit %d %s' % (
                depth, rc, out.strip() or ('(terminated by signal %d)' % -rc if rc < 0 else '')))
            # the same with a fault at the end of the deep file: never a success
            open(os.path.join(deep_root, 'b_deep.st'), 'a').write('FUNCTION_BLOCK BROKEN\nVAR\n  x : ;\nEND_VAR\nEND_FUNCTION_BLOCK\n')
            rc, out, err = run(binary, ['check', deep_root])
            print('[difference] ... and a declaration that does not parse after it: exit %d, codes %s' % (
                rc, [c for c, _, _ in rendered(err)]))
            if rc == 0 or 'OK' in out:
                violations.append(('deep file with a fault was not a failure', depth, rc))
    finally:
        shutil.rmtree(tmp)

    # ---- Part 2: the property around the change -------------------------
    runs = 0
    outcomes = {}
    for fault, (text, code) in FAULTS.items():
        for n_valid in (0, 1, 2, 4, 12, 40):
            if fault.startswith('same-name') and n_valid == 0:
                continue
            positions = sorted(set([0, n_valid // 2, n_valid]))
            for pos in positions:
                tmp = tempfile.mkdtemp(prefix='c03-demo-c-')
                try:
                    root = os.path.join(tmp, 'set')
                    os.makedirs(root)
                    # names f000.st .. ; the faulty one takes the position `pos` by name
                    files = []
                    faulty = None
                    v = 0
                    for slot in range(n_valid + 1):
                        p = os.path.join(root, 'f%03d.st' % slot)
                        if slot == pos:
                            open(p, 'w').write(text)
                            faulty = p
                        else:
                            open(p, 'w').write(valid_file(v))
                            v += 1
                        files.append(p)

                    if len(files) <= 3:
                        orders = [list(o) for o in itertools.permutations(files)]
                    elif len(files) <= 5:
                        orders = [files[i:] + files[:i] for i in range(len(files))]
                    else:
                        orders = [files, files[::-1], files[len(files) // 2:] + files[:len(files) // 2]]
                    arg_lists = [[root]] + orders
                    repeat = 3 if len(files) > 5 else 2

                    for args in arg_lists:
                        for _ in range(repeat):
                            rc, out, err = run(binary, ['check'] + args)
                            runs += 1
                            where = (fault, n_valid, pos, 'dir' if args == [root] else 'files')
                            found = rendered(err)
                            outcomes.setdefault((fault, n_valid, pos), set()).add(tuple(found))
                            if rc == 0 or 'OK' in out:
                                violations.append(('not a failure', where, rc))
                            elif fault.startswith('same-name') and code in [c for c, _, _ in found]:
                                pass  # the primary label is on whichever of the two comes later by name
                            elif (code, os.path.basename(faulty)) not in [(c, f) for c, f, _ in found]:
                                violations.append(('%s not reported in %s: %s' % (code, os.path.basename(faulty), found), where))
                finally:
                    shutil.rmtree(tmp)

    unstable = {k: v for k, v in outcomes.items() if len(v) > 1}
    print('[property] %d checks of sets of 1..41 files that hold a fault' % runs)
    print('[info] sets whose list of diagnostics differed between orders or repetitions: %d of %d' % (
        len(unstable), len(outcomes)))
    if violations:
        print('[property] VIOLATED:')
        for v in violations[:40]:
            print('    ', v)
        return 1
    print('[property] every set failed and named the fault in the faulty file: C03 holds on what was tried')
    return 0


if __name__ == '__main__':
    sys.exit(main())
