#!/usr/bin/env python3
"""Demo for change A (line ends are normalised after decoding).

usage: demo.py <path of the compiler workspace>   (binary: $1/target/debug/ironplcc)

Stores three programs (valid, semantic error, lexical error; all with
non-ASCII characters in comments and strings) with LF, CR LF and lone CR line
ends in five encodings, runs `check` and `tokenize`, prints what is seen and
checks the property C14 on it:
  * for one and the same text the five encodings give the same exit status,
    the same problem codes and the same line:column positions,
  * every reported line:column lies inside the decoded text (a line end being
    CR LF, LF or CR, as for every editor and the language server protocol),
  * no run crashes (exit status 0 or 1, no panic text).
Exits 0 when all of that holds (with and without the change).
"""
import os
import re
import shutil
import subprocess
import sys
import tempfile

ANSI = re.compile(r"\x1b\[[0-9;]*m")
HEAD = re.compile(r"^error\[(P\d+)\]")
# The file name never contains a colon; the text on the line may (a raw CR in
# the source line can make more text follow on the same output line).
WHERE = re.compile(r"┌─ ([^:\n]*):(\d+):(\d+)")

ENCODINGS = [
    ("utf-8", lambda t: t.encode("utf-8")),
    ("utf-8-bom", lambda t: b"\xef\xbb\xbf" + t.encode("utf-8")),
    ("utf-16le-bom", lambda t: b"\xff\xfe" + t.encode("utf-16-le")),
    ("utf-16be-bom", lambda t: b"\xfe\xff" + t.encode("utf-16-be")),
    ("windows-1252", lambda t: t.encode("cp1252")),
]

VALID = [
    "(* Größe in € – Maß *)",
    "PROGRAM main",
    "VAR",
    "  s : STRING := 'café über';",
    "  x : INT;",
    "END_VAR",
    "  x := 1; (* naïve *)",
    "END_PROGRAM",
    "",
]
SEMANTIC = list(VALID)
SEMANTIC[6] = "  (* ÿ *) y := 1;"
LEXICAL = list(VALID)
LEXICAL[6] = "  x := 1; (* ñ *) ? "

PROGRAMS = [("valid", VALID), ("semantic", SEMANTIC), ("lexical", LEXICAL)]
LINE_ENDS = [("LF", "\n"), ("CRLF", "\r\n"), ("CR", "\r")]


def run(binary, command, path):
    p = subprocess.run([binary, command, path], capture_output=True, timeout=120)
    out = p.stdout.decode("utf-8", "replace")
    err = ANSI.sub("", p.stderr.decode("utf-8", "replace"))
    return p.returncode, out, err


def diagnostics(err, path):
    """[(code, line, column)] for the problems located in `path`."""
    found = []
    code = None
    for line in err.split("\n"):
        m = HEAD.match(line)
        if m:
            code = m.group(1)
            continue
        m = WHERE.search(line)
        if m and code is not None:
            if m.group(1) == path:
                found.append((code, int(m.group(2)), int(m.group(3))))
            else:
                found.append((code, None, None))
            code = None
    return found


def lines_of(text):
    return re.split(r"\r\n|\n|\r", text)


def main():
    binary = os.path.join(sys.argv[1], "target", "debug", "ironplcc")
    ok = True
    work = tempfile.mkdtemp(prefix="c14-demo-a-")
    try:
        for pname, plines in PROGRAMS:
            for lname, le in LINE_ENDS:
                text = le.join(plines)
                results = []
                for ename, enc in ENCODINGS:
                    path = os.path.join(work, "%s_%s_%s.st" % (pname, lname, ename))
                    with open(path, "wb") as f:
                        f.write(enc(text))
                    path = os.path.realpath(path)
                    status, out, err = run(binary, "check", path)
                    diags = diagnostics(err, path)
                    if status not in (0, 1) or "panicked" in err:
                        print("CRASH", pname, lname, ename, status, err)
                        ok = False
                    if (status == 0) != (len(diags) == 0):
                        print("VERDICT WITHOUT DIAGNOSTIC", pname, lname, ename, status, err)
                        ok = False
                    lines = lines_of(text)
                    for code, line, col in diags:
                        if line is None:
                            continue
                        inside = 1 <= line <= len(lines) and 1 <= col <= len(lines[line - 1]) + 1
                        if not inside:
                            print("POSITION OUTSIDE TEXT", pname, lname, ename, code, line, col)
                            ok = False
                    tstatus, tout, terr = run(binary, "tokenize", path)
                    newline = [l for l in tout.split("\n") if l.startswith("Type: Newline")][:1]
                    results.append((status, diags, tstatus, newline))
                same = all(r == results[0] for r in results)
                if not same:
                    ok = False
                status, diags, tstatus, newline = results[0]
                print(
                    "%-8s %-4s check exit=%d %s | tokenize exit=%d first line end token: %s | five encodings %s"
                    % (
                        pname,
                        lname,
                        status,
                        ["%s@%s:%s" % d for d in diags],
                        tstatus,
                        newline[0] if newline else "(none)",
                        "agree" if same else "DIFFER: %r" % (results,),
                    )
                )
    finally:
        shutil.rmtree(work, ignore_errors=True)
    print("property C14 holds on what was tried" if ok else "PROPERTY C14 VIOLATED")
    return 0 if ok else 1


if __name__ == "__main__":
    sys.exit(main())
