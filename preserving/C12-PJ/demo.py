#!/usr/bin/env python3
"""Demo / independent check for change C (C12).

usage: demo.py <path of the compiler workspace>   (binary: $1/target/debug/ironplcc)

Session 1: ordinary initialize; the trace level is changed with $/setTrace
           (verbose, garbage, messages, off) in the middle of edits, requests,
           unimplemented methods and client responses.
Session 2: initialize asks for trace "messages" and names a workspace folder.
Session 3: (information only) initialize with params {} - not what the protocol
           defines; the unchanged tree gives up after the handshake.

After every client message a marker request ("demo/sync") is sent; everything the
server says up to the marker's answer is printed next to that client message.

Checks the property C12 literally in sessions 1 and 2:
  - every request (incl. the markers) is answered exactly once with its id,
    implemented ones with a result, the others with an error,
  - there is no response that does not belong to a request,
  - shutdown + exit => exit status 0.
Exits 0 when that holds (with and without the change).
"""
import json, os, shutil, subprocess, sys, tempfile, threading, queue


class Server:
    def __init__(self, binary, cwd):
        self.p = subprocess.Popen([binary, "lsp", "--stdio"], cwd=cwd, stdin=subprocess.PIPE,
                                  stdout=subprocess.PIPE, stderr=subprocess.DEVNULL)
        self.q = queue.Queue()
        self.t = threading.Thread(target=self._reader, daemon=True)
        self.t.start()

    def _reader(self):
        out = self.p.stdout
        while True:
            length = None
            while True:
                line = out.readline()
                if not line:
                    self.q.put(None)
                    return
                line = line.strip()
                if not line:
                    break
                if line.lower().startswith(b"content-length:"):
                    length = int(line.split(b":")[1])
            body = out.read(length)
            self.q.put(json.loads(body))

    def send(self, msg):
        msg = dict(msg, jsonrpc="2.0")
        body = json.dumps(msg).encode()
        self.p.stdin.write(b"Content-Length: %d\r\n\r\n" % len(body) + body)
        self.p.stdin.flush()

    def recv(self, timeout=60):
        return self.q.get(timeout=timeout)



OK = True


def fail(msg):
    global OK
    OK = False
    print("FAIL: " + msg)


def show(m):
    if "method" in m:
        p = m.get("params") or {}
        if m["method"] == "textDocument/publishDiagnostics":
            return "publishDiagnostics v%s [%d]" % (p.get("version"), len(p["diagnostics"]))
        if m["method"] == "$/logTrace":
            return "logTrace{%s%s}" % (p.get("message"), " +verbose(%d chars)" % len(p["verbose"]) if "verbose" in p else "")
        return ("REQUEST " if "id" in m else "") + m["method"]
    if "error" in m:
        return "response id=%s error %d" % (json.dumps(m["id"]), m["error"]["code"])
    r = m.get("result")
    return "response id=%s result %s" % (json.dumps(m["id"]), "null" if r is None else "tokens(%d)" % len(r.get("data", [])))


class Session:
    def __init__(self, binary, cwd, init_params):
        self.s = Server(binary, cwd)
        self.requests = {}
        self.answers = {}
        self.n = 0
        self.s.send({"id": "init", "method": "initialize", "params": init_params})
        self.init = self.s.recv()
        if self.init is None or self.init.get("id") != "init" or "result" not in self.init:
            fail("initialize not answered: %r" % (self.init,))
        else:
            r = self.init["result"]
            print("initialize result: keys %s, serverInfo %s" % (sorted(r.keys()), json.dumps(r.get("serverInfo"))))
        self.s.send({"method": "initialized", "params": {}})

    def step(self, label, msg):
        s = self.s
        if "id" in msg and "method" in msg:
            self.requests[json.dumps(msg["id"])] = msg["method"]
        s.send(msg)
        self.n += 1
        sync = "sync-%d" % self.n
        self.requests[json.dumps(sync)] = "demo/sync"
        s.send({"id": sync, "method": "demo/sync"})
        got = []
        while True:
            m = s.recv()
            if m is None:
                fail("server closed its output after " + label)
                return got
            if "id" in m and "method" not in m:
                self.answers.setdefault(json.dumps(m["id"]), []).append(m)
                if m["id"] == sync:
                    break
            elif "id" in m:
                print("note: server-to-client request " + m["method"])
            got.append(m)
        print("  %-40s => %s" % (label, "\n" .join(" " * 47 * (i > 0) + show(m) for i, m in enumerate(got)) or "(nothing)"))
        return got

    def finish(self):
        s = self.s
        self.requests[json.dumps("bye")] = "shutdown"
        s.send({"id": "bye", "method": "shutdown"})
        tail = []
        while True:
            m = s.recv()
            if m is None:
                fail("server closed its output before answering shutdown")
                break
            if "id" in m and "method" not in m:
                self.answers.setdefault(json.dumps(m["id"]), []).append(m)
                if m["id"] == "bye":
                    tail.append(m)
                    break
            tail.append(m)
        s.send({"method": "exit"})
        status = s.p.wait(timeout=60)
        while True:
            m = s.recv()
            if m is None:
                break
            tail.append(m)
            if "id" in m and "method" not in m:
                self.answers.setdefault(json.dumps(m["id"]), []).append(m)
        print("  %-40s => %s" % ("request shutdown, notification exit", "; ".join(show(m) for m in tail)))
        implemented = {"textDocument/semanticTokens/full", "shutdown"}
        for id_, method in self.requests.items():
            got = self.answers.get(id_, [])
            if len(got) != 1:
                fail("request id %s (%s) answered %d times" % (id_, method, len(got)))
                continue
            m = got[0]
            if ("result" in m) == ("error" in m):
                fail("answer for %s has not exactly one of result / error" % id_)
            if method in implemented and "result" not in m:
                fail("implemented request %s (%s) got an error" % (id_, method))
            if method not in implemented and "error" not in m:
                fail("unimplemented request %s (%s) got a result" % (id_, method))
        for id_ in self.answers:
            if id_ not in self.requests:
                fail("a response with id %s that no request had" % id_)
        print("  requests sent: %d, responses received: %d, exit status after shutdown + exit: %d"
              % (len(self.requests), sum(len(v) for v in self.answers.values()), status))
        if status != 0:
            fail("exit status %d" % status)


def main():
    ws = os.path.abspath(sys.argv[1])
    binary = os.path.join(ws, "target", "debug", "ironplcc")
    tmp = tempfile.mkdtemp(prefix="c12C-")
    try:
        a = "file://" + os.path.join(tmp, "a.st")
        good = "FUNCTION_BLOCK fb\nVAR\n  x : INT;\nEND_VAR\n  x := 1;\nEND_FUNCTION_BLOCK\n"
        bad = "FUNCTION_BLOCK fb\nVAR\n  x : ;\n"

        def did_open(uri, version, text):
            return {"method": "textDocument/didOpen", "params": {"textDocument": {"uri": uri, "languageId": "st", "version": version, "text": text}}}

        def did_change(uri, version, *texts):
            return {"method": "textDocument/didChange", "params": {"textDocument": {"uri": uri, "version": version}, "contentChanges": [{"text": t} for t in texts]}}

        def tokens(id_, uri):
            return {"id": id_, "method": "textDocument/semanticTokens/full", "params": {"textDocument": {"uri": uri}}}

        def set_trace(value):
            return {"method": "$/setTrace", "params": {"value": value}}

        hover = {"textDocument": {"uri": a}, "position": {"line": 0, "character": 0}}

        print("== session 1: trace changed with $/setTrace")
        t = Session(binary, tmp, {"processId": None, "rootUri": None, "capabilities": {}, "clientInfo": {"name": "demo"}})
        t.step("didOpen a.st v1", did_open(a, 1, good))
        t.step("request 1 semanticTokens a.st", tokens(1, a))
        t.step("notification $/setTrace verbose", set_trace("verbose"))
        t.step("didChange a.st v2 (syntax error)", did_change(a, 2, bad))
        t.step("request 2 semanticTokens a.st", tokens(2, a))
        t.step("request 3 textDocument/hover", {"id": 3, "method": "textDocument/hover", "params": hover})
        t.step("notification textDocument/hover (no id)", {"method": "textDocument/hover", "params": hover})
        t.step("client response id 1", {"id": 1, "result": None})
        t.step("notification $/setTrace without value", {"method": "$/setTrace", "params": {}})
        t.step("notification $/setTrace messages", set_trace("messages"))
        t.step("didChange a.st v3 (0 changes)", did_change(a, 3))
        t.step("request 4 $/setTrace WITH an id", dict(set_trace("off"), id=4))
        t.step("request \"5\" workspace/symbol", {"id": "5", "method": "workspace/symbol", "params": {"query": ""}})
        t.step("notification $/setTrace off", set_trace("off"))
        t.step("request 6 semanticTokens a.st", tokens(6, a))
        t.step("notification $/setTrace messages", set_trace("messages"))
        t.finish()

        print("== session 2: initialize with trace \"messages\" and a workspace folder")
        folder = os.path.join(tmp, "project")
        os.mkdir(folder)
        with open(os.path.join(folder, "lib.st"), "w") as f:
            f.write("TYPE level : (low, high); END_TYPE\n")
        m = "file://" + os.path.join(folder, "main.st")
        t = Session(binary, tmp, {"processId": 1, "rootUri": "file://" + folder, "capabilities": {}, "trace": "messages",
                                  "workspaceFolders": [{"uri": "file://" + folder, "name": "project"}]})
        t.step("didOpen main.st v1 (uses lib.st)", did_open(m, 1, "FUNCTION_BLOCK user\nVAR\n  x : level;\nEND_VAR\nEND_FUNCTION_BLOCK\n"))
        t.step("request 1 semanticTokens main.st", tokens(1, m))
        t.step("request 2 textDocument/definition", {"id": 2, "method": "textDocument/definition", "params": hover})
        t.finish()

        print("== session 3 (information only): initialize with params {}")
        s = Server(binary, tmp)

        def quiet_send(msg):
            try:
                s.send(msg)
            except OSError:
                pass
        quiet_send({"id": 0, "method": "initialize", "params": {}})
        first = s.recv()
        quiet_send({"method": "initialized", "params": {}})
        quiet_send({"id": 1, "method": "textDocument/hover", "params": hover})
        quiet_send({"id": 2, "method": "shutdown"})
        got = []
        while True:
            x = s.recv()
            if x is None:
                break
            got.append(x)
            if x.get("id") == 2:
                break
        quiet_send({"method": "exit"})
        try:
            s.p.stdin.close()
        except OSError:
            pass
        status = s.p.wait(timeout=60)
        print("  initialize answered: %s; afterwards: %s; exit status %d"
              % ("yes" if first and "result" in first else "no", "; ".join(show(x) for x in got) or "(server ended without answering)", status))
    finally:
        shutil.rmtree(tmp, ignore_errors=True)
    print("PROPERTY C12 %s on this run" % ("HOLDS" if OK else "VIOLATED"))
    sys.exit(0 if OK else 1)


if __name__ == "__main__":
    main()
