#!/usr/bin/env python3
"""Demonstration for change B (property C12).

Sends a history that lies inside the quantifier of C12: didOpen of three
documents, each followed by a semanticTokens request (plain ASCII text; text
with characters of several bytes; text with a string literal that spans two
lines), a request for a method that the server does not implement, then
shutdown and exit.

Exit status 0 iff the property holds on this history: the server stays alive,
every request is answered exactly once with its id (result or error), nothing
else is answered, and the process ends with status 0.
"""
import json
import os
import subprocess
import sys
import shutil
import tempfile
import threading

WORKSPACE = sys.argv[1] if len(sys.argv) > 1 else "/tmp/mut8/C12/compiler"
BINARY = os.path.join(WORKSPACE, "target", "debug", "ironplcc")


def build():
    if os.path.exists(BINARY):
        # rebuild anyway when sources are newer; cargo decides
        pass
    env = dict(os.environ, CARGO_NET_OFFLINE="true")
    subprocess.run(
        ["cargo", "build", "-p", "ironplcc", "--offline"],
        cwd=WORKSPACE, env=env, check=True,
        stdout=subprocess.DEVNULL, stderr=subprocess.DEVNULL,
    )


def frame(msg):
    body = json.dumps(msg).encode("utf-8")
    return b"Content-Length: %d\r\n\r\n" % len(body) + body


def read_messages(stream, out):
    while True:
        length = None
        while True:
            line = stream.readline()
            if not line:
                return
            line = line.strip()
            if not line:
                break
            if line.lower().startswith(b"content-length:"):
                length = int(line.split(b":")[1])
        if length is None:
            return
        body = stream.read(length)
        if len(body) < length:
            return
        out.append(json.loads(body))


def main():
    build()
    tmp = tempfile.mkdtemp(prefix="c12-demo-b-")
    env = dict(os.environ, TMPDIR=tmp)
    proc = subprocess.Popen(
        [BINARY, "lsp", "--stdio"], env=env,
        stdin=subprocess.PIPE, stdout=subprocess.PIPE, stderr=subprocess.PIPE,
    )
    received = []
    reader = threading.Thread(target=read_messages, args=(proc.stdout, received))
    reader.start()
    errs = []
    err_reader = threading.Thread(target=lambda: errs.append(proc.stderr.read()))
    err_reader.start()

    def open_doc(uri, text):
        return {"jsonrpc": "2.0", "method": "textDocument/didOpen",
                "params": {"textDocument": {"uri": uri, "languageId": "61131-3-st",
                                            "version": 1, "text": text}}}

    def tokens(rid, uri):
        return {"jsonrpc": "2.0", "id": rid, "method": "textDocument/semanticTokens/full",
                "params": {"textDocument": {"uri": uri}}}

    ascii_uri = "file:///c12/demo_b_ascii.st"
    ascii_text = "PROGRAM main\nVAR\n  x : INT;\nEND_VAR\n  x := 1;\nEND_PROGRAM\n"
    wide_uri = "file:///c12/demo_b_wide.st"
    wide_text = "PROGRAM main\nVAR\n  (* \u00e9\u20ac\U0001F600 *) x : INT;\nEND_VAR\nEND_PROGRAM\n"
    # The literal starts on one line and ends on the next one, a declaration follows.
    split_uri = "file:///c12/demo_b_split.st"
    split_text = "PROGRAM main\nVAR\n  s : STRING := 'ab\ncd'; x : INT;\nEND_VAR\nEND_PROGRAM\n"

    history = [
        {"jsonrpc": "2.0", "id": 0, "method": "initialize",
         "params": {"processId": None, "rootUri": None, "capabilities": {}}},
        {"jsonrpc": "2.0", "method": "initialized", "params": {}},
        open_doc(ascii_uri, ascii_text),
        tokens(1, ascii_uri),
        open_doc(wide_uri, wide_text),
        tokens(2, wide_uri),
        open_doc(split_uri, split_text),
        tokens(3, split_uri),
        {"jsonrpc": "2.0", "id": 4, "method": "textDocument/hover",
         "params": {"textDocument": {"uri": ascii_uri},
                    "position": {"line": 0, "character": 0}}},
        tokens(5, ascii_uri),
        {"jsonrpc": "2.0", "id": 6, "method": "shutdown", "params": None},
        {"jsonrpc": "2.0", "method": "exit", "params": None},
    ]
    request_ids = [m["id"] for m in history if "id" in m and "method" in m]

    try:
        for msg in history:
            proc.stdin.write(frame(msg))
            proc.stdin.flush()
        proc.stdin.close()
    except (BrokenPipeError, OSError) as e:
        print("server closed its input early: %s" % e)

    try:
        status = proc.wait(timeout=60)
    except subprocess.TimeoutExpired:
        proc.kill()
        status = "timeout"
    reader.join()
    err_reader.join()
    shutil.rmtree(tmp, ignore_errors=True)

    failures = []
    if status != 0:
        failures.append("exit status is %r, expected 0" % (status,))
    responses = [m for m in received if "method" not in m]
    for rid in request_ids:
        answers = [m for m in responses if m.get("id") == rid]
        if len(answers) != 1:
            failures.append("request id %r got %d answers" % (rid, len(answers)))
        for a in answers:
            if ("result" in a) == ("error" in a):
                failures.append("answer to id %r has neither/both result and error: %r" % (rid, a))
    for m in responses:
        if m.get("id") not in request_ids:
            failures.append("answer to something that is not a request: %r" % (m,))
    for a in [m for m in responses if m.get("id") == 4]:
        if "error" not in a:
            failures.append("unimplemented method (id 4) not answered with an error")

    if failures:
        print("C12 VIOLATED:")
        for f in failures:
            print("  - " + f)
        if errs and errs[0]:
            print("stderr: " + errs[0].decode("utf-8", "replace")[-500:])
        return 1
    print("C12 holds on this history (%d requests, all answered once, exit 0)" % len(request_ids))
    return 0


if __name__ == "__main__":
    sys.exit(main())
