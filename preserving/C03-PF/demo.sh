#!/usr/bin/env bash
# Demo for change C: when the types of a set cannot be resolved (duplicated
# name, unknown type, recursion), the rules that look at a single declaration
# (P0003 structure element names, P0004 subrange limits, P0005 enumeration
# values) still run and their problems are reported in addition.
#
# usage: demo.sh [compiler-workspace]      (default /tmp/mut6/C03/compiler)
#
# Exit 0 when the observables stated by property C03 hold on the examples:
#   * a set containing a declaration that violates a declaration-local rule
#     fails (exit code != 0, no "OK" on stdout, at least one diagnostic),
#     whatever accompanies it and in every file order, including a declaration
#     that reuses the faulty declaration's name;
#   * two declarations of the same name are diagnosed (a diagnostic points at
#     the duplicated name);
#   * the accompanying valid files alone still pass.
set -eu
WS="${1:-/tmp/mut6/C03/compiler}"
T="$(mktemp -d)"
: "${T:?}"
trap 'rm -rf "${T:?}"' EXIT
export TMPDIR="$T"

(cd "$WS" && CARGO_NET_OFFLINE=true cargo build -q -p ironplcc --offline)
BIN="$WS/target/debug/ironplcc"

cat > "$T/types.st" <<'EOF'
TYPE
  LEVEL : (LOW, HIGH) := LOW;
END_TYPE
EOF
cat > "$T/fb_a.st" <<'EOF'
FUNCTION_BLOCK FB1
VAR
  x : LEVEL;
END_VAR
END_FUNCTION_BLOCK
EOF
# the faulty declaration: subrange minimum is not less than the maximum
cat > "$T/faulty.st" <<'EOF'
TYPE
  RANGE1 : INT(10..-10);
END_TYPE
EOF
# valid on its own, reuses the name of the faulty declaration
cat > "$T/reuse.st" <<'EOF'
TYPE
  RANGE1 : (P, Q) := P;
END_TYPE
EOF
# uses a type that no file declares
cat > "$T/undeclared.st" <<'EOF'
FUNCTION_BLOCK FBU
VAR
  v : NOSUCH;
END_VAR
END_FUNCTION_BLOCK
EOF
# cures the undeclared type
cat > "$T/cure.st" <<'EOF'
TYPE
  NOSUCH : (N1, N2) := N1;
END_TYPE
EOF

fail=0
strip() { sed 's/\x1b\[[0-9;]*m//g'; }

run() {
  local name="$1" expect="$2"; shift 2
  local rc=0
  (cd "$T" && "$BIN" check "$@" >"$T/out" 2>"$T/err.raw") || rc=$?
  strip <"$T/err.raw" >"$T/err"
  local codes
  codes="$(grep -o 'error\[P[0-9]*\]' "$T/err" | sed 's/error\[\(.*\)\]/\1/' | tr '\n' ' ' || true)"
  echo "[$name] files: $*  -> exit=$rc stdout='$(tr '\n' ' ' <"$T/out")' codes: $codes"
  if grep -q panicked "$T/err"; then echo "  VIOLATION: panic"; fail=1; fi
  if [ "$expect" = ok ]; then
    if [ "$rc" -ne 0 ] || ! grep -qx OK "$T/out"; then echo "  VIOLATION: valid set does not pass"; fail=1; fi
  else
    if [ "$rc" -eq 0 ]; then echo "  VIOLATION: exit code 0"; fail=1; fi
    if grep -q OK "$T/out"; then echo "  VIOLATION: OK printed"; fail=1; fi
    if ! grep -q 'error\[P[0-9]*\]' "$T/err"; then echo "  VIOLATION: no diagnostic"; fail=1; fi
  fi
}
need() { grep -q "$1" "$T/err" || { echo "  VIOLATION: expected in diagnostics: $1"; fail=1; }; }

echo "--- valid sets"
run valid-1 ok types.st fb_a.st
run valid-2 ok types.st fb_a.st reuse.st
run valid-3 ok undeclared.st cure.st types.st

echo "--- the faulty declaration alone and among valid files (same before and after)"
run faulty-1 fail faulty.st
need 'error\[P0004\]'
run faulty-2 fail types.st faulty.st fb_a.st
need 'error\[P0004\]'

echo "--- plus a declaration reusing its name: fails, duplicate is diagnosed"
run reuse-1 fail faulty.st reuse.st
need 'error\[P0019\]'; need 'RANGE1'
run reuse-2 fail reuse.st types.st fb_a.st faulty.st
need 'error\[P0019\]'; need 'RANGE1'
if grep -q 'error\[P0004\]' "$T/err"; then
  echo "  (behaviour AFTER change C: P0004 of the faulty declaration is reported next to P0019)"
else
  echo "  (behaviour BEFORE change C: only P0019; P0004 shows up once the name clash is fixed)"
fi

echo "--- plus a file with an undeclared type; adding cure.st cures only that"
run undecl-1 fail undeclared.st faulty.st types.st
need 'error\[P0022\]'
run undecl-2 fail undeclared.st faulty.st types.st cure.st
need 'error\[P0004\]'
if grep -q 'error\[P0022\]' "$T/err"; then echo "  VIOLATION?: undeclared not cured (allowed by the property, but unexpected)"; fi

if [ "$fail" -eq 0 ]; then echo "RESULT: property observables hold"; else echo "RESULT: property observables VIOLATED"; fi
exit "$fail"
