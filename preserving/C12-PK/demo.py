#!/usr/bin/env python3
"""Change A: incremental document synchronisation.

usage: demo.py <compiler workspace directory>   (binary: $1/target/debug/ironplcc)

Talks to `ironplcc lsp --stdio` over pipes.  Reads the synchronisation kind
the server advertises and sends edits in that kind (ranged edits when the
server says it is incremental, otherwise the complete text), then checks
property C12 on the conversation: every request answered exactly once with
its id, no answer to anything else, status 0 after shutdown and exit.

Exits 0 when the property held (with or without the change).
"""
import json
import os
import queue
import re
import shutil
import subprocess
import sys
import tempfile
import threading


class Client:
    def __init__(self, binary, cwd, tmpdir):
        env = dict(os.environ)
        env["TMPDIR"] = tmpdir
        self.stderr_path = os.path.join(tmpdir, "stderr.txt")
        self.stderr_file = open(self.stderr_path, "wb")
        self.proc = subprocess.Popen(
            [binary, "lsp", "--stdio"],
            stdin=subprocess.PIPE,
            stdout=subprocess.PIPE,
            stderr=self.stderr_file,
            cwd=cwd,
            env=env,
        )
        self.inbox = queue.Queue()
        self.reader = threading.Thread(target=self._read, daemon=True)
        self.reader.start()

    def _read(self):
        out = self.proc.stdout
        while True:
            length = None
            while True:
                line = out.readline()
                if not line:
                    self.inbox.put(None)
                    return
                line = line.strip()
                if not line:
                    break
                name, _, value = line.partition(b":")
                if name.lower() == b"content-length":
                    length = int(value)
            body = out.read(length)
            self.inbox.put(json.loads(body.decode("utf-8")))

    def send(self, message):
        message = dict(message, jsonrpc="2.0")
        body = json.dumps(message, ensure_ascii=False).encode("utf-8")
        self.proc.stdin.write(b"Content-Length: %d\r\n\r\n" % len(body) + body)
        self.proc.stdin.flush()

    def receive(self, timeout=30):
        """Next message from the server, None at end of output."""
        return self.inbox.get(timeout=timeout)

    def finish(self, timeout=60):
        """Closes the input, returns (remaining messages, exit status)."""
        self.proc.stdin.close()
        rest = []
        while True:
            message = self.inbox.get(timeout=timeout)
            if message is None:
                break
            rest.append(message)
        status = self.proc.wait(timeout=timeout)
        self.stderr_file.close()
        return rest, status


# --- the protocol's definition of a ranged edit, written down independently ---

def split_lines(text):
    """[(start offset, text without ending)], lines end with \\r\\n, \\n or \\r."""
    lines = []
    start = 0
    for match in re.finditer(r"\r\n|\n|\r", text):
        lines.append((start, text[start:match.start()]))
        start = match.end()
    lines.append((start, text[start:]))
    return lines


def offset_of(text, line, character):
    lines = split_lines(text)
    if line >= len(lines):
        return len(text)
    start, content = lines[line]
    units = 0
    for index, ch in enumerate(content):
        width = 2 if ord(ch) > 0xFFFF else 1
        if units + width > character:
            return start + index
        units += width
    return start + len(content)


def apply_edit(text, edit):
    if "range" not in edit:
        return edit["text"]
    r = edit["range"]
    a = offset_of(text, r["start"]["line"], r["start"]["character"])
    b = offset_of(text, r["end"]["line"], r["end"]["character"])
    a, b = min(a, b), max(a, b)
    return text[:a] + edit["text"] + text[b:]


def rng(sl, sc, el, ec, text):
    return {"range": {"start": {"line": sl, "character": sc},
                      "end": {"line": el, "character": ec}}, "text": text}


def main():
    workspace = os.path.abspath(sys.argv[1])
    binary = os.path.join(workspace, "target", "debug", "ironplcc")
    work = tempfile.mkdtemp(prefix="c12a-work-")
    tmp = tempfile.mkdtemp(prefix="c12a-tmp-")
    failures = []
    try:
        client = Client(binary, work, tmp)
        sent_requests = {}      # id (as JSON text) -> method
        responses = []          # every response of the server
        notifications = []      # every notification of the server
        server_requests = []

        def request(id_, method, params=None):
            sent_requests[json.dumps(id_)] = method
            message = {"id": id_, "method": method}
            if params is not None:
                message["params"] = params
            client.send(message)

        def notify(method, params=None):
            message = {"method": method}
            if params is not None:
                message["params"] = params
            client.send(message)

        def sort(message):
            if "method" in message and "id" in message:
                server_requests.append(message)
            elif "method" in message:
                notifications.append(message)
            else:
                responses.append(message)

        def wait_response(id_):
            while True:
                message = client.receive()
                if message is None:
                    raise RuntimeError("server closed its output")
                sort(message)
                if "method" not in message and message.get("id") == id_:
                    return message

        request(1, "initialize", {"processId": None, "rootUri": None, "capabilities": {}})
        init = wait_response(1)
        sync = init["result"]["capabilities"].get("textDocumentSync")
        kind = sync.get("change") if isinstance(sync, dict) else sync
        print("advertised textDocumentSync:", json.dumps(sync),
              "(2 = incremental, 1 = full)")
        notify("initialized", {})

        uri_a = "file://" + work + "/a%C3%A4.st"
        uri_b = "file://" + work + "/b.st"
        text0 = ("(* Größe \U0001F600 *)\r\nPROGRAM main\nVAR\n  a : INT;\nEND_VAR\n"
                 "  a := 1;\nEND_PROGRAM\n")
        notify("textDocument/didOpen", {"textDocument": {
            "uri": uri_a, "languageId": "61131-3-st", "version": 1, "text": text0}})

        batches = [
            # two edits in one notification, the second in terms of the first's result
            [rng(0, 3, 0, 8, "Maß \U0001F600\U0001F600"), rng(0, 11, 0, 11, " ü")],
            # nothing
            [],
            # inside a surrogate pair .. beyond the end of the line
            [rng(0, 8, 0, 400, "*)")],
            # backwards and beyond the end of the text
            [rng(99, 0, 5, 9, "\nEND_PROGRAM\n")],
            # a complete text followed by a ranged edit of it
            [{"text": "PROGRAM main\nVAR\n  b : INT;\nEND_VAR\nEND_PROGRAM\n"},
             rng(3, 7, 3, 7, "\n  b := 2;")],
        ]
        text = text0
        version = 1
        next_id = 100
        compared = 0
        for batch in batches:
            version += 1
            for edit in batch:
                text = apply_edit(text, edit)
            if kind == 2:
                changes = batch
            else:
                changes = [{"text": text}] if batch else []
            notify("textDocument/didChange", {
                "textDocument": {"uri": uri_a, "version": version},
                "contentChanges": changes})
            # A second document always receives the complete text that the first
            # one should have by now; both must tokenize the same.
            if version == 2:
                notify("textDocument/didOpen", {"textDocument": {
                    "uri": uri_b, "languageId": "61131-3-st", "version": version, "text": text}})
            else:
                notify("textDocument/didChange", {
                    "textDocument": {"uri": uri_b, "version": version},
                    "contentChanges": [{"text": text}]})
            request(next_id, "textDocument/semanticTokens/full", {"textDocument": {"uri": uri_a}})
            tokens_a = wait_response(next_id)
            request(next_id + 1, "textDocument/semanticTokens/full",
                    {"textDocument": {"uri": uri_b}})
            tokens_b = wait_response(next_id + 1)
            next_id += 2
            compared += 1
            print("version %d: tokens of the edited document: %s ..." %
                  (version, json.dumps(tokens_a.get("result"))[:60]))
            if tokens_a.get("result") != tokens_b.get("result"):
                failures.append("version %d: edited and reference document tokenize differently"
                                % version)
            if tokens_a.get("result") is None:
                failures.append("version %d: no tokens for a text without lexical errors" % version)
        print("edits sent as:", "ranges" if kind == 2 else "complete texts",
              "| comparisons with a reference document:", compared)

        # The rest of the alphabet of the property
        request("x-4", "textDocument/hover", {"textDocument": {"uri": uri_a},
                                              "position": {"line": 0, "character": 0}})
        notify("workspace/didChangeConfiguration", {"settings": {}})
        client.send({"id": 99, "result": None})
        changes = [rng(0, 0, 0, 0, "PROGRAM p\nEND_PROGRAM\n")] if kind == 2 else \
            [{"text": "PROGRAM p\nEND_PROGRAM\n"}]
        notify("textDocument/didChange", {
            "textDocument": {"uri": "file://" + work + "/never-opened.st", "version": 7},
            "contentChanges": changes})
        notify("textDocument/didChange", {
            "textDocument": {"uri": "untitled:Untitled-1", "version": 1},
            "contentChanges": changes})
        request(5, "textDocument/semanticTokens/full",
                {"textDocument": {"uri": "file://" + work + "/not-there.st"}})
        wait_response(5)
        request(6, "shutdown")
        wait_response(6)
        notify("exit")
        rest, status = client.finish()
        for message in rest:
            sort(message)

        # --- the property ---
        answered = {}
        for response in responses:
            key = json.dumps(response.get("id"))
            answered[key] = answered.get(key, 0) + 1
            if key not in sent_requests:
                failures.append("response to something that is not a request: %s" % key)
        for key, method in sent_requests.items():
            if answered.get(key, 0) != 1:
                failures.append("%s (id %s) answered %d times" % (method, key, answered.get(key, 0)))
        hover = [r for r in responses if r.get("id") == "x-4"]
        if hover and "error" not in hover[0]:
            failures.append("unimplemented method answered without an error")
        if status != 0:
            failures.append("exit status %r" % status)

        published = [n for n in notifications if n["method"] == "textDocument/publishDiagnostics"]
        print("publishDiagnostics received:", len(published),
              "| versions for the edited document:",
              [n["params"].get("version") for n in published if n["params"]["uri"] == uri_a])
        print("other notifications:", sorted({n["method"] for n in notifications} -
                                             {"textDocument/publishDiagnostics"}))
        print("requests of the server:", [r["method"] for r in server_requests])
        print("requests sent: %d, responses received: %d, exit status: %s" %
              (len(sent_requests), len(responses), status))
        with open(client.stderr_path, "rb") as f:
            err = f.read().decode("utf-8", "replace").strip()
        print("stderr:", err if err else "(empty)")
    finally:
        try:
            client.proc.kill()
        except Exception:
            pass
        shutil.rmtree(work, ignore_errors=True)
        shutil.rmtree(tmp, ignore_errors=True)

    if failures:
        print("PROPERTY VIOLATED:")
        for failure in failures:
            print("  -", failure)
        return 1
    print("property C12 held")
    return 0


if __name__ == "__main__":
    sys.exit(main())
