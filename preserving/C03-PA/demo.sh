#!/bin/sh
# Usage: demo.sh [COMPILER_WORKSPACE]   (default /tmp/mut4/C03/compiler)
#
# Builds `ironplcc` twice from a private copy of the workspace (once without
# and once with patch.diff), runs the example with both binaries, prints the
# visible difference and verifies the observables that property C03 states.
# Works whether or not patch.diff is currently applied in the workspace.
# Writes only below a `mktemp -d` directory. No network access.
# Exit status: 0 = the observables of C03 hold on the example (before and
# after); 1 = they do not; 2 = the demo could not be set up.
set -eu

WS=${1:-/tmp/mut4/C03/compiler}
HERE=$(cd "$(dirname "$0")" && pwd)
PATCH="$HERE/patch.diff"
[ -f "$WS/Cargo.toml" ] || { echo "not a cargo workspace: $WS" >&2; exit 2; }
[ -f "$PATCH" ] || { echo "missing $PATCH" >&2; exit 2; }

T=$(mktemp -d)
: "${T:?}"
trap 'rm -rf "${T:?}"' EXIT INT TERM

# Private copy of the sources (the patch paths start with compiler/).
mkdir -p "$T/src/compiler"
tar -C "$WS" --exclude=./target -cf - . | tar -C "$T/src/compiler" -xf -
cd "$T/src"
if git apply --check "$PATCH" 2>/dev/null; then
    : # the copy is the unpatched state
elif git apply --check -R "$PATCH" 2>/dev/null; then
    git apply -R "$PATCH" # the workspace had the patch applied: undo it in the copy
else
    echo "patch.diff neither applies nor reverse-applies to $WS" >&2
    exit 2
fi

export CARGO_NET_OFFLINE=true
export CARGO_TARGET_DIR="$T/target"
# Warm start: reuse compiled third-party crates of the workspace when present.
if [ -d "$WS/target/debug" ] && [ -z "${DEMO_COLD:-}" ]; then
    cp -a "$WS/target" "$T/target" 2>/dev/null || rm -rf "${T:?}/target"
fi
build() {
    (cd "$T/src/compiler" && cargo build --offline -q -p ironplcc) || {
        echo "build failed ($1)" >&2
        exit 2
    }
    cp "$T/target/debug/ironplcc" "$T/ironplcc.$1"
}
echo "== building unpatched ironplcc"
build before
git apply "$PATCH"
echo "== building patched ironplcc"
build after

# run WHICH NAME FILES... : runs `check` in $T/ex, keeps stdout, stderr
# (colour codes removed) and the exit status in $T/out/NAME.WHICH.*
mkdir -p "$T/ex" "$T/out"
run() {
    which=$1
    name=$2
    shift 2
    set +e
    (cd "$T/ex" && "$T/ironplcc.$which" check "$@") \
        >"$T/out/$name.$which.stdout" 2>"$T/out/$name.$which.raw"
    echo $? >"$T/out/$name.$which.status"
    set -e
    sed 's/\x1b\[[0-9;]*m//g' "$T/out/$name.$which.raw" >"$T/out/$name.$which.stderr"
}
status() { cat "$T/out/$2.$1.status"; }
codes() { grep -o 'error\[P[0-9]*\]' "$T/out/$2.$1.stderr" | tr '\n' ' ' || true; }

VIOLATIONS=0
violation() {
    echo "PROPERTY VIOLATED: $*"
    VIOLATIONS=$((VIOLATIONS + 1))
}
# The observable that C03 states: check of the set reports failure
# (exit status not 0 and no "OK" on stdout).
must_fail() {
    s=$(status "$1" "$2")
    if [ "$s" = 0 ] || grep -q '^OK$' "$T/out/$2.$1.stdout"; then
        violation "$1 binary: set '$2' did not report failure (exit $s)"
    fi
}
must_pass() {
    s=$(status "$1" "$2")
    if [ "$s" != 0 ] || ! grep -q '^OK$' "$T/out/$2.$1.stdout"; then
        echo "SANITY: $1 binary: valid set '$2' unexpectedly failed (exit $s)"
        VIOLATIONS=$((VIOLATIONS + 1))
    fi
}
must_mention() {
    grep -q "$3" "$T/out/$2.$1.stderr" || violation "$1 binary: set '$2' is not diagnosed with $3"
}
finish() {
    echo
    if [ "$VIOLATIONS" = 0 ]; then
        echo "RESULT: observables of C03 hold on the example, before and after the change"
        exit 0
    fi
    echo "RESULT: $VIOLATIONS violation(s)"
    exit 1
}

# ---------------------------------------------------------------- example
cat >"$T/ex/first.st" <<'ST'
FUNCTION_BLOCK FB1
VAR
  a : BOOL;
END_VAR
END_FUNCTION_BLOCK
ST
cat >"$T/ex/second.st" <<'ST'
FUNCTION_BLOCK fb1
VAR
  b : INT;
END_VAR
END_FUNCTION_BLOCK
TYPE
  T1 : (X, Y) := X;
  T1 : (P, Q) := P;
END_TYPE
ST
cat >"$T/ex/valid.st" <<'ST'
FUNCTION_BLOCK Other
VAR
  c : BOOL;
END_VAR
END_FUNCTION_BLOCK
ST
cat >"$T/ex/third.st" <<'ST'
PROGRAM Fb1
VAR
  d : BOOL;
END_VAR
END_PROGRAM
ST

for w in before after; do
    run $w dup first.st second.st
    echo
    echo "== $w: check first.st second.st  -> exit $(status $w dup)"
    cat "$T/out/dup.$w.stderr"
done

echo "== visible difference"
nb=$(grep -c 'error\[P0019\]' "$T/out/dup.before.stderr" || true)
na=$(grep -c 'error\[P0019\]' "$T/out/dup.after.stderr" || true)
echo "P0019 diagnostics: before=$nb after=$na"
echo "primary label before: $(grep -m1 -A3 'error\[P0019\]' "$T/out/dup.before.stderr" | grep -o '[a-z0-9]*\.st:[0-9]*:[0-9]*' | head -1)"
echo "primary label after:  $(grep -m1 -A3 'error\[P0019\]' "$T/out/dup.after.stderr" | grep -o '[a-z0-9]*\.st:[0-9]*:[0-9]*' | head -1)"
if cmp -s "$T/out/dup.before.stderr" "$T/out/dup.after.stderr"; then
    echo "NOTE: no visible difference (unexpected)"
fi

echo "== observables of C03: every order and several accompaniments"
n=0
for w in before after; do
    for files in \
        "first.st second.st" "second.st first.st" \
        "first.st second.st valid.st" "valid.st second.st first.st" \
        "second.st valid.st first.st" \
        "first.st third.st" "third.st first.st valid.st" \
        "first.st second.st third.st valid.st" "valid.st third.st second.st first.st"; do
        n=$((n + 1))
        # shellcheck disable=SC2086
        run $w "p$n" $files
        must_fail $w "p$n"
        must_mention $w "p$n" 'error\[P0019\]'
        echo "$w: check $files -> exit $(status $w "p$n"), $(codes $w "p$n")"
    done
    n=$((n + 1))
    run $w "p$n" first.st valid.st
    must_pass $w "p$n"
    echo "$w: check first.st valid.st (valid set) -> exit $(status $w "p$n")"
done
finish
