#!/usr/bin/env python3
"""Demonstration for change C (the token response carries a resultId that counts the edits).

Usage: demo.py [COMPILER_WORKSPACE]      (default /tmp/mut4/C15/compiler)

Builds `ironplcc` in the given workspace, talks to `ironplcc lsp --stdio`,
prints the observable that change C alters (the member `resultId` of the
semantic tokens result, which depends on the edit history) and checks the observables of property C15 on a concrete
document and a small edit history. Exit status 0 <=> the C15 observables hold.
"""
import json
import os
import queue
import shutil
import subprocess
import sys
import tempfile
import threading

# --------------------------------------------------------------------------
# Common part (identical in the demos of A, B and C)
# --------------------------------------------------------------------------

KW, ID, CM, OP, AD, RG = "keyword", "identifier", "comment", "operator", "address", "range"

# Which legend entries "match the class" of a lexeme. MODIFIER is what the
# server uses for the keywords RETAIN/CONSTANT; '..' is a keyword-like
# punctuation that the server highlights, accepted here as keyword or operator.
ALLOWED = {
    KW: {"keyword", "modifier"},
    ID: {"variable"},
    CM: {"comment"},
    OP: {"operator"},
    AD: {"operator"},
    RG: {"keyword", "operator"},
}

NL = "\r\n"

# The document as a list of (text, class); class None = trivia, punctuation,
# literal (never highlighted). Contains CRLF, a multi-line comment and
# comments before tokens on the same line.
PIECES = [
    ("(* header" + NL + "   spans two lines *)", CM), (NL, None),
    ("TYPE", KW), (NL + "  ", None),
    ("Grid", ID), (" : ", None), ("ARRAY", KW), (" [1", None), ("..", RG), ("4] ", None),
    ("OF", KW), (" ", None), ("INT", KW), ("; ", None), ("(* dims *)", CM), (NL, None),
    ("END_TYPE", KW), (NL, None),
    ("PROGRAM", KW), (" ", None), ("main", ID), (NL, None),
    ("VAR", KW), (NL + "  ", None),
    ("(* c1 *)", CM), (" ", None), ("x", ID), (" ", None), ("AT", KW), (" ", None),
    ("%IX1.0", AD), (" : ", None), ("BOOL", KW), (";" + NL + "  ", None),
    ("n", ID), (" : ", None), ("INT", KW), (" ", None), (":=", OP), (" 3;" + NL, None),
    ("END_VAR", KW), (NL + "  ", None),
    ("(* lead *)", CM), (" ", None), ("n", ID), (" ", None), (":=", OP), (" ", None),
    ("n", ID), (" ", None), ("+", OP), (" 1 ", None), ("MOD", OP), (" 2;" + NL + "  ", None),
    ("IF", KW), (" ", None), ("NOT", OP), (" ", None), ("x", ID), (" ", None), ("AND", OP),
    (" (", None), ("n", ID), (" ", None), (">=", OP), (" 2) ", None), ("THEN", KW), (" ", None),
    ("n", ID), (" ", None), (":=", OP), (" 0; ", None), ("END_IF", KW), (";" + NL, None),
    ("END_PROGRAM", KW), (NL, None),
]


def build(pieces):
    """Returns (text, [(start, end, lexeme, class)]) for the classed pieces."""
    text, lexemes = "", []
    for piece, cls in pieces:
        if cls is not None:
            lexemes.append((len(text), len(text) + len(piece), piece, cls))
        text += piece
    return text, lexemes


class Client:
    """A minimal LSP client on the standard streams of `ironplcc lsp --stdio`."""

    def __init__(self, binary, scratch):
        env = dict(os.environ, TMPDIR=scratch)  # the server log goes to $TMPDIR/ironplcc
        self.proc = subprocess.Popen([binary, "lsp", "--stdio"], stdin=subprocess.PIPE,
                                     stdout=subprocess.PIPE, stderr=subprocess.DEVNULL, env=env)
        self.inbox = queue.Queue()
        self.notifications = []
        self.next_id = 0
        threading.Thread(target=self._reader, daemon=True).start()

    def _reader(self):
        out = self.proc.stdout
        while True:
            length = None
            while True:
                line = out.readline()
                if not line:
                    self.inbox.put(None)
                    return
                line = line.strip()
                if not line:
                    break
                if line.lower().startswith(b"content-length:"):
                    length = int(line.split(b":")[1])
            self.inbox.put(json.loads(out.read(length)))

    def _send(self, msg):
        body = json.dumps(msg).encode()
        self.proc.stdin.write(b"Content-Length: %d\r\n\r\n" % len(body) + body)
        self.proc.stdin.flush()

    def notify(self, method, params):
        self._send({"jsonrpc": "2.0", "method": method, "params": params})

    def request(self, method, params):
        """Sends a request and returns the raw response; notifications that
        arrive in between are collected in self.notifications."""
        self.next_id += 1
        self._send({"jsonrpc": "2.0", "id": self.next_id, "method": method, "params": params})
        while True:
            msg = self.inbox.get(timeout=30)
            if msg is None:
                raise RuntimeError("server closed the stream")
            if "id" in msg and "method" not in msg:
                assert msg["id"] == self.next_id, msg
                return msg
            self.notifications.append(msg)

    def drain(self, method):
        """Waits for one notification of the given method."""
        while True:
            for i, n in enumerate(self.notifications):
                if n.get("method") == method:
                    return self.notifications.pop(i)
            msg = self.inbox.get(timeout=30)
            if msg is None:
                raise RuntimeError("server closed the stream")
            self.notifications.append(msg)

    def close(self):
        try:
            self.request("shutdown", None)
            self.notify("exit", None)
            self.proc.wait(timeout=30)
        finally:
            if self.proc.poll() is None:
                self.proc.kill()


def decode(data, legend):
    """LSP relative encoding -> [(line, start, length, legend entry, modifiers)]."""
    assert len(data) % 5 == 0, "data is not a sequence of 5-tuples"
    out, line, start = [], 0, 0
    for i in range(0, len(data), 5):
        d_line, d_start, length, ttype, mods = data[i:i + 5]
        if d_line:
            line, start = line + d_line, d_start
        else:
            start += d_start
        assert 0 <= ttype < len(legend), "token type %d outside the legend" % ttype
        out.append((line, start, length, legend[ttype], mods))
    return out


def check_c15(text, lexemes, response, legend):
    """Checks the C15 observables of one response for a valid document.
    Returns (problems, decoded tokens with their lexeme)."""
    problems = []
    if "error" in response or response.get("result") is None:
        return ["no token list for a valid document: %r" % response], []
    decoded = decode(response["result"]["data"], legend)
    line_starts = [0] + [i + 1 for i, c in enumerate(text) if c == "\n"]
    by_range = {(s, e): (lex, cls) for s, e, lex, cls in lexemes}
    shown, prev_end, prev_pos = [], -1, None
    for line, start, length, entry, mods in decoded:
        if prev_pos is not None and (line, start) <= prev_pos:
            problems.append("positions not strictly increasing at %d:%d" % (line, start))
        prev_pos = (line, start)
        if line >= len(line_starts):
            problems.append("line %d outside the document" % line)
            continue
        s = line_starts[line] + start
        e = s + length
        if s < prev_end:
            problems.append("range %d..%d overlaps the previous one" % (s, e))
        prev_end = e
        hit = by_range.get((s, e))
        if hit is None:
            problems.append("range %d:%d+%d (%r) is not exactly one highlightable lexeme"
                            % (line, start, length, text[s:e]))
            continue
        lex, cls = hit
        if entry not in ALLOWED[cls]:
            problems.append("%r is a %s lexeme but carries legend entry %r" % (lex, cls, entry))
        shown.append((line, start, length, entry, lex, cls))
    return problems, shown


def build_binary(workspace):
    env = dict(os.environ, CARGO_NET_OFFLINE="true")
    subprocess.run(["cargo", "build", "--offline", "-q", "-p", "ironplcc"], cwd=workspace,
                   env=env, check=True)
    return os.path.join(workspace, "target", "debug", "ironplcc")


def open_session(binary, scratch):
    client = Client(binary, scratch)
    init = client.request("initialize", {"processId": None, "rootUri": None, "capabilities": {}})
    client.notify("initialized", {})
    legend = init["result"]["capabilities"]["semanticTokensProvider"]["legend"]["tokenTypes"]
    return client, init, legend


URI = "file:///localhost/demo.st"


def did_open(client, text, version=1):
    client.notify("textDocument/didOpen", {"textDocument": {
        "uri": URI, "languageId": "iec61131", "version": version, "text": text}})
    client.drain("textDocument/publishDiagnostics")


def did_change(client, text, version):
    client.notify("textDocument/didChange", {
        "textDocument": {"uri": URI, "version": version},
        "contentChanges": [{"text": text}]})
    client.drain("textDocument/publishDiagnostics")


def tokens(client):
    return client.request("textDocument/semanticTokens/full", {"textDocument": {"uri": URI}})


def is_null_result(response):
    return "error" not in response and "result" in response and response["result"] is None


# --------------------------------------------------------------------------
# Specific part
# --------------------------------------------------------------------------

def summary(response):
    result = response.get("result")
    if result is None:
        return "result = null"
    return "result members = %s, resultId = %r, %d numbers of data" % (
        sorted(result.keys()), result.get("resultId"), len(result["data"]))


def main():
    workspace = sys.argv[1] if len(sys.argv) > 1 else "/tmp/mut4/C15/compiler"
    binary = build_binary(workspace)
    scratch = tempfile.mkdtemp(prefix="c15demoC.")
    failures = []
    try:
        text, lexemes = build(PIECES)
        invalid = text.replace("n + 1", "n ? 1", 1)
        assert invalid != text

        print("== visible behaviour (what change C alters) ==")
        client, init, legend = open_session(binary, scratch)
        try:
            did_open(client, text)
            first = tokens(client)
            print("session 1, after didOpen:            ", summary(first))
            again = tokens(client)
            print("session 1, same request again:       ", summary(again))
            problems, shown = check_c15(text, lexemes, first, legend)
            failures += problems
            problems_again, shown_again = check_c15(text, lexemes, again, legend)
            failures += problems_again

            did_change(client, invalid, 2)
            second = tokens(client)
            print("session 1, after edit to invalid text:", summary(second),
                  " raw:", json.dumps(second))
            if not is_null_result(second):
                failures.append("invalid document did not yield a null result")

            did_change(client, text, 3)
            third = tokens(client)
            print("session 1, after edit back:          ", summary(third))
            problems3, shown3 = check_c15(text, lexemes, third, legend)
            failures += problems3
        finally:
            client.close()

        # A fresh server that receives the same final text without a history.
        client, init, legend2 = open_session(binary, scratch)
        try:
            did_open(client, text)
            fresh = tokens(client)
            print("session 2 (fresh), after didOpen:    ", summary(fresh))
            problems_f, shown_f = check_c15(text, lexemes, fresh, legend2)
            failures += problems_f
        finally:
            client.close()

        print("whole result equal, history vs fresh:", third.get("result") == fresh.get("result"))
        print("data equal, history vs fresh:        ",
              third["result"]["data"] == fresh["result"]["data"])

        print("== property C15 on the example ==")
        print("valid document: %d ranges, %d problems" % (len(shown), len(problems)))
        print("after the edit history: %d ranges, %d problems, same decoding as before: %s"
              % (len(shown3), len(problems3), shown3 == shown))
        print("fresh server: %d ranges, %d problems, same decoding: %s"
              % (len(shown_f), len(problems_f), shown_f == shown))
        if not (shown == shown_again == shown3 == shown_f):
            failures.append("same text decodes differently depending on the history")
    finally:
        shutil.rmtree(scratch, ignore_errors=True)

    if failures:
        print("C15 observables VIOLATED:")
        for f in failures:
            print("  -", f)
        return 1
    print("C15 observables hold on the example.")
    return 0


if __name__ == "__main__":
    sys.exit(main())
