#!/usr/bin/env python3
"""Demonstration for change A (server-to-client workspace/semanticTokens/refresh).

Usage: demo.py [COMPILER_WORKSPACE]     (default /tmp/mut6/C12/compiler)

Builds ironplcc in the workspace, runs `ironplcc lsp --stdio` on one concrete
history and checks the observables that property C12 states:
  * the server stays alive until exit,
  * every client request gets exactly one response with its id
    (result, or error for the unimplemented method),
  * no response exists that does not belong to a client request
    (in particular nothing "answers" a notification or a client response),
  * after shutdown + exit the process terminates with status 0.
Exits 0 when they hold. In addition it prints what differs between the
unchanged tree and the tree with the patch: the requests the SERVER sends.
"""
import json, os, subprocess, sys, tempfile, threading, shutil

WS = sys.argv[1] if len(sys.argv) > 1 else "/tmp/mut6/C12/compiler"


def frame(obj):
    body = json.dumps(obj).encode()
    return b"Content-Length: %d\r\n\r\n" % len(body) + body


def read_messages(stream, out):
    while True:
        length = None
        while True:
            line = stream.readline()
            if not line:
                return
            line = line.strip()
            if not line:
                break
            if line.lower().startswith(b"content-length:"):
                length = int(line.split(b":")[1])
        out.append(json.loads(stream.read(length)))


def main():
    tmp = tempfile.mkdtemp(prefix="c12demoA.")
    try:
        env = dict(os.environ, CARGO_NET_OFFLINE="true", TMPDIR=tmp)
        subprocess.run(["cargo", "build", "-q", "-p", "ironplcc", "--offline"],
                       cwd=WS, env=env, check=True)
        exe = os.path.join(WS, "target", "debug", "ironplcc")
        proc = subprocess.Popen([exe, "lsp", "--stdio"], stdin=subprocess.PIPE,
                                stdout=subprocess.PIPE, stderr=subprocess.PIPE, env=env)
        received, errlines = [], []
        t_out = threading.Thread(target=read_messages, args=(proc.stdout, received))
        t_err = threading.Thread(target=lambda: errlines.extend(proc.stderr.readlines()))
        t_out.start(); t_err.start()

        doc = "file://" + os.path.join(tmp, "a.st")
        text1 = "PROGRAM main\nVAR\n  x : INT;\nEND_VAR\n  x := 1;\nEND_PROGRAM\n"
        text2 = text1.replace("x := 1", "x := 2")

        def req(i, method, params=None):
            m = {"jsonrpc": "2.0", "id": i, "method": method}
            if params is not None:
                m["params"] = params
            return m

        def note(method, params=None):
            m = {"jsonrpc": "2.0", "method": method}
            if params is not None:
                m["params"] = params
            return m

        init = [
            req("init", "initialize", {"processId": None, "rootUri": None, "capabilities": {}}),
            note("initialized", {}),
        ]
        # The client numbers its requests 0, 1, 2, ... exactly like the server
        # numbers the requests it sends: equal values, unrelated identifiers.
        history = [
            note("textDocument/didOpen", {"textDocument": {"uri": doc, "languageId": "st", "version": 1, "text": text1}}),
            req(0, "textDocument/semanticTokens/full", {"textDocument": {"uri": doc}}),
            note("textDocument/didChange", {"textDocument": {"uri": doc, "version": 2}, "contentChanges": [{"text": text2}]}),
            req(1, "textDocument/semanticTokens/full", {"textDocument": {"uri": doc}}),
            req(2, "textDocument/hover", {"textDocument": {"uri": doc}, "position": {"line": 0, "character": 0}}),
            {"jsonrpc": "2.0", "id": 0, "result": None},      # client response (answers the server's request 0 if there is one)
            {"jsonrpc": "2.0", "id": 77, "error": {"code": -32601, "message": "nope"}},  # client response to nothing
            note("textDocument/didChange", {"textDocument": {"uri": doc, "version": 3}, "contentChanges": []}),
            note("custom/notImplemented", {"a": 1}),
            note("textDocument/didOpen", {"textDocument": {"uri": "untitled:Untitled-1", "languageId": "st", "version": 1, "text": text1}}),
            req(3, "textDocument/semanticTokens/full", {"textDocument": {"uri": "file:///never/opened.st"}}),
        ]
        end = [req(4, "shutdown"), note("exit")]
        for m in init + history + end:
            proc.stdin.write(frame(m)); proc.stdin.flush()
        try:
            status = proc.wait(timeout=60)
        except subprocess.TimeoutExpired:
            proc.kill(); status = None
        proc.stdin.close()
        t_out.join(); t_err.join()

        responses = [m for m in received if "id" in m and "method" not in m]
        server_requests = [m for m in received if "id" in m and "method" in m]
        notifications = [m for m in received if "id" not in m and "method" in m]

        client_requests = {m["id"]: m["method"] for m in init + history + end if "id" in m and "method" in m}
        ok = True

        def check(cond, what):
            nonlocal ok
            print(("  ok   " if cond else "  FAIL ") + what)
            ok = ok and cond

        print("C12 observables:")
        check(status == 0, "terminates with status 0 after shutdown + exit (status %r)" % status)
        for i, method in client_requests.items():
            mine = [r for r in responses if r["id"] == i]
            check(len(mine) == 1, "request id=%r %s answered exactly once (%d responses)" % (i, method, len(mine)))
            if len(mine) == 1:
                r = mine[0]
                check(("result" in r) != ("error" in r),
                      "  response id=%r is either a result or an error" % (i,))
                if method == "textDocument/hover":
                    check(r.get("error") is not None, "  unimplemented method answered with an error (code %r)" % (r.get("error") or {}).get("code"))
        stray = [r for r in responses if r["id"] not in client_requests]
        check(not stray, "no response without a client request (nothing answers a notification or a client response): %r" % stray)
        check(not any(b"panicked" in l for l in errlines), "no panic on stderr")

        print("What the server sent besides responses:")
        print("  notifications: %s" % [n["method"] for n in notifications])
        print("  SERVER-TO-CLIENT REQUESTS: %d  %s" % (len(server_requests), [(m["id"], m["method"]) for m in server_requests]))
        shared = sorted(set(m["id"] for m in server_requests) & set(i for i in client_requests if isinstance(i, int)))
        print("  identifier values used by both sides (unrelated id spaces): %s" % shared)
        sys.exit(0 if ok else 1)
    finally:
        shutil.rmtree(tmp, ignore_errors=True)


main()
