#!/usr/bin/env python3
"""Change B: what belongs to a directory that is given to `ironplcc check`.

usage: demo.py <compiler workspace>      (binary: $1/target/debug/ironplcc)

Builds directories that contain, next to ordinary source files, a
sub-directory, a socket, symbolic links (to a sibling, to a file elsewhere, to
a directory, to nothing) and an unreadable file, and prints what
`ironplcc check` says about the directory and about the list of the files in
it. On every single run the command-line contract is verified:

  exit 0  <=>  a line `OK` on stdout  <=>  no coded diagnostic on stderr
  exit != 0  =>  at least one `error[Pnnnn]` on stderr, and no OK
  the result does not depend on the order of the arguments

`directory == list of the files in it` is verified for the layouts where the
members are all files or unresolvable names; for the layouts with members that
are not files (sub-directory, socket) and with two names for one file the two
results are printed side by side (this is where the change is visible).

Exit status 0: the contract held on everything tried (with or without the
change); 1: it did not.
"""
import os
import re
import shutil
import socket
import stat
import subprocess
import sys
import tempfile

ANSI = re.compile(r"\x1b\[[0-9;]*m")
CODE = re.compile(r"error\[(P\d{4})\]")

GOOD = """FUNCTION_BLOCK FB_%s
VAR
  x : INT;
END_VAR
x := 1;
END_FUNCTION_BLOCK
"""
BAD = "FUNCTION_BLOCK FB_BAD\nVAR x : ; END_VAR\nEND_FUNCTION_BLOCK\n"

failures = []
ENV = dict(os.environ)


def demote():
    # Permission faults only exist for ordinary users.
    if os.geteuid() == 0:
        os.setgroups([])
        os.setgid(65534)
        os.setuid(65534)


def check(binary, *args):
    p = subprocess.run([binary, "check", *args], stdout=subprocess.PIPE, stderr=subprocess.PIPE,
                       preexec_fn=demote, timeout=120, env=ENV)
    out = p.stdout.decode("utf-8", "replace")
    err = ANSI.sub("", p.stderr.decode("utf-8", "replace"))
    return p.returncode, out, err


def contract(label, binary, *args):
    rc, out, err = check(binary, *args)
    ok_line = any(line.strip() == "OK" for line in out.splitlines())
    codes = sorted(CODE.findall(err))
    print("    %-28s exit=%d OK=%-5s codes=%s" % (label, rc, ok_line, ",".join(codes) or "-"))
    if rc < 0:
        failures.append("%s: killed by signal %d" % (label, -rc))
    if (rc == 0) != ok_line:
        failures.append("%s: exit status %d but OK line %s" % (label, rc, ok_line))
    if (rc == 0) != (not codes):
        failures.append("%s: exit status %d but diagnostics %s" % (label, rc, codes))
    if "panicked" in err:
        failures.append("%s: panic" % label)
    return rc == 0, codes


def write(path, text):
    with open(path, "w") as f:
        f.write(text)


def is_file_member(path):
    """A member counts as one of `the files in the directory` unless it is
    (after following links) a directory or a special file. A name that cannot
    be resolved counts: the command must complain about it either way."""
    try:
        mode = os.stat(path).st_mode
    except OSError:
        return True
    return stat.S_ISREG(mode)


def main():
    ws = sys.argv[1]
    binary = os.path.join(ws, "target", "debug", "ironplcc")
    top = tempfile.mkdtemp(prefix="c13-B-")
    socks = []
    try:
        os.chmod(top, 0o755)
        os.mkdir(os.path.join(top, "tmp"))
        os.chmod(os.path.join(top, "tmp"), 0o777)
        ENV["TMPDIR"] = os.path.join(top, "tmp")
        elsewhere = os.path.join(top, "elsewhere")
        os.mkdir(elsewhere)
        os.chmod(elsewhere, 0o755)
        write(os.path.join(elsewhere, "good.st"), GOOD % "ELSEWHERE")
        write(os.path.join(elsewhere, "bad.st"), BAD)

        def sub_dir(d, inner):
            os.mkdir(os.path.join(d, "sub"))
            os.chmod(os.path.join(d, "sub"), 0o755)
            if inner is not None:
                write(os.path.join(d, "sub", "inner.st"), inner)

        def unix_socket(d):
            s = socket.socket(socket.AF_UNIX, socket.SOCK_STREAM)
            here = os.getcwd()
            os.chdir(d)  # the path of a socket is limited to ~100 bytes
            try:
                s.bind("s.sock")
            finally:
                os.chdir(here)
            socks.append(s)

        def unreadable(d):
            write(os.path.join(d, "z.st"), GOOD % "Z")
            os.chmod(os.path.join(d, "z.st"), 0o000)

        # name, strict (directory == list must hold with and without the change), populate
        layouts = [
            ("only-files", True, lambda d: write(os.path.join(d, "b.st"), GOOD % "B")),
            ("file-with-syntax-error", True, lambda d: write(os.path.join(d, "b.st"), BAD)),
            ("dangling-link", True, lambda d: os.symlink("nowhere.st", os.path.join(d, "z.st"))),
            ("unreadable-file", True, unreadable),
            ("link-to-file-elsewhere", True,
             lambda d: os.symlink(os.path.join(elsewhere, "good.st"), os.path.join(d, "l.st"))),
            ("link-to-bad-file-elsewhere", True,
             lambda d: os.symlink(os.path.join(elsewhere, "bad.st"), os.path.join(d, "l.st"))),
            ("empty-sub-directory", False, lambda d: sub_dir(d, None)),
            ("sub-directory-with-good-file", False, lambda d: sub_dir(d, GOOD % "INNER")),
            ("sub-directory-with-bad-file", False, lambda d: sub_dir(d, BAD)),
            ("link-to-directory", False, lambda d: os.symlink(elsewhere, os.path.join(d, "l"))),
            ("socket", False, unix_socket),
            ("second-name-for-a-sibling", False, lambda d: os.symlink("a.st", os.path.join(d, "b.st"))),
            ("sub-directory-and-bad-file", False,
             lambda d: (sub_dir(d, GOOD % "INNER"), write(os.path.join(d, "b.st"), BAD))),
        ]

        for name, strict, populate in layouts:
            d = os.path.join(top, name)
            os.mkdir(d)
            os.chmod(d, 0o755)
            write(os.path.join(d, "a.st"), GOOD % "A")
            populate(d)
            members = sorted(os.path.join(d, n) for n in os.listdir(d))
            listed = [m for m in members if is_file_member(m)]
            print("  %s: %s" % (name, " ".join(os.path.basename(m) + ("" if m in listed else "(not a file)")
                                                 for m in members)))
            as_dir = contract("as directory", binary, d)
            as_dir_slash = contract("as directory/", binary, d + os.sep)
            as_list = contract("as list of its files", binary, *listed)
            as_rev = contract("as reversed list", binary, *reversed(listed))
            mixed = contract("directory + first file", binary, d, listed[0])
            mixed_rev = contract("first file + directory", binary, listed[0], d)
            if as_dir != as_dir_slash:
                failures.append("%s: trailing separator changes the result" % name)
            if as_list != as_rev:
                failures.append("%s: order of the files changes the result" % name)
            if mixed != mixed_rev or mixed[0] != as_dir[0]:
                failures.append("%s: mixture of directory and file disagrees" % name)
            same = as_dir[0] == as_list[0]
            print("    directory %s list of its files" % ("==" if same else "!="))
            if strict and not same:
                failures.append("%s: directory and list of its files disagree" % name)
    finally:
        for s in socks:
            s.close()
        for root, dirs, files in os.walk(top):
            for n in dirs + files:
                p = os.path.join(root, n)
                if not os.path.islink(p):
                    os.chmod(p, 0o755)
        shutil.rmtree(top, ignore_errors=True)

    if failures:
        print("CONTRACT BROKEN:")
        for f in failures:
            print("  " + f)
        return 1
    print("contract holds on everything tried")
    return 0


if __name__ == "__main__":
    sys.exit(main())
