#!/usr/bin/env python3
"""Demonstration for change B of PRESERVING (property C13).

usage: demo.py [compiler-workspace]   (default /tmp/mut6/C13/compiler)

Builds ironplcc in the workspace (offline), shows the behaviour that the
change alters and checks the stated observables of C13 on an example set.
Exits 0 when they hold. Works on the unchanged and on the changed tree, so
running it on both shows before and after.
"""
import os, re, shutil, subprocess, sys, tempfile, itertools

WS = os.path.abspath(sys.argv[1] if len(sys.argv) > 1 else "/tmp/mut6/C13/compiler")
TMP = tempfile.mkdtemp(prefix="c13demo.")
assert TMP and os.path.isdir(TMP)
ENV = dict(os.environ, TMPDIR=TMP, CARGO_NET_OFFLINE="true")
FAILURES = []

ANSI = re.compile(r"\x1b\[[0-9;]*m")
# A coded diagnostic, in the layout of codespan (`error[P0002]: ...`) or in
# the compact layout (`P0002 error: ...`), at the start of a line.
CODED = re.compile(r"^(?:error\[(P\d{4})\]:|(P\d{4}) error:)", re.M)


def build():
    binary = os.environ.get("IRONPLCC")
    if binary:
        return binary
    subprocess.run(["cargo", "build", "-q", "-p", "ironplcc", "--offline"],
                   cwd=WS, env=ENV, check=True)
    return os.path.join(WS, "target", "debug", "ironplcc")


def write(rel, text):
    path = os.path.join(TMP, rel)
    os.makedirs(os.path.dirname(path), exist_ok=True)
    with open(path, "w") as f:
        f.write(text)
    return path


def run(binary, *args):
    p = subprocess.run([binary, *args], env=ENV, cwd=TMP, capture_output=True, text=True)
    err = ANSI.sub("", p.stderr)
    codes = [a or b for a, b in CODED.findall(err)]
    ok_line = "OK" in p.stdout.splitlines()
    return p.returncode, p.stdout, err, codes, ok_line


def expect(cond, what):
    print(("  pass: " if cond else "  FAIL: ") + what)
    if not cond:
        FAILURES.append(what)


def check_contract(binary, args, label):
    """The stated observables of `check`: exit 0 and OK exactly when there is
    no diagnostic; otherwise non-zero, at least one coded diagnostic on
    stderr and no OK."""
    rc, out, err, codes, ok_line = run(binary, "check", *args)
    if rc == 0:
        expect(ok_line and not codes, f"{label}: exit 0, OK printed, no coded diagnostic")
    else:
        expect(not ok_line and len(codes) >= 1,
               f"{label}: exit {rc}, no OK, coded diagnostics {sorted(set(codes))}")
    return rc, out, err, codes


def finish():
    shutil.rmtree(TMP, ignore_errors=True)
    if FAILURES:
        print("PROPERTY OBSERVABLES VIOLATED:", FAILURES)
        sys.exit(1)
    print("all stated observables of C13 hold on this example")
    sys.exit(0)


GOOD = """FUNCTION_BLOCK fb1
VAR
  x : INT;
END_VAR
x := 1;
END_FUNCTION_BLOCK
"""
GOOD2 = """FUNCTION_BLOCK fb3
VAR
  y : BOOL;
END_VAR
y := TRUE;
END_FUNCTION_BLOCK
"""
BAD_SYNTAX = """FUNCTION_BLOCK fb2
VAR
  x : INT
END_VAR
END_FUNCTION_BLOCK
"""
BAD_SEMANTIC = """TYPE
LEVEL : (CRITICAL) := CRITICAL;
LEVEL : (CRITICAL) := CRITICAL;
END_TYPE
"""


def scenarios(binary):
    ok = [write("ok/a.st", GOOD), write("ok/c.st", GOOD2)]
    mix = [write("mix/a_dup.st", BAD_SEMANTIC), write("mix/b_bad.st", BAD_SYNTAX),
           write("mix/c_good.st", GOOD)]
    untok = write("untok.st", "FUNCTION_BLOCK é")
    okdir, mixdir = os.path.join(TMP, "ok"), os.path.join(TMP, "mix")

    print("check: valid set as directory, as files in every order")
    rc_dir, _, _, _ = check_contract(binary, [okdir], "ok as directory")
    for perm in itertools.permutations(ok):
        rc, _, _, _ = check_contract(binary, list(perm), "ok as files " + " ".join(map(os.path.basename, perm)))
        expect(rc == rc_dir == 0, "  same verdict as the directory (exit 0)")

    print("check: faulty set as directory, as files in every order, as a mixture")
    rc_dir, _, _, codes_dir = check_contract(binary, [mixdir], "mix as directory")
    for perm in itertools.permutations(mix):
        rc, _, _, codes = check_contract(binary, list(perm), "mix as files " + " ".join(map(os.path.basename, perm)))
        expect((rc != 0) == (rc_dir != 0) and sorted(codes_dir) == sorted(codes),
               "  same verdict and same diagnostic codes as the directory")
    for args in ([mixdir, ok[0]], [ok[0], mixdir], [okdir, mix[1]], [mix[1], okdir]):
        check_contract(binary, args, "mixture " + " ".join(os.path.relpath(a, TMP) for a in args))

    print("check: missing and unreadable paths")
    missing = os.path.join(TMP, "missing.st")
    for args in ([missing], [ok[0], missing], [missing, ok[0]], [missing, mixdir]):
        rc, _, _, _ = check_contract(binary, args, "missing " + " ".join(os.path.relpath(a, TMP) for a in args))
        expect(rc != 0, "  a missing path fails the check")
    locked = write("locked/a.st", GOOD)
    os.chmod(locked, 0)
    try:
        open(locked).close()
        print("  (skipped the unreadable file: this user can read a file of mode 000)")
    except PermissionError:
        for args in ([locked], [os.path.dirname(locked)], [ok[0], locked]):
            rc, _, _, _ = check_contract(binary, args, "unreadable " + " ".join(os.path.relpath(a, TMP) for a in args))
            expect(rc != 0, "  an unreadable file fails the check")
    os.chmod(locked, 0o600)

    print("echo / tokenize: exit 0 exactly when every file parses / tokenizes")
    expect(run(binary, "echo", okdir)[0] == 0, "echo ok (directory): exit 0")
    expect(run(binary, "echo", *ok)[0] == 0, "echo ok (files): exit 0")
    expect(run(binary, "echo", mix[0])[0] == 0, "echo of a file with only a semantic problem: exit 0 (it parses)")
    expect(run(binary, "echo", mixdir)[0] != 0, "echo mix (directory): exit non-zero")
    for perm in itertools.permutations(mix):
        expect(run(binary, "echo", *perm)[0] != 0, "echo mix (files, one order): exit non-zero")
    expect(run(binary, "tokenize", *ok)[0] == 0, "tokenize ok: exit 0")
    expect(run(binary, "tokenize", mix[1])[0] == 0, "tokenize of a file with only a syntax problem: exit 0 (it tokenizes)")
    expect(run(binary, "tokenize", ok[0], untok)[0] != 0, "tokenize with a file that does not tokenize: exit non-zero")
    expect(run(binary, "tokenize", untok, ok[0])[0] != 0, "tokenize, other order: exit non-zero")
    return ok, mix, okdir, mixdir, untok


binary = build()
ok, mix, okdir, mixdir, untok = scenarios(binary)

print("\n==== what the change alters: progress lines, order of diagnostics, summary ====")
rc0, out0, err0, codes0, ok0 = run(binary, "check", okdir)
rc, out, err, codes, _ = run(binary, "check", mixdir)
changed = "Checking " in err0
print("this tree is " + ("CHANGED" if changed else "UNCHANGED"))
print("---- `ironplcc check ok` (exit %d): stdout %r, stderr: ----" % (rc0, out0))
print(err0, end="")
print("---- stderr of `ironplcc check mix` (exit %d), only the lines that are not source excerpt: ----" % rc)
for l in err.splitlines():
    if re.match(r"^(error\[|P\d{4} |\s+Checking|Found|\s+P\d{4} is|Error:)", l):
        print(l)
print("----")
print("order of the diagnostic codes on stderr:", codes)
if changed:
    expect(rc0 == 0 and ok0 and not codes0 and err0 != "",
           "success: exit 0 and OK although stderr is not empty (progress lines are not diagnostics)")
    expect(codes == ["P0019", "P0002"], "diagnostics in the order of the files (a_dup.st before b_bad.st)")
    expect(re.search(r"^Found 2 problems \(P0002, P0019\) in 3 files$", err, re.M) is not None, "trailing summary present")
else:
    expect(err0 == "", "unchanged tree: stderr empty on success")
    expect(codes == ["P0002", "P0019"], "unchanged tree: syntax problems first, then semantic problems")
finish()
