#!/bin/sh
# Demonstration for change B (keep going: more follow-on diagnostics, stable order).
#
# usage: demo.sh [compiler-workspace]      (default /tmp/mut4/C13/compiler)
#
# Builds ironplcc without and with patch.diff (the workspace is put back into
# the state it was found in), runs both on the same examples and prints the
# difference. Exits 0 when the observables of property C13 hold on every
# example for both binaries.
set -eu

WS="${1:-/tmp/mut4/C13/compiler}"
HERE=$(cd "$(dirname "$0")" && pwd)
PATCH="$HERE/patch.diff"
TOP=$(git -C "$WS" rev-parse --show-toplevel)
T=$(mktemp -d)
: "${T:?}"

state() {
    if git -C "$TOP" apply --check -R "$PATCH" 2>/dev/null; then
        echo patched
    elif git -C "$TOP" apply --check "$PATCH" 2>/dev/null; then
        echo unpatched
    else
        echo unknown
    fi
}
to_state() {
    want="$1"
    have=$(state)
    if [ "$have" = "$want" ]; then return 0; fi
    if [ "$want" = patched ]; then git -C "$TOP" apply "$PATCH"; else git -C "$TOP" apply -R "$PATCH"; fi
}
build() {
    (cd "$WS" && CARGO_NET_OFFLINE=true cargo build --offline -q -p ironplcc 2>"$T/build.log") || {
        cat "$T/build.log" >&2
        exit 2
    }
    cp "$WS/target/debug/ironplcc" "$1"
}

INITIAL=$(state)
if [ "$INITIAL" = unknown ]; then
    echo "patch.diff neither applies nor reverse-applies in $TOP" >&2
    rm -rf "$T"
    exit 2
fi
cleanup() {
    : "${T:?}"
    to_state "$INITIAL" || echo "WARNING: could not restore the workspace" >&2
    rm -rf "$T"
}
trap cleanup EXIT

to_state unpatched
build "$T/before"
to_state patched
build "$T/after"
to_state "$INITIAL"

# ---------------------------------------------------------------- examples
W="$T/work"
mkdir -p "$W/good" "$W/mixed" "$W/partly" "$W/toks"
cp "$WS/resources/test/first_steps.st" "$W/good/first_steps.st"
printf 'PROGRAM p\nVAR x : INT; END_VAR\nx := ;\nEND_PROGRAM\n' >"$W/syntax_error.st"
cp "$WS/resources/test/first_steps.st" "$W/mixed/a_good.st"
cp "$WS/resources/test/first_steps_semantic_error.st" "$W/mixed/b_semantic_error.st"
# a file that cannot be read (the demo may run as root, so no chmod): dangling link
ln -s "$W/does/not/exist.st" "$W/partly/a_dangling.st"
cp "$W/syntax_error.st" "$W/partly/b_syntax_error.st"
printf 'PROGRAM a\nVAR x : INT; END_VAR\nx := 1 $ 2;\nEND_PROGRAM\n' >"$W/toks/a_bad.st"
printf 'PROGRAM b\nVAR y : INT; END_VAR\ny := 1 $ 2;\nEND_PROGRAM\n' >"$W/toks/b_bad.st"
printf 'PROGRAM c\nVAR z : INT; END_VAR\nz := 1;\nEND_PROGRAM\n' >"$W/toks/c_good.st"

strip_ansi() { sed 's/\x1b\[[0-9;]*m//g'; }

FAIL=0
# run_check BIN ARGS...: runs `check` and checks the observables of C13.
# Leaves the verdict (pass|fail) in $T/verdict.BIN
run_check() {
    bin="$1"
    shift
    rc=0
    "$T/$bin" check "$@" >"$T/out" 2>"$T/err.raw" || rc=$?
    strip_ansi <"$T/err.raw" >"$T/err"
    ok=$(grep -cx 'OK' "$T/out" || true)
    ndiag=$(grep -cE '^error\[P[0-9]+\]' "$T/err" || true)
    codes=$(grep -oE '^error\[P[0-9]+\]' "$T/err" | sed 's/error\[\(.*\)\]/\1/' | tr '\n' ' ')
    last=$(tail -n 1 "$T/err")
    verdict=VIOLATED
    if [ "$rc" -eq 0 ] && [ "$ok" -ge 1 ] && [ "$ndiag" -eq 0 ]; then verdict=holds; fi
    if [ "$rc" -ne 0 ] && [ "$ok" -eq 0 ] && [ "$ndiag" -ge 1 ]; then verdict=holds; fi
    [ "$verdict" = holds ] || FAIL=1
    if [ "$rc" -eq 0 ]; then echo pass >"$T/verdict.$bin"; else echo fail >"$T/verdict.$bin"; fi
    printf '  %-6s exit=%s OK-lines=%s coded-diagnostics=%s [ %s] C13:%s\n         last stderr line: %s\n' \
        "$bin" "$rc" "$ok" "$ndiag" "$codes" "$verdict" "$last"
}
# run_simple BIN SUBCOMMAND EXPECT(zero|nonzero) ARGS...
run_simple() {
    bin="$1"
    sub="$2"
    expect="$3"
    shift 3
    rc=0
    "$T/$bin" "$sub" "$@" >"$T/out" 2>"$T/err.raw" || rc=$?
    strip_ansi <"$T/err.raw" >"$T/err"
    ndiag=$(grep -cE '^error\[P[0-9]+\]' "$T/err" || true)
    files=$(grep -oE '[a-z_]+\.st:[0-9]+:[0-9]+' "$T/err" | tr '\n' ' ')
    verdict=VIOLATED
    if [ "$expect" = zero ] && [ "$rc" -eq 0 ]; then verdict=holds; fi
    if [ "$expect" = nonzero ] && [ "$rc" -ne 0 ]; then verdict=holds; fi
    [ "$verdict" = holds ] || FAIL=1
    printf '  %-6s exit=%s (property wants %s) coded-diagnostics=%s at [ %s] stdout-lines=%s C13:%s\n' \
        "$bin" "$rc" "$expect" "$ndiag" "$files" "$(wc -l <"$T/out" | tr -d ' ')" "$verdict"
}
example() {
    echo
    echo "== check $1"
    shift
    run_check before "$@"
    run_check after "$@"
}
# same_verdict BIN: directory form and list form (last two runs) agree
dir_vs_list() {
    bin="$1"
    dir="$2"
    shift 2
    run_check "$bin" "$dir"
    v1=$(cat "$T/verdict.$bin")
    run_check "$bin" "$@"
    v2=$(cat "$T/verdict.$bin")
    if [ "$v1" = "$v2" ]; then
        echo "         directory and list of its files agree ($v1)"
    else
        echo "         directory and list of its files DISAGREE ($v1 / $v2)"
        FAIL=1
    fi
}

cd "$W"
example "valid directory                        : good" good
example "only a missing path                    : missing.st" missing.st
example "valid dir + missing path               : good missing.st" good missing.st
example "syntax error + missing path            : syntax_error.st missing.st" syntax_error.st missing.st
example "missing path + syntax error            : missing.st syntax_error.st" missing.st syntax_error.st
example "dir with semantic error + missing path : mixed missing.st" mixed missing.st

echo
echo "== directory 'partly' (unreadable a_dangling.st, b_syntax_error.st) against the list of its files"
echo "  -- before"
dir_vs_list before partly partly/b_syntax_error.st partly/a_dangling.st
echo "  -- after"
dir_vs_list after partly partly/b_syntax_error.st partly/a_dangling.st
echo
echo "== directory 'mixed' (a_good.st, b_semantic_error.st) against the list of its files"
echo "  -- before"
dir_vs_list before mixed mixed/b_semantic_error.st mixed/a_good.st
echo "  -- after"
dir_vs_list after mixed mixed/b_semantic_error.st mixed/a_good.st

echo
echo "== tokenize toks   (a_bad.st and b_bad.st do not tokenize, c_good.st does)"
echo "   before: stops at the first bad file it meets (hash order: differs from run to run)"
run_simple before tokenize nonzero toks
run_simple before tokenize nonzero toks
run_simple before tokenize nonzero toks
echo "   after: all files in name order, every bad file reported"
run_simple after tokenize nonzero toks
run_simple after tokenize nonzero toks
echo "== tokenize toks/c_good.st good"
run_simple before tokenize zero toks/c_good.st good
run_simple after tokenize zero toks/c_good.st good
echo "== tokenize toks/c_good.st missing.st"
run_simple before tokenize nonzero toks/c_good.st missing.st
run_simple after tokenize nonzero toks/c_good.st missing.st
echo "== echo syntax_error.st good"
run_simple before echo nonzero syntax_error.st good
run_simple after echo nonzero syntax_error.st good
echo "== echo mixed   (a semantic error is no parse error)"
run_simple before echo zero mixed
run_simple after echo zero mixed

echo
if [ "$FAIL" -eq 0 ]; then
    echo "RESULT: the observables of C13 hold on every example, before and after the change"
else
    echo "RESULT: an observable of C13 does NOT hold"
fi
exit "$FAIL"
