#!/usr/bin/env python3
"""Demo for change C (warnings in addition to errors: P0033 file without
declarations, P0034 file not UTF-8; command line and language server).

usage: demo.py <path of the compiler workspace>   (binary: $1/target/debug/ironplcc)

Exit 0 = C03 held on everything tried (with and without the change).
"""
import itertools, json, os, re, shutil, subprocess, sys, tempfile

ws = os.path.abspath(sys.argv[1])
BIN = os.path.join(ws, "target", "debug", "ironplcc")
root = os.path.realpath(tempfile.mkdtemp(prefix="c03-C-"))
tmp = os.path.join(root, "tmp")
src = os.path.join(root, "src")
os.mkdir(tmp)
os.mkdir(src)
env = dict(os.environ, TMPDIR=tmp)
ANSI = re.compile(r"\x1b\[[0-9;]*m")
problems = []
shown = []


def write(name, data, where=src):
    path = os.path.join(where, name)
    with open(path, "wb") as f:
        f.write(data if isinstance(data, bytes) else data.encode("utf-8"))
    return path


def check(paths, cwd=None):
    p = subprocess.run([BIN, "check"] + list(paths), env=env, cwd=cwd,
                       stdout=subprocess.PIPE, stderr=subprocess.PIPE, timeout=120)
    err = ANSI.sub("", p.stderr.decode("utf-8", "replace"))
    errors = re.findall(r"^error\[(P\d+)\]", err, re.M)
    warnings = re.findall(r"^warning\[(P\d+)\]", err, re.M)
    # what each error points at (file:line:col of the primary label)
    where = re.findall(r"^error\[(P\d+)\].*\n\s*┌─ (.*:\d+:\d+)", err, re.M)
    return p.returncode, errors, warnings, where, p.stdout.decode("utf-8", "replace")


def expect_fail(what, paths, code, cwd=None):
    rc, errors, warnings, where, out = check(paths, cwd)
    if rc == 0 or "OK" in out or code not in errors:
        problems.append("MASKED: %s: rc=%s errors=%s warnings=%s (wanted %s)" % (what, rc, errors, warnings, code))
    return sorted(errors), sorted(warnings), sorted(where)


def expect_ok(what, paths):
    rc, errors, warnings, where, out = check(paths)
    if rc != 0 or errors or "OK" not in out:
        problems.append("valid set rejected: %s: rc=%s errors=%s" % (what, rc, errors))
    return sorted(warnings)


LATIN = "(* Grüße *)\n".encode("cp1252")
VALID = {
    "a.st": "TYPE\n  LEVEL : (LOW, HIGH) := LOW;\nEND_TYPE\n",
    "b_latin.st": LATIN + b"FUNCTION_BLOCK FB\nVAR\n x : LEVEL;\nEND_VAR\nEND_FUNCTION_BLOCK\n",
    "c_empty.st": "",
    "d_comment.st": "(* € nothing here yet *)\n\n",
}
FAULTY = {  # name -> (bytes or text, expected code)
    "f_syntax.st": ("TYPE\n  T2 : INT (1..10)\nEND_TYPE\n", "P0002"),
    "f_syntax_latin.st": (LATIN + b"TYPE\n  T2 : INT (1..10)\nEND_TYPE\n", "P0002"),
    "f_open_comment.st": ("(* never closed\n", None),
    "f_token.st": ("TYPE\n  café : INT (1..10);\nEND_TYPE\n", "P0031"),
    "f_struct.st": ("TYPE\n  S : STRUCT\n x: INT; x : INT;\n END_STRUCT;\nEND_TYPE\n", "P0003"),
    "f_range_latin.st": (LATIN + b"TYPE\n  R2 : INT (10..1);\nEND_TYPE\n", "P0004"),
    "f_dup_fb.st": ("FUNCTION_BLOCK FB\nVAR\n z : INT;\nEND_VAR\nEND_FUNCTION_BLOCK\n", "P0019"),
    "f_dup_type.st": ("TYPE\n  LEVEL : (A1, B1) := A1;\nEND_TYPE\n", "P0019"),
}


def lsp_session(documents):
    """Opens the documents (uri -> text) and returns uri -> list of (severity, code)."""
    p = subprocess.Popen([BIN, "lsp", "--stdio"], env=env, stdin=subprocess.PIPE,
                         stdout=subprocess.PIPE, stderr=subprocess.DEVNULL)

    def send(msg):
        body = json.dumps(msg).encode()
        p.stdin.write(b"Content-Length: %d\r\n\r\n" % len(body) + body)
        p.stdin.flush()

    def recv():
        length = None
        while True:
            line = p.stdout.readline()
            if not line:
                raise RuntimeError("language server closed the stream")
            line = line.strip()
            if not line:
                break
            if line.lower().startswith(b"content-length:"):
                length = int(line.split(b":")[1])
        return json.loads(p.stdout.read(length))

    published = {}
    try:
        send({"jsonrpc": "2.0", "id": 1, "method": "initialize",
              "params": {"processId": None, "rootUri": None, "capabilities": {}}})
        while recv().get("id") != 1:
            pass
        send({"jsonrpc": "2.0", "method": "initialized", "params": {}})
        for version, (uri, text) in enumerate(documents, 1):
            send({"jsonrpc": "2.0", "method": "textDocument/didOpen", "params": {
                "textDocument": {"uri": uri, "languageId": "st", "version": version, "text": text}}})
            while True:
                msg = recv()
                if msg.get("method") == "textDocument/publishDiagnostics":
                    published[msg["params"]["uri"]] = [
                        (d.get("severity"), d.get("code")) for d in msg["params"]["diagnostics"]]
                    break
        send({"jsonrpc": "2.0", "id": 2, "method": "shutdown", "params": None})
        while recv().get("id") != 2:
            pass
        send({"jsonrpc": "2.0", "method": "exit", "params": None})
        p.wait(timeout=30)
    finally:
        if p.poll() is None:
            p.kill()
    return published


try:
    valid = [write(n, t) for n, t in VALID.items()]

    # the valid set (with an empty, a comment-only and a Latin-1 file) passes,
    # in every order, and so does each file that has no declarations alone
    w = set()
    for order in itertools.permutations(valid):
        w.add(tuple(expect_ok("valid set", order)))
    shown.append("valid set (24 orders): exit 0, OK, warnings %s" % sorted(w))
    shown.append("empty file alone: warnings %s" % expect_ok("empty alone", [valid[2]]))
    if len(w) != 1:
        problems.append("warnings depend on the order: %s" % w)

    # every fault at every position among the valid files: fails, with the
    # code of the fault, pointing at the same place, and the same in every order
    for name, (data, code) in FAULTY.items():
        faulty = write(name, data)
        if code is None:
            # whatever the unchanged tree calls it, it must be the same everywhere
            code = (check([faulty])[1] or ["?"])[0]
        # where the fault is reported when the file is checked on its own
        # (the duplicates are only faults next to the other declaration; the
        # "no content" follow-on P0030 belongs to the set, not to the file)
        alone = [] if code == "P0019" else [x for x in expect_fail(name + " alone", [faulty], code)[2] if x[0] != "P0030"]
        seen = set()
        for k in range(len(valid) + 1):
            paths = valid[:k] + [faulty] + valid[k:]
            e, wn, where = expect_fail("%s at %d" % (name, k), paths, code)
            seen.add((tuple(e), tuple(wn), tuple(where)))
        for order in list(itertools.permutations(valid + [faulty]))[::7]:
            e, wn, where = expect_fail("%s permuted" % name, order, code)
            seen.add((tuple(e), tuple(wn), tuple(where)))
        e, wn, where = expect_fail("%s via directory" % name, ["."], code, cwd=src)
        seen.add((tuple(e), tuple(wn), tuple(where)))
        if len(seen) != 1:
            problems.append("diagnostics depend on the order for %s: %s" % (name, seen))
        e, wn, where = next(iter(seen))
        if not set(alone) <= set(where):
            problems.append("%s: error moved or lost among the others: alone %s, in the set %s" % (name, alone, where))
        shown.append("%-20s among the valid files: errors %s warnings %s" % (name, list(e), list(wn)))
        os.remove(faulty)

    # files without declarations do not cure or hide anything: only such
    # files next to the fault, and many of them
    faulty = write("f_range.st", "TYPE\n  R2 : INT (10..1);\nEND_TYPE\n")
    many = [write("e%d.st" % i, "(* %d *)" % i if i % 2 else "") for i in range(8)]
    expect_fail("fault among 8 files without declarations", many[:4] + [faulty] + many[4:], "P0004")
    expect_fail("fault among 8 files without declarations (dir)", [src], "P0004")
    for m in many:
        os.remove(m)
    os.remove(faulty)

    # language server: the erroneous document still gets its error (severity
    # 1), whatever else is open; documents without declarations get no error
    uri = lambda n: "file://" + os.path.join(src, n)
    docs = [(uri("c_empty.st"), ""), (uri("bad.st"), "TYPE\n  R2 : INT (10..1);\nEND_TYPE\n"),
            (uri("d_comment.st"), "(* € *)"), (uri("bad2.st"), "(* Grüße *) TYPE\n  T2 : INT (1..10)\nEND_TYPE\n")]
    for order in (docs, list(reversed(docs))):
        got = lsp_session(order)
        for name, code in (("bad.st", "P0004"), ("bad2.st", "P0002")):
            if (1, code) not in got.get(uri(name), []):
                problems.append("language server: %s not reported for %s: %s" % (code, name, got))
        for name in ("c_empty.st", "d_comment.st"):
            if any(sev == 1 and code not in ("P0002", "P0004") for sev, code in got.get(uri(name), [])):
                problems.append("language server: unexpected error for %s: %s" % (name, got))
        shown.append("language server publishes (severity, code): %s" %
                     {os.path.basename(k): v for k, v in sorted(got.items())})

    print("VISIBLE BEHAVIOUR (compare with and without the change):")
    for s in shown:
        print("  " + s)
finally:
    shutil.rmtree(root, ignore_errors=True)

for p in problems:
    print("PROBLEM:", p)
print("C03 held on everything tried" if not problems else "C03 VIOLATED")
sys.exit(1 if problems else 0)
