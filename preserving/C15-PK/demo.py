#!/usr/bin/env python3
"""Demo / independent check for change B of C15 (documents the server does not hold are read from disk).

usage: demo.py <path of the `compiler` workspace directory>

Speaks LSP over stdio with <dir>/target/debug/ironplcc. Documents are built
from pieces whose class is known to this script, so the expected lexemes do not
come from the tool. Exits 0 when the property held on everything it tried.
"""
import json
import os
import queue
import random
import shutil
import subprocess
import sys
import tempfile
import threading

# --------------------------------------------------------------------------
# A tiny LSP client
# --------------------------------------------------------------------------


class Lsp:
    def __init__(self, binary, cwd, tmp):
        env = dict(os.environ)
        env["TMPDIR"] = tmp
        self.proc = subprocess.Popen(
            [binary, "lsp", "--stdio"],
            stdin=subprocess.PIPE,
            stdout=subprocess.PIPE,
            stderr=subprocess.DEVNULL,
            cwd=cwd,
            env=env,
        )
        self.inbox = queue.Queue()
        self.next_id = 0
        self.notifications = []
        threading.Thread(target=self._reader, daemon=True).start()

    def _reader(self):
        out = self.proc.stdout
        while True:
            length = None
            while True:
                line = out.readline()
                if not line:
                    self.inbox.put(None)
                    return
                line = line.strip()
                if not line:
                    break
                if line.lower().startswith(b"content-length:"):
                    length = int(line.split(b":")[1])
            body = out.read(length)
            self.inbox.put(json.loads(body.decode("utf-8")))

    def _send(self, msg):
        body = json.dumps(msg).encode("utf-8")
        self.proc.stdin.write(b"Content-Length: %d\r\n\r\n" % len(body) + body)
        self.proc.stdin.flush()

    def notify(self, method, params):
        self._send({"jsonrpc": "2.0", "method": method, "params": params})

    def request(self, method, params):
        """Returns (response, messages that arrived before the response)."""
        self.next_id += 1
        self._send({"jsonrpc": "2.0", "id": self.next_id, "method": method, "params": params})
        before = []
        while True:
            msg = self.inbox.get(timeout=60)
            if msg is None:
                raise RuntimeError("server closed the connection")
            if "id" in msg and "method" not in msg and msg["id"] == self.next_id:
                return msg, before
            before.append(msg)

    def wait_notification(self, method):
        while True:
            msg = self.inbox.get(timeout=60)
            if msg is None:
                raise RuntimeError("server closed the connection")
            if msg.get("method") == method:
                return msg

    def initialize(self, capabilities, folder=None):
        params = {"processId": None, "rootUri": None, "capabilities": capabilities}
        if folder is not None:
            params["workspaceFolders"] = [{"uri": folder, "name": "w"}]
        response, _ = self.request("initialize", params)
        self.notify("initialized", {})
        return response["result"]

    def open(self, uri, text, version=1):
        self.notify(
            "textDocument/didOpen",
            {"textDocument": {"uri": uri, "languageId": "61131-3-st", "version": version, "text": text}},
        )
        return self.wait_notification("textDocument/publishDiagnostics")

    def change(self, uri, text, version):
        self.notify(
            "textDocument/didChange",
            {"textDocument": {"uri": uri, "version": version}, "contentChanges": [{"text": text}]},
        )
        return self.wait_notification("textDocument/publishDiagnostics")

    def tokens(self, uri):
        response, before = self.request("textDocument/semanticTokens/full", {"textDocument": {"uri": uri}})
        return response, before

    def stop(self):
        try:
            self.request("shutdown", None)
            self.notify("exit", None)
            self.proc.stdin.close()
            self.proc.wait(timeout=30)
        except Exception:
            self.proc.kill()
        return self.proc.returncode


# --------------------------------------------------------------------------
# Documents with known lexemes
# --------------------------------------------------------------------------

KEYWORDS = [
    "PROGRAM", "END_PROGRAM", "VAR", "END_VAR", "VAR_INPUT", "IF", "THEN", "ELSE", "END_IF", "WHILE", "DO",
    "END_WHILE", "FUNCTION_BLOCK", "END_FUNCTION_BLOCK", "BOOL", "INT", "DINT", "REAL", "TRUE", "FALSE", "AT",
    "TYPE", "END_TYPE", "STRUCT", "END_STRUCT", "Program", "end_var", "Return", "CASE", "OF", "END_CASE", "FOR",
    "TO", "BY", "END_FOR", "REPEAT", "UNTIL", "END_REPEAT", "TIME", "WORD",
]
MODIFIERS = ["RETAIN", "CONSTANT", "constant"]
IDENTIFIERS = ["v_motor", "v_speed2", "x_1", "Start_Button", "q_out", "v_a", "counter_9", "z__z"]
OPERATORS = ["+", "-", "*", "/", "**", "=", "<>", "<", ">", "<=", ">=", ":=", "&", "OR", "XOR", "AND", "MOD", "NOT", "not"]
ADDRESSES = ["%IX1.2", "%QW3", "%MD4.5.6", "%I*", "%QB7", "%mx0.1"]
PLAIN = [";", ",", ":", "(", ")", "[", "]", "10", "16#FF", "2.5", "'text'", "'größe 温'", "\"wé\"", "#"]
COMMENT_BODIES = ["", " ", " plain ", " größe → 温度 ", " a ( b ) c ", " éè ; := IF "]


def make_document(rng, newline):
    """Returns (text, expected) where expected maps (start, end) in bytes to a legend name."""
    pieces = []  # (text, legend name or None)

    def comment(multiline):
        body = rng.choice(COMMENT_BODIES)
        if multiline:
            body = body + newline + "   " + rng.choice(COMMENT_BODIES) + newline + rng.choice(COMMENT_BODIES)
        pieces.append(("(*" + body + "*)", "comment"))

    def trivia():
        r = rng.random()
        if r < 0.5:
            pieces.append((rng.choice([" ", "  ", "\t", " \x0c "]), None))
        elif r < 0.65:
            pieces.append((" ", None))
            comment(False)
            pieces.append((" ", None))
        elif r < 0.75:
            pieces.append((" ", None))
            comment(True)
            pieces.append((" ", None))
        elif r < 0.9:
            pieces.append((newline + rng.choice(["", "  ", "\t"]), None))
            if rng.random() < 0.4:
                comment(rng.random() < 0.3)
                pieces.append((" ", None))
        else:
            pieces.append((newline + newline, None))

    for _ in range(rng.randint(5, 60)):
        r = rng.random()
        if r < 0.3:
            pieces.append((rng.choice(KEYWORDS), "keyword"))
        elif r < 0.35:
            pieces.append((rng.choice(MODIFIERS), "modifier"))
        elif r < 0.6:
            pieces.append((rng.choice(IDENTIFIERS), "variable"))
        elif r < 0.75:
            pieces.append((rng.choice(OPERATORS), "operator"))
        elif r < 0.82:
            pieces.append((rng.choice(ADDRESSES), "operator"))
        else:
            pieces.append((rng.choice(PLAIN), None))
        trivia()

    text = ""
    expected = {}
    offset = 0
    for piece, name in pieces:
        size = len(piece.encode("utf-8"))
        if name is not None:
            expected[(offset, offset + size)] = name
        offset += size
        text += piece
    return text, expected


def check(text, result, legend, expected):
    """Returns (problems, decoded) for a tokens result on a valid document."""
    problems = []
    if result is None or "data" not in result:
        return ["no tokens for a valid document: %r" % (result,)], []
    data = result["data"]
    if len(data) % 5 != 0:
        return ["length of data is not a multiple of 5"], []
    raw = text.encode("utf-8")
    line_starts = [0]
    for i, b in enumerate(raw):
        if b == 0x0A:
            line_starts.append(i + 1)
    line, col = 0, 0
    prev_end = -1
    prev_start = -1
    decoded = []
    for i in range(0, len(data), 5):
        dl, ds, length, ttype, mods = data[i : i + 5]
        if dl < 0 or ds < 0 or length <= 0:
            problems.append("negative delta or empty token at %d" % i)
        line += dl
        col = col + ds if dl == 0 else ds
        if line >= len(line_starts):
            problems.append("line %d is outside the document" % line)
            break
        start = line_starts[line] + col
        end = start + length
        if start <= prev_start:
            problems.append("token at byte %d does not start after the previous one" % start)
        if start < prev_end:
            problems.append("token at byte %d overlaps the previous one" % start)
        prev_start, prev_end = start, end
        if ttype >= len(legend):
            problems.append("token type %d is outside the legend" % ttype)
            continue
        name = legend[ttype]
        decoded.append((start, end, name, ttype))
        if (start, end) not in expected:
            problems.append("bytes %d..%d (%r) are not exactly one highlighted lexeme" % (start, end, raw[start:end]))
        elif expected[(start, end)] != name:
            problems.append(
                "%r is announced as %s but is %s" % (raw[start:end], name, expected[(start, end)])
            )
    return problems, decoded


# --------------------------------------------------------------------------
# The demo
# --------------------------------------------------------------------------

from urllib.parse import quote


def uri_of(path):
    return "file://" + quote(path)


class Demo:
    def __init__(self):
        self.failures = []
        self.seen = {"null": 0, "tokens": 0}

    def fail(self, what):
        self.failures.append(what)
        print("   PROBLEM: " + what)

    def ask(self, lsp, legend, title, uri, text, expected, must_be_null=False, may_be_null=False):
        """Asks for the tokens of `uri` whose current text is `text` (None: there is no text)."""
        response, before = lsp.tokens(uri)
        if "error" in response:
            self.fail("%s: error response %r" % (title, response["error"]))
            return None
        result = response["result"]
        if result is None:
            self.seen["null"] += 1
            print("   %-66s -> null" % title)
            if not (must_be_null or may_be_null):
                self.fail("%s: null for a document the client sent" % title)
            return None
        self.seen["tokens"] += 1
        print("   %-66s -> %d tokens" % (title, len(result["data"]) // 5))
        if must_be_null:
            self.fail("%s: tokens although there is no valid text" % title)
            return result
        problems, _ = check(text, result, legend, expected)
        for p in problems[:5]:
            self.fail("%s: %s" % (title, p))
        return result


def assemble(pieces):
    text, expected, offset = "", {}, 0
    for piece, name in pieces:
        size = len(piece.encode("utf-8"))
        if name is not None:
            expected[(offset, offset + size)] = name
        offset += size
        text += piece
    return text, expected


def write(path, text, encoding="utf-8"):
    with open(path, "wb") as f:
        f.write(text.encode(encoding))


def listing(root):
    out = []
    for base, dirs, files in os.walk(root):
        for name in dirs + files:
            out.append(os.path.relpath(os.path.join(base, name), root))
    return sorted(out)


PROGRAM = "PROGRAM %s\r\nVAR\r\n  x : INT; (* größe *)\r\nEND_VAR\r\nx := 1;\r\nEND_PROGRAM\r\n"


def session(demo, binary, root, run):
    tmp = os.path.join(root, "tmp")
    ws = os.path.join(root, "wörk space")
    cwd = os.path.join(root, "cwd%d" % run)
    os.mkdir(cwd)
    rng = random.Random(1000 + run)

    lsp = Lsp(binary, cwd, tmp)
    result = lsp.initialize({}, folder=uri_of(ws))
    legend = result["capabilities"]["semanticTokensProvider"]["legend"]["tokenTypes"]
    print("== run %d of the server (working directory %s)" % (run, os.path.basename(cwd)))

    # 0. a file of the workspace folder that was there at the start
    text, expected = START_DOC
    demo.ask(lsp, legend, "workspace file from the start, never opened", uri_of(os.path.join(ws, "start.st")), text, expected, may_be_null=True)

    # 1. a file that appears after the start, never opened
    late = os.path.join(ws, "late%d.st" % run)
    text, expected = make_document(rng, "\r\n")
    write(late, text)
    demo.ask(lsp, legend, "file created after the start, never opened", uri_of(late), text, expected, may_be_null=True)

    # 2. ... changes on disk between two requests: no old answer
    text, expected = make_document(rng, "\n")
    write(late, text)
    demo.ask(lsp, legend, "same file, other content on disk now", uri_of(late), text, expected, may_be_null=True)
    demo.ask(lsp, legend, "same request again", uri_of(late), text, expected, may_be_null=True)

    # 3. ... now holds text that is not a token
    write(late, text + " ? ")
    demo.ask(lsp, legend, "same file, now with text that is no token", uri_of(late), None, None, must_be_null=True)
    write(late, "x := 'ä'; ä")
    demo.ask(lsp, legend, "same file, non-ASCII text outside comment and string", uri_of(late), None, None, must_be_null=True)

    # 4. the client opens it with text that differs from the disk: the client's text counts
    disk_text, disk_expected = make_document(rng, "\n")
    write(late, disk_text)
    text, expected = make_document(rng, "\r\n")
    lsp.open(uri_of(late), text)
    demo.ask(lsp, legend, "opened with text that is not the text on disk", uri_of(late), text, expected)
    write(late, "? not valid on disk")
    demo.ask(lsp, legend, "opened, disk content became invalid", uri_of(late), text, expected)
    text, expected = make_document(rng, "\n")
    lsp.change(uri_of(late), text, 2)
    demo.ask(lsp, legend, "edited by the client", uri_of(late), text, expected)
    lsp.change(uri_of(late), text + " $", 3)
    demo.ask(lsp, legend, "edited by the client to invalid text", uri_of(late), None, None, must_be_null=True)
    lsp.change(uri_of(late), text, 4)
    demo.ask(lsp, legend, "edited back", uri_of(late), text, expected)

    # 5. another name for the opened file: that document was never opened, its text is on disk
    write(late, disk_text)
    alias = os.path.join(ws, "alias%d.st" % run)
    os.symlink(late, alias)
    demo.ask(lsp, legend, "link to the opened file (never opened under this name)", uri_of(alias), disk_text, disk_expected, may_be_null=True)
    # (the server's URL parser removes "." and ".." segments: this is the opened document)
    dotted = "file://" + quote(os.path.join(ws, ".", "sub", "..", "late%d.st" % run))
    demo.ask(lsp, legend, "URI of the opened file with /./ and /../ in it", dotted, text, expected)

    # 6. places that the start does not look at
    sub = os.path.join(ws, "sub")
    os.makedirs(sub, exist_ok=True)
    text, expected = make_document(rng, "\r\n")
    write(os.path.join(sub, "deep.st"), text)
    demo.ask(lsp, legend, "file in a sub directory, never opened", uri_of(os.path.join(sub, "deep.st")), text, expected, may_be_null=True)
    write(os.path.join(ws, "notes.txt"), text)
    demo.ask(lsp, legend, "file with another extension, never opened", uri_of(os.path.join(ws, "notes.txt")), text, expected, may_be_null=True)
    outside = os.path.join(root, "outside.st")
    write(outside, text)
    demo.ask(lsp, legend, "file outside of the workspace folder, never opened", uri_of(outside), text, expected, may_be_null=True)

    # 7. other encodings (the text of the document is the decoded text)
    ltext, lexpected = assemble([("(* größe ä\r\n é *)", "comment"), (" ", None), ("VAR", "keyword"), (" ", None),
                                 ("x_1", "variable"), (" : ", None), ("INT", "keyword"), (";", None), ("(*ÿ*)", "comment"),
                                 (" ", None), ("'ü'", None), (" ", None), ("END_VAR", "keyword"), ("\r\n", None),
                                 ("x_1", "variable"), (" ", None), (":=", "operator"), (" ", None), ("%IX1.2", "operator")])
    write(os.path.join(ws, "latin.txt"), ltext, "cp1252")
    demo.ask(lsp, legend, "file in Windows-1252, never opened", uri_of(os.path.join(ws, "latin.txt")), ltext, lexpected, may_be_null=True)
    write(os.path.join(ws, "bom.txt"), "﻿VAR (* ü *) x")
    btext = "VAR (* ü *) x"
    demo.ask(lsp, legend, "file in UTF-8 with a byte order mark, never opened", uri_of(os.path.join(ws, "bom.txt")), btext,
             {(0, 3): "keyword", (4, 12): "comment", (13, 14): "variable"}, may_be_null=True)

    # 8. nothing to read
    demo.ask(lsp, legend, "file that does not exist", uri_of(os.path.join(ws, "missing.st")), None, None, must_be_null=True)
    demo.ask(lsp, legend, "a directory", uri_of(sub), None, None, must_be_null=True)
    fifo = os.path.join(ws, "pipe%d.st" % run)
    os.mkfifo(fifo)
    demo.ask(lsp, legend, "a named pipe without a writer (must not wait)", uri_of(fifo), None, None, must_be_null=True)
    os.remove(fifo)
    secret = os.path.join(ws, "unreadable%d.st" % run)
    write(secret, "VAR")
    os.chmod(secret, 0)
    if os.geteuid() != 0:
        demo.ask(lsp, legend, "a file without read permission", uri_of(secret), None, None, must_be_null=True)
    os.chmod(secret, 0o600)
    os.remove(secret)
    demo.ask(lsp, legend, "not a file: URI", "untitled:Untitled-1", None, None, must_be_null=True)

    # 9. looking at a file does not make it part of the project
    a = uri_of(os.path.join(ws, "opened_a.st"))
    first = lsp.open(a, PROGRAM % "main")["params"]["diagnostics"]
    twin = os.path.join(sub, "twin.st")
    write(twin, PROGRAM % "main")
    lsp.tokens(uri_of(twin))
    second = lsp.change(a, PROGRAM % "main", 2)["params"]["diagnostics"]
    if first != second:
        demo.fail("diagnostics of an opened document differ after another file was looked at")
    else:
        print("   diagnostics of an opened document before / after looking at a twin file: %d / %d (same)" % (len(first), len(second)))

    code = lsp.stop()
    if code != 0:
        demo.fail("server exit code %r" % code)
    os.remove(alias)


def main():
    global START_DOC
    workspace = os.path.abspath(sys.argv[1])
    binary = os.path.join(workspace, "target", "debug", "ironplcc")
    demo = Demo()
    root = tempfile.mkdtemp(prefix="c15b-")
    try:
        os.mkdir(os.path.join(root, "tmp"))
        ws = os.path.join(root, "wörk space")
        os.mkdir(ws)
        START_DOC = make_document(random.Random(5), "\r\n")
        write(os.path.join(ws, "start.st"), START_DOC[0])
        for run in (1, 2):
            before = listing(root)
            session(demo, binary, root, run)
        left = [f for f in listing(os.path.join(root, "tmp")) if f not in ("ironplcc", "ironplcc/ironplcc.log")]
        if left:
            demo.fail("the server left files in its TMPDIR: %r" % left)
        else:
            print("== in TMPDIR and the working directories there is nothing but the log file of the server")
        for run in (1, 2):
            if os.listdir(os.path.join(root, "cwd%d" % run)):
                demo.fail("the server left files in its working directory")
    finally:
        shutil.rmtree(root, ignore_errors=True)

    print("== answers: %d with tokens, %d null; %d problems" % (demo.seen["tokens"], demo.seen["null"], len(demo.failures)))
    return 1 if demo.failures else 0


if __name__ == "__main__":
    sys.exit(main())
