#!/usr/bin/env python3
"""Change B: a syntax error (P0002) also shows where the affected declaration starts.

usage: demo.py <path of the `compiler` workspace>   (binary: $1/target/debug/ironplcc)

Part 1 prints what `check` writes for one set with a file that does not parse
(with the change there is a second label in the snippet).
Part 2 is a small independent check of property C03 around the changed
behaviour: files that do not parse (seven shapes) are placed among 0..4 valid
files, in every order of the arguments and as a directory, also with valid
declarations that reuse the name of the broken declaration. Every such check
must fail, must report P0002 with its primary location in the broken file at
the expected line, and a label "declaration that starts here", if printed,
must sit on the expected line of that same file.

Exit status 0: the property held on everything tried (with or without the change).
"""
import itertools
import os
import re
import shutil
import subprocess
import sys
import tempfile

ANSI = re.compile(r'\x1b\[[0-9;]*m')
HINT = 'declaration that starts here'

VALID = [
    ('level.st', 'TYPE\n  LEVEL : (LOW, HIGH) := LOW;\nEND_TYPE\n'),
    ('fb1.st', 'FUNCTION_BLOCK FB1\nVAR\n  x : BOOL;\nEND_VAR\nEND_FUNCTION_BLOCK\n'),
    ('st0.st', 'TYPE\n  ST0 : STRUCT\n    a : BOOL;\n    b : INT;\n  END_STRUCT;\nEND_TYPE\n'),
    ('pr1.st', 'PROGRAM PR1\nVAR\n  x : BOOL;\nEND_VAR\n  x := TRUE;\nEND_PROGRAM\n'),
]

# name -> (text, line of the primary label, line of the opening keyword or None, valid text reusing the name)
FAULTS = {
    'in-function-block': (
        'FUNCTION_BLOCK F1\nVAR\n  x : ;\nEND_VAR\nEND_FUNCTION_BLOCK\n', 3, 1,
        'FUNCTION_BLOCK F1\nVAR\n  x : BOOL;\nEND_VAR\nEND_FUNCTION_BLOCK\n'),
    'second-declaration-of-file': (
        'TYPE\n  OTHER : (P, Q) := P;\nEND_TYPE\nFUNCTION_BLOCK F1\nVAR\n  x : ;\nEND_VAR\nEND_FUNCTION_BLOCK\n', 6, 4,
        'TYPE\n  F1 : (R, S) := R;\nEND_TYPE\n'),
    'end-keyword-missing': (
        'FUNCTION_BLOCK F1\nVAR\n  x : BOOL;\nEND_VAR\n\nFUNCTION_BLOCK F2\nVAR\n  y : BOOL;\nEND_VAR\nEND_FUNCTION_BLOCK\n', 6, 1,
        'FUNCTION_BLOCK F2\nVAR\n  x : BOOL;\nEND_VAR\nEND_FUNCTION_BLOCK\n'),
    'outside-any-declaration': (
        'TYPE\n  OTHER : (P, Q) := P;\nEND_TYPE\nx := 1;\n', 4, None,
        'TYPE\n  OTHER : (P, Q) := P;\nEND_TYPE\n'),
    'in-type': (
        'TYPE\n  E1 : (A, B := A;\nEND_TYPE\n', 2, 1,
        'TYPE\n  E1 : (A, B) := A;\nEND_TYPE\n'),
    'in-configuration': (
        'CONFIGURATION config\nRESOURCE resource1 ON PLC\nTASK plc_task(INTERVAL := T#100ms, PRIORITY := 1);\n'
        'PROGRAM plc_task_instance WITH plc_task : ;\nEND_RESOURCE\nEND_CONFIGURATION\n', 4, 1,
        'FUNCTION_BLOCK config\nVAR\n  x : BOOL;\nEND_VAR\nEND_FUNCTION_BLOCK\n'),
    'after-non-ascii-comment': (
        '(* äöü — ☃ *)\nFUNCTION_BLOCK F1\nVAR\n  x : ;\nEND_VAR\nEND_FUNCTION_BLOCK\n', 4, 2,
        'FUNCTION_BLOCK F1\nVAR\n  x : BOOL;\nEND_VAR\nEND_FUNCTION_BLOCK\n'),
}


def run_check(binary, args):
    r = subprocess.run([binary, 'check'] + args, capture_output=True)
    out = r.stdout.decode('utf-8', 'replace')
    err = ANSI.sub('', r.stderr.decode('utf-8', 'replace'))
    failed = r.returncode != 0 and 'OK' not in out
    return failed, r.returncode, err


def diagnostics(err):
    """Splits the rendered diagnostics: (code, file, line, [lines of hint labels])."""
    result = []
    current = None
    last_line_no = None
    for line in err.splitlines():
        m = re.match(r'error\[(P\d+)\]', line)
        if m:
            current = {'code': m.group(1), 'file': None, 'line': None, 'hints': [], 'hint_files': []}
            result.append(current)
            last_line_no = None
            continue
        if current is None:
            continue
        m = re.match(r'\s*┌─ (.*):(\d+):(\d+)\s*$', line)
        if m:
            if current['file'] is None:
                current['file'] = m.group(1)
                current['line'] = int(m.group(2))
            current['snippet_file'] = m.group(1)
            continue
        m = re.match(r'\s*(\d+) │', line)
        if m:
            last_line_no = int(m.group(1))
        if HINT in line:
            current['hints'].append(last_line_no)
            current['hint_files'].append(current.get('snippet_file'))
    return result


def main():
    if len(sys.argv) != 2:
        print(__doc__)
        return 2
    binary = os.path.join(sys.argv[1], 'target', 'debug', 'ironplcc')
    if not os.path.exists(binary):
        print('no binary at', binary)
        return 2

    violations = []
    runs = 0
    hints_seen = 0

    # ---- Part 1: the visible difference -------------------------------
    tmp = tempfile.mkdtemp(prefix='c03-demo-b-')
    try:
        a = os.path.join(tmp, VALID[0][0])
        open(a, 'w').write(VALID[0][1])
        b = os.path.join(tmp, 'broken.st')
        open(b, 'w').write(FAULTS['end-keyword-missing'][0])
        failed, rc, err = run_check(binary, [a, b])
        print('[difference] check of a valid file and a file with a missing END_FUNCTION_BLOCK (exit %d):' % rc)
        for line in err.splitlines():
            print('    | ' + line.replace(tmp, '<tmp>'))
        print('[difference] labels "%s" in this output: %d' % (HINT, err.count(HINT)))
    finally:
        shutil.rmtree(tmp)

    # ---- Part 2: the property around the change -------------------------
    for fault, (text, primary_line, opener_line, same_name) in FAULTS.items():
        for n_valid in (0, 1, 2, 4):
            for reuse_name in (False, True):
                for faulty_name in ('aaa_faulty.st', 'zzz_faulty.st'):
                    tmp = tempfile.mkdtemp(prefix='c03-demo-b-')
                    try:
                        root = os.path.join(tmp, 'set')
                        os.makedirs(root)
                        files = []
                        for name, vtext in VALID[:n_valid]:
                            p = os.path.join(root, name)
                            open(p, 'w').write(vtext)
                            files.append(p)
                        if reuse_name:
                            p = os.path.join(root, 'mmm_same_name.st')
                            open(p, 'w').write(same_name)
                            files.append(p)
                        faulty = os.path.join(root, faulty_name)
                        open(faulty, 'w', encoding='utf-8').write(text)
                        files.append(faulty)

                        if len(files) <= 3:
                            orders = list(itertools.permutations(files))
                        else:  # every rotation: the faulty file at every position
                            orders = [files[i:] + files[:i] for i in range(len(files))]
                        arg_lists = [[root]] + [list(o) for o in orders]

                        for args in arg_lists:
                            failed, rc, err = run_check(binary, args)
                            runs += 1
                            where = (fault, n_valid, reuse_name, faulty_name, [os.path.basename(x) for x in args])
                            if not failed:
                                violations.append(('not a failure', where, rc))
                                continue
                            syntax = [d for d in diagnostics(err) if d['code'] == 'P0002']
                            if len(syntax) != 1:
                                violations.append(('expected one P0002, got %d' % len(syntax), where))
                                continue
                            d = syntax[0]
                            if os.path.realpath(d['file']) != os.path.realpath(faulty) or d['line'] != primary_line:
                                violations.append(('P0002 at %s:%s' % (d['file'], d['line']), where))
                            for hint_line, hint_file in zip(d['hints'], d['hint_files']):
                                hints_seen += 1
                                if opener_line is None:
                                    violations.append(('hint although outside of a declaration', where))
                                elif hint_line != opener_line or os.path.realpath(hint_file) != os.path.realpath(faulty):
                                    violations.append(('hint at %s:%s, expected line %s' % (hint_file, hint_line, opener_line), where))
                    finally:
                        shutil.rmtree(tmp)

    print('[property] %d checks of sets that hold a file that does not parse; '
          '%d labels "%s" seen (all on the expected line of the broken file)' % (runs, hints_seen, HINT))
    if violations:
        print('[property] VIOLATED:')
        for v in violations[:40]:
            print('    ', v)
        return 1
    print('[property] every set failed with P0002 located in the broken file: C03 holds on what was tried')
    return 0


if __name__ == '__main__':
    sys.exit(main())
