#!/usr/bin/env python3
"""Demo / independent check for change B (byte-order mark decides the decoder
first, the content is validated while it is read and decoded block by block).

usage: demo.py <path of the `compiler` workspace>   (binary: $1/target/debug/ironplcc)

Exits 0 when property C14 holds on everything tried. The decoding rule is
written down here independently (in Python); every file is compared with a
"twin" that holds the expected decoded text in another encoding.
"""
import os, random, re, shutil, signal, subprocess, sys, tempfile, threading, time

BIN = os.path.join(os.path.abspath(sys.argv[1]), "target", "debug", "ironplcc")
BLOCK = 64 * 1024
ANSI = re.compile(r"\x1b\[[0-9;]*m")
failures = []
runs = 0


def fail(msg):
    if len(failures) < 50:
        failures.append(msg)


def cp1252(data):
    # the WHATWG table: the five bytes Python leaves undefined are C1 controls
    return "".join(chr(b) if b in (0x81, 0x8D, 0x8F, 0x90, 0x9D) else bytes([b]).decode("cp1252") for b in data) \
        if any(b in (0x81, 0x8D, 0x8F, 0x90, 0x9D) for b in data) else data.decode("cp1252")


def expected_text(data):
    """the rule: a byte-order mark decides; else UTF-8 if valid; else Windows-1252.
    None = not decodable (marked, but not valid in the marked encoding)"""
    for bom, enc in ((b"\xef\xbb\xbf", "utf-8"), (b"\xff\xfe", "utf-16-le"), (b"\xfe\xff", "utf-16-be")):
        if data.startswith(bom):
            try:
                return data[len(bom):].decode(enc)
            except UnicodeDecodeError:
                return None
    try:
        return data.decode("utf-8")
    except UnicodeDecodeError:
        return cp1252(data)


def run(args, env):
    global runs
    runs += 1
    r = subprocess.run([BIN] + args, capture_output=True, env=env, timeout=600)
    return r.returncode, r.stdout.decode("utf-8", "replace"), ANSI.sub("", r.stderr.decode("utf-8", "replace"))


def diagnostics(stderr):
    found, code = [], None
    for line in stderr.splitlines():
        m = re.match(r"^error\[(P\d+)\]", line)
        if m:
            code = m.group(1)
            continue
        m = re.match(r"^\s*┌─ (.*):(\d+):(\d+)$", line)
        if m and code:
            found.append((code, int(m.group(2)), int(m.group(3)), m.group(1)))
            code = None
    return found


def inside(text, line, col):
    # lines as the renderer sees them: ended by \n
    lines = text.split("\n")
    return 1 <= line <= len(lines) and 1 <= col <= len(lines[line - 1]) + 1


class Work:
    def __init__(self):
        self.root = tempfile.mkdtemp(prefix="c14-demo-B-")
        self.tmp = os.path.join(self.root, "tmp")
        os.mkdir(self.tmp)
        self.env = dict(os.environ, TMPDIR=self.tmp)
        self.n = 0

    def outcome(self, data, text, label, cmds=("check", "tokenize")):
        """runs the commands on a file with the bytes `data`; `text` is what it should decode to"""
        self.n += 1
        folder = os.path.join(self.root, "f%d" % self.n)
        os.mkdir(folder)
        path = os.path.join(folder, "prog.st")
        with open(path, "wb") as f:
            f.write(data)
        result = []
        for cmd in cmds:
            code, out, err = run([cmd, path], self.env)
            diags = diagnostics(err)
            if code not in (0, 1) or "panicked" in err:
                fail("%s: %s crashed (exit %s) %s" % (label, cmd, code, err[-300:]))
            if code == 0 and diags:
                fail("%s: %s reports problems but says OK" % (label, cmd))
            if code != 0 and not diags:
                fail("%s: %s fails without a coded problem" % (label, cmd))
            if text is None:
                if [d[0] for d in diags] != ["P0028"]:
                    fail("%s: %s expected P0028 only, got %s" % (label, cmd, diags))
            else:
                for (pcode, line, col, where) in diags:
                    if where == path and not inside(text, line, col):
                        fail("%s: %s %s at %d:%d is outside the decoded text" % (label, cmd, pcode, line, col))
            result.append((cmd, code, out.replace(folder, "<dir>"),
                           [(c, l, k, w.replace(folder, "<dir>")) for (c, l, k, w) in diags]))
        shutil.rmtree(folder)
        return result

    def same(self, data, label, cmds=("check", "tokenize")):
        """the file must behave like its decoded text stored in another encoding"""
        text = expected_text(data)
        got = self.outcome(data, text, label, cmds)
        if text is None:
            return got
        if data.startswith(b"\xff\xfe"):
            twin = b"\xef\xbb\xbf" + text.encode("utf-8")
        else:
            twin = b"\xff\xfe" + text.encode("utf-16-le")
        want = self.outcome(twin, text, label + " (twin)", cmds)
        if got != want:
            fail("%s: differs from the same text in another encoding\n   got  %r\n   want %r" % (
                label, str(got)[:300], str(want)[:300]))
        return got


def five(text):
    return {
        "utf8": text.encode("utf-8"),
        "utf8-bom": b"\xef\xbb\xbf" + text.encode("utf-8"),
        "utf16le-bom": b"\xff\xfe" + text.encode("utf-16-le"),
        "utf16be-bom": b"\xfe\xff" + text.encode("utf-16-be"),
        "cp1252": text.encode("cp1252"),
    }


def log_lines(work, data):
    """what the tool writes about decoding into its log file ($TMPDIR/ironplcc/ironplcc.log) with -vvvv"""
    folder = os.path.join(work.root, "log")
    os.makedirs(folder, exist_ok=True)
    path = os.path.join(folder, "prog.st")
    with open(path, "wb") as f:
        f.write(data)
    run(["-v", "-v", "-v", "-v", "check", path], work.env)
    lines = []
    with open(os.path.join(work.tmp, "ironplcc", "ironplcc.log"), encoding="utf-8", errors="replace") as f:
        for line in f:
            m = re.match(r"^\[(\w+) [^ ]*source\.rs:\d+ [^\]]*\] (.*)$", line.rstrip("\n"))
            if m:
                lines.append("%s %s" % (m.group(1), m.group(2).replace(folder, "<dir>")))
    return lines


def fifo_case(work):
    """a marked file whose first block is already not valid: is the rest waited for?"""
    folder = os.path.join(work.root, "fifo")
    os.mkdir(folder)
    path = os.path.join(folder, "prog.st")
    os.mkfifo(path)
    hold = 3.0

    def writer():
        try:
            fd = os.open(path, os.O_WRONLY)
            try:
                # mark, then lone low surrogates: not UTF-16
                os.write(fd, b"\xff\xfe" + b"\x00\xdc" * (BLOCK // 2 + 16))
                time.sleep(hold)  # ... the "file" is not at its end yet
            finally:
                os.close(fd)
        except OSError:
            pass  # the reader went away

    signal.signal(signal.SIGPIPE, signal.SIG_IGN)
    t = threading.Thread(target=writer)
    t.start()
    started = time.time()
    code, out, err = run(["check", folder], work.env)
    elapsed = time.time() - started
    t.join()
    codes = [d[0] for d in diagnostics(err)]
    if code != 1 or codes != ["P0028"]:
        fail("fifo: expected exit 1 with P0028, got %s %s" % (code, codes))
    return elapsed, hold, codes


def main():
    signal.alarm(3000)  # never hang
    rnd = random.Random(14)
    work = Work()
    try:
        print("== 1. what the log file says about decoding (-v -v -v -v, $TMPDIR/ironplcc/ironplcc.log)")
        prog = "PROGRAM p\nVAR\n  x : INT; (* café € *)\nEND_VAR\n  x := 1;\nEND_PROGRAM\n"
        for enc, data in list(five(prog).items()) + [("utf16le-bom, odd length", b"\xff\xfe" + prog.encode("utf-16-le") + b"\x00")]:
            print("  %s:" % enc)
            for line in log_lines(work, data):
                print("      " + line)

        print("== 2. a marked file that is not valid in its first block, the writer holds the file open")
        elapsed, hold, codes = fifo_case(work)
        print("  verdict %s after %.1f s (the writer closes after %.0f s): %s" % (
            codes, elapsed, hold,
            "did not wait for the rest" if elapsed < hold - 0.5 else "read to the end first"))

        print("== 3. sequences that cross the 64 KiB block boundary, five encodings")
        head = "PROGRAM p\nVAR\n  x : INT;\nEND_VAR\n"
        tail = " *)\n  x := 1 +;\nEND_PROGRAM\n"
        count = 0
        for target in list(range(BLOCK // 2 - 4, BLOCK // 2 + 3)) + list(range(BLOCK - 5, BLOCK + 3)) + \
                list(range(2 * BLOCK - 5, 2 * BLOCK + 2)):
            # `target` characters of ASCII, then non-ASCII characters, so that in each
            # encoding some boundary falls inside a character at some `target`
            pad_len = target - len(head) - 3
            lines = []
            while pad_len > 0:
                n = min(pad_len, 100)
                lines.append("-" * (n - 1) + "\n")
                pad_len -= n
            text = head + "(* " + "".join(lines) + "é€éüñ€ß" + tail
            outcomes = {}
            for enc, data in five(text).items():
                outcomes[enc] = work.outcome(data, text, "boundary %d %s" % (target, enc))
            for enc, o in outcomes.items():
                if o != outcomes["utf8"]:
                    fail("boundary %d: %s differs from utf8" % (target, enc))
            if [d[0] for d in outcomes["utf8"][0][3]][:1] != ["P0002"]:
                fail("boundary %d: expected the syntax error, got %s" % (target, outcomes["utf8"][0][3]))
            count += 1
        print("  %d texts x 5 encodings x (check, tokenize): %s" % (count, "all alike" if not failures else "DIFFERENCES"))

        print("== 4. Windows-1252 noticed late: valid UTF-8 for more than two blocks, then one byte that is not")
        body = ("(* " + "é€ " * 30 + "*)\n").encode("utf-8")
        for where in ("last byte", "byte after the second block", "first byte of the third block is a continuation"):
            data = bytearray(head.encode() + body * (2 * BLOCK // len(body) + 40) + b"  x := 1 +;\nEND_PROGRAM\n")
            if where == "last byte":
                data += b"\xe9"
            elif where == "byte after the second block":
                data[2 * BLOCK + 1] = 0xE9
            else:
                data[2 * BLOCK] = 0xA9
                data[2 * BLOCK - 1] = 0x20
            data = bytes(data)
            try:
                data.decode("utf-8")
                raise SystemExit("bad test: still UTF-8")
            except UnicodeDecodeError:
                pass
            got = work.same(data, "late cp1252 (%s)" % where)
            print("  %-50s check %s" % (where, [(c, "%d:%d" % (l, k)) for (c, l, k, w) in got[0][3]]))

        print("== 5. every byte value in a comment, a string, between tokens and inside an identifier")
        contexts = {
            "comment": (b"PROGRAM p\nVAR\n  x : INT; (* a", b"b *)\nEND_VAR\n  x := 1 +;\nEND_PROGRAM\n"),
            "string": (b"PROGRAM p\nVAR\n  s : STRING := 'a", b"b';\nEND_VAR\n  s := 1 +;\nEND_PROGRAM\n"),
            "between": (b"PROGRAM p\nVAR\n  x : INT;\nEND_VAR\n  x :=", b"1 +;\nEND_PROGRAM\n"),
            "identifier": (b"PROGRAM p\nVAR\n  ab", b"cd : INT;\nEND_VAR\n  x := 1 +;\nEND_PROGRAM\n"),
        }
        for name, (before, after) in contexts.items():
            codes = {}
            for b in range(256):
                got = work.same(before + bytes([b]) + after, "byte 0x%02X in %s" % (b, name), cmds=("check",))
                key = tuple(c for (c, l, k, w) in got[0][3])
                codes[key] = codes.get(key, 0) + 1
            print("  %-10s %s" % (name, ", ".join("%s x%d" % ("+".join(k) or "OK", v) for k, v in sorted(codes.items()))))

        print("== 6. random binary files, up to four blocks long; some behind a byte-order mark")
        tally = {}
        for i in range(40):
            size = rnd.choice([0, 1, 2, 3, 5, 100, 5000, BLOCK - 1, BLOCK, BLOCK + 1, 3 * BLOCK + 7, rnd.randrange(4 * BLOCK)])
            data = bytes(rnd.getrandbits(8) for _ in range(size))
            if i % 4 == 3:
                data = rnd.choice([b"\xef\xbb\xbf", b"\xff\xfe", b"\xfe\xff"]) + data
            # (tokenize reports and renders every unmatched character: only for the small ones)
            got = work.same(data, "random #%d (%d bytes)" % (i, len(data)),
                            cmds=("check", "tokenize") if len(data) <= 1000 else ("check",))
            key = "+".join(c for (c, l, k, w) in got[0][3]) or "OK"
            tally[key] = tally.get(key, 0) + 1
        print("  check: " + ", ".join("%s x%d" % kv for kv in sorted(tally.items())))
        # cut-off marked files: an odd number of bytes, half a surrogate pair, a cut UTF-8 sequence
        for label, data in (("utf-16le odd length", b"\xff\xfea\x00b"), ("utf-16be lone high surrogate", b"\xfe\xff\xd8\x3d"),
                            ("utf-8 marked, cut sequence", b"\xef\xbb\xbfa\xe2\x82"), ("only a mark", b"\xff\xfe"),
                            ("unmarked, cut sequence", b"a\xe2\x82"), ("two bytes of the UTF-8 mark", b"\xef\xbb")):
            got = work.same(data, label)
            print("  %-32s check %s" % (label, [(c, "%d:%d" % (l, k)) for (c, l, k, w) in got[0][3]]))
    finally:
        shutil.rmtree(work.root, ignore_errors=True)

    print("(%d runs of the tool)" % runs)
    if failures:
        print("PROPERTY VIOLATED:")
        for f in failures:
            print("  " + f)
        sys.exit(1)
    print("property C14 holds on everything tried")


main()
