#!/usr/bin/env python3
"""Demonstration for PRESERVING/B (see README.md). Usage: demo.py [compiler workspace]"""
import itertools
import os
import re
import shutil
import subprocess
import sys
import tempfile

WS = os.path.abspath(sys.argv[1] if len(sys.argv) > 1 else "/tmp/mut6/C06/compiler")
ANSI = re.compile(r"\x1b\[[0-9;]*m")
HEADER = re.compile(r"^error\[(P\d+)\]: (.*)$")
WHERE = re.compile(r"^\s*┌─ (.*):(\d+):(\d+)$")


def build():
    env = dict(os.environ, CARGO_NET_OFFLINE="true")
    subprocess.run(
        ["cargo", "build", "-p", "ironplcc", "--offline", "--quiet"],
        cwd=WS, env=env, check=True,
    )
    return os.path.join(WS, "target", "debug", "ironplcc")


class Layout:
    """One arrangement of the declarations: an order, a distribution over
    files, file names and the order in which the files are named."""

    def __init__(self, root, decls, order, blocks, names, arg_order, as_dir):
        self.dir = tempfile.mkdtemp(dir=root)
        self.decls = decls
        # file path -> list of (declaration index, first line, number of lines)
        self.index = {}
        contents = {}
        for pos in order:
            path = os.path.join(self.dir, names[blocks[pos]])
            text = decls[pos]
            assert text.endswith("\n")
            lines_so_far = contents.get(path, "").count("\n")
            self.index.setdefault(path, []).append(
                (pos, lines_so_far + 1, text.count("\n"))
            )
            contents[path] = contents.get(path, "") + text
        for path, text in contents.items():
            with open(path, "w") as f:
                f.write(text)
        files = sorted(contents)
        self.args = [self.dir] if as_dir else [files[i] for i in arg_order]
        self.describe = "order=%s files=%s args=%s" % (
            list(order),
            {os.path.basename(p): [d for d, _, _ in v] for p, v in self.index.items()},
            "<dir>" if as_dir else [os.path.basename(a) for a in self.args],
        )

    def locate(self, path, line, col):
        """(file, line, column) -> (declaration, line in declaration, column)"""
        path = os.path.realpath(path)
        for known, entries in self.index.items():
            if os.path.realpath(known) == path:
                for decl, first, count in entries:
                    if first <= line < first + count:
                        return (decl, line - first + 1, col)
        return ("?", path, line, col)


def check(binary, layout, root):
    env = dict(os.environ, TMPDIR=root)
    p = subprocess.run([binary, "check"] + layout.args, env=env,
                       stdout=subprocess.PIPE, stderr=subprocess.PIPE)
    err = ANSI.sub("", p.stderr.decode("utf-8", "replace"))
    diags = []
    for line in err.splitlines():
        m = HEADER.match(line)
        if m:
            diags.append({"code": m.group(1), "message": m.group(2), "where": None,
                          "others": []})
            continue
        m = WHERE.match(line)
        if m and diags:
            loc = layout.locate(m.group(1), int(m.group(2)), int(m.group(3)))
            if diags[-1]["where"] is None:
                diags[-1]["where"] = loc
            else:
                diags[-1]["others"].append(loc)
    verdict = "OK" if (p.returncode == 0 and p.stdout.decode().strip() == "OK") else "FAIL"
    if p.returncode not in (0, 1):
        verdict = "CRASH(%d)" % p.returncode
    return verdict, diags, err


def restricted_growth(n, max_blocks):
    """All partitions of n items into at most max_blocks blocks."""
    def rec(prefix, used):
        if len(prefix) == n:
            yield tuple(prefix)
            return
        for b in range(min(used + 1, max_blocks)):
            yield from rec(prefix + [b], max(used, b + 1))
    yield from rec([], 0)


def layouts(root, decls):
    """All permutations x all partitions into up to 3 files x all argument
    orders (plus: the directory as the argument) x three file naming schemes (the files of
    a set are analysed in the order of their paths)."""
    n = len(decls)
    for order in itertools.permutations(range(n)):
        for blocks in restricted_growth(n, 3):
            k = max(blocks) + 1
            for names in (["u0.st", "u1.st", "u2.st"], ["m.st", "z.st", "a.st"],
                          ["z9.st", "b.st", "k.st"]):
                for arg_order in itertools.permutations(range(k)):
                    yield Layout(root, decls, order, blocks, names, arg_order, False)
                yield Layout(root, decls, order, blocks, names, (), True)


def observe(binary, root, decls, repeats=2):
    """Runs the check in every layout (each `repeats` times: a new process has
    new hash seeds). Returns {observable: [layout descriptions]}, where the
    observable is what the property talks about: the verdict and the list of
    (code, normalised primary location)."""
    seen = {}
    runs = 0
    samples = {}
    for layout in layouts(root, decls):
        for _ in range(repeats):
            verdict, diags, err = check(binary, layout, root)
            runs += 1
            key = (verdict, tuple((d["code"], d["where"]) for d in diags))
            seen.setdefault(key, []).append(layout.describe)
            samples.setdefault(key, (layout, diags, err))
        shutil.rmtree(layout.dir)
    return seen, runs, samples


def report(title, seen, runs):
    print("-- %s: %d runs, %d distinct observable(s)" % (title, runs, len(seen)))
    for key, where in seen.items():
        print("   verdict=%s diagnostics=%s   (%d runs, e.g. %s)"
              % (key[0], list(key[1]), len(where), where[0]))


def main(body):
    binary = build()
    root = tempfile.mkdtemp(prefix="c06demo.")
    assert root and os.path.isdir(root) and root != "/"
    try:
        ok = body(binary, root)
    finally:
        shutil.rmtree(root)
    print("RESULT: %s" % ("property observables hold on the example" if ok
                          else "PROPERTY VIOLATED on the example"))
    sys.exit(0 if ok else 1)

LEVEL = """TYPE
  LEVEL : (LOW, HIGH) := LOW;
END_TYPE
"""
ALPHA = """FUNCTION_BLOCK ALPHA
VAR
  z : ZED;
END_VAR
END_FUNCTION_BLOCK
"""


def zed(decl):
    return """FUNCTION_BLOCK ZED
VAR CONSTANT
  ok : INT := 1;
  %s
END_VAR
END_FUNCTION_BLOCK
""" % decl


UNITS = [
    ("constant of an enumeration type that is declared elsewhere", "lvl : LEVEL;"),
    ("constant of a string type", "text : STRING;"),
    ("constant of an elementary type (position of the type is not known)", "limit : INT;"),
    ("declaration spread over several lines", "lvl\n     :\n   LEVEL\n  ;"),
]


def body(binary, root):
    ok = True
    print("== valid unit: verdict in every layout")
    seen, runs, _ = observe(binary, root, [LEVEL, zed("lvl : LEVEL := HIGH;"), ALPHA])
    report("valid unit", seen, runs)
    ok &= list(seen) == [("OK", ())]

    at_type = 0
    for title, decl in UNITS:
        print("== single fault: %s" % title)
        seen, runs, samples = observe(binary, root, [LEVEL, zed(decl), ALPHA])
        report("`%s`" % decl.replace("\n", "\\n"), seen, runs)
        ok &= len(seen) == 1
        key = list(seen)[0]
        ok &= key[0] == "FAIL" and [c for c, _ in key[1]] == ["P0016"]
        _, diags, err = samples[key]
        print("   as printed (one layout):")
        for line in err.splitlines():
            if line.strip() and not line.startswith("Error:"):
                print("      " + line)
        # Where in the declaration of ZED is the problem reported?
        decl_index, line, col = key[1][0][1]
        text = zed(decl).splitlines()[line - 1][col - 1:]
        print("   reported position is at the text: %r" % text)
        if not text.startswith(decl.split()[0]):
            at_type += 1

    print()
    if at_type:
        print("Behaviour of this build: P0016 is reported at the TYPE of the constant "
              "(in %d of %d examples) -> WITH patch B" % (at_type, len(UNITS)))
    else:
        print("Behaviour of this build: P0016 is reported at the NAME of the constant "
              "-> HEAD, WITHOUT patch B")
    return ok


main(body)
