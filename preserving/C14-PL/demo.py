#!/usr/bin/env python3
"""Demo / independent check for change C (the tool says how a file was stored:
an `Encoding:` line in the `tokenize` listing, `window/logMessage` notifications
from the language server for the files of the workspace folder).

usage: demo.py <path of the `compiler` workspace>   (binary: $1/target/debug/ironplcc)

Exits 0 when property C14 holds on everything tried: the same text stored in
five encodings gives the same verdict, problem codes, line/column positions
and tokens. The announcement of the encoding is shown but is not part of that.
"""
import json, os, re, shutil, signal, subprocess, sys, tempfile

BIN = os.path.join(os.path.abspath(sys.argv[1]), "target", "debug", "ironplcc")
ANSI = re.compile(r"\x1b\[[0-9;]*m")
failures = []


def fail(msg):
    failures.append(msg)


def five(text):
    out = {
        "utf8": text.encode("utf-8"),
        "utf8-bom": b"\xef\xbb\xbf" + text.encode("utf-8"),
        "utf16le-bom": b"\xff\xfe" + text.encode("utf-16-le"),
        "utf16be-bom": b"\xfe\xff" + text.encode("utf-16-be"),
        "cp1252": text.encode("cp1252"),
    }
    try:
        out["cp1252"].decode("utf-8")
        raise SystemExit("bad test text: the cp1252 form is valid UTF-8")
    except UnicodeDecodeError:
        pass
    return out


def run(args, env, cwd=None):
    r = subprocess.run([BIN] + args, capture_output=True, env=env, cwd=cwd, timeout=300)
    return r.returncode, r.stdout.decode("utf-8", "replace"), ANSI.sub("", r.stderr.decode("utf-8", "replace"))


def diagnostics(stderr):
    found, code = [], None
    for line in stderr.splitlines():
        m = re.match(r"^error\[(P\d+)\]", line)
        if m:
            code = m.group(1)
            continue
        m = re.match(r"^\s*┌─ (.*):(\d+):(\d+)$", line)
        if m and code:
            found.append((code, int(m.group(2)), int(m.group(3)), m.group(1)))
            code = None
    return found


def inside(text, line, col):
    lines = text.split("\n")
    return 1 <= line <= len(lines) and 1 <= col <= len(lines[line - 1]) + 1


class Lsp:
    def __init__(self, env, folder=None):
        self.p = subprocess.Popen([BIN, "lsp", "--stdio"], stdin=subprocess.PIPE, stdout=subprocess.PIPE,
                                  stderr=subprocess.DEVNULL, env=env)
        self.notifications = []
        params = {"processId": None, "rootUri": None, "capabilities": {}}
        if folder:
            params["workspaceFolders"] = [{"uri": "file://" + folder, "name": "w"}]
        self.send({"jsonrpc": "2.0", "id": 1, "method": "initialize", "params": params})
        self.response(1)
        self.send({"jsonrpc": "2.0", "method": "initialized", "params": {}})
        self.next_id = 2

    def send(self, obj):
        body = json.dumps(obj).encode()
        self.p.stdin.write(b"Content-Length: %d\r\n\r\n" % len(body) + body)
        self.p.stdin.flush()

    def recv(self):
        length = None
        while True:
            line = self.p.stdout.readline()
            if not line:
                raise SystemExit("the language server closed the connection")
            line = line.strip()
            if not line:
                break
            if line.lower().startswith(b"content-length:"):
                length = int(line.split(b":")[1])
        return json.loads(self.p.stdout.read(length))

    def response(self, ident):
        while True:
            msg = self.recv()
            if "method" in msg and "id" not in msg:
                self.notifications.append(msg)
            elif msg.get("id") == ident:
                return msg

    def request(self, method, params):
        ident = self.next_id
        self.next_id += 1
        self.send({"jsonrpc": "2.0", "id": ident, "method": method, "params": params})
        return self.response(ident)

    def tokens(self, path):
        result = self.request("textDocument/semanticTokens/full", {"textDocument": {"uri": "file://" + path}}).get("result")
        return None if result is None else result["data"]

    def open(self, path, text):
        self.send({"jsonrpc": "2.0", "method": "textDocument/didOpen", "params": {"textDocument": {
            "uri": "file://" + path, "languageId": "st", "version": 1, "text": text}}})
        while True:
            msg = self.recv()
            if msg.get("method") == "textDocument/publishDiagnostics":
                return [(d["code"], d["range"]["start"]["line"], d["range"]["start"]["character"])
                        for d in msg["params"]["diagnostics"]]
            self.notifications.append(msg)

    def close(self):
        self.request("shutdown", None)
        self.send({"jsonrpc": "2.0", "method": "exit", "params": None})
        self.p.stdin.close()
        self.p.wait(timeout=60)
        return self.p.returncode


def main():
    signal.alarm(900)  # never hang
    work = tempfile.mkdtemp(prefix="c14-demo-C-")
    try:
        tooltmp = os.path.join(work, "tmp")
        os.mkdir(tooltmp)
        env = dict(os.environ, TMPDIR=tooltmp)

        texts = {
            "syntax error": "PROGRAM p\nVAR\n  x : INT; (* café € *)\n  s : STRING := 'naïve';\nEND_VAR\n  x := 1 +;\nEND_PROGRAM\n",
            "valid": "PROGRAM p\nVAR\n  x : INT; (* café € *)\n  s : STRING := 'naïve';\nEND_VAR\n  x := 1;\nEND_PROGRAM\n",
            "character no token starts with": "PROGRAM p\nVAR\n  x : INT; (* ß *) é\nEND_VAR\nEND_PROGRAM\n",
            "semantic problem": "TYPE\n  LEVEL : (LOW, HIGH) := LOW; (* Füllstand € *)\nEND_TYPE\nFUNCTION_BLOCK fb\nVAR\n  l : LEVEL := MIDDLE;\nEND_VAR\nEND_FUNCTION_BLOCK\n",
        }
        print("== command line: the same text in five encodings")
        for name, text in texts.items():
            print("-- %s" % name)
            outcomes = {}
            for enc, data in five(text).items():
                folder = os.path.join(work, "cli", name.replace(" ", "_"), enc)
                os.makedirs(folder)
                path = os.path.join(folder, "prog.st")
                with open(path, "wb") as f:
                    f.write(data)
                outcome = []
                announced = []
                for cmd, cwd in (("check", None), ("tokenize", None), ("tokenize", folder)):
                    code, out, err = run([cmd, path if cwd is None else "prog.st"], env, cwd)
                    diags = diagnostics(err)
                    if code not in (0, 1) or "panicked" in err:
                        fail("%s %s %s: crash (exit %s)" % (name, enc, cmd, code))
                    if code == 0 and diags:
                        fail("%s %s %s: problems but verdict OK" % (name, enc, cmd))
                    if code != 0 and not diags:
                        fail("%s %s %s: failure without coded problem" % (name, enc, cmd))
                    for (pcode, line, col, where) in diags:
                        if where == path and not inside(text, line, col):
                            fail("%s %s %s: %s at %d:%d outside the text" % (name, enc, cmd, pcode, line, col))
                    lines = out.splitlines()
                    announced += [l for l in lines if l.startswith("Encoding: ")]
                    # everything the command printed except the announcement of the encoding
                    rest = [l.replace(folder, "<dir>") for l in lines if not l.startswith("Encoding: ")]
                    outcome.append((cmd, code, rest, [(c, l, k, w.replace(folder, "<dir>")) for (c, l, k, w) in diags]))
                # once more: same answer on a second run
                again = run(["check", path], env)
                if again[0] != outcome[0][1] or [(c, l, k) for (c, l, k, w) in diagnostics(again[2])] != [(c, l, k) for (c, l, k, w) in outcome[0][3]]:
                    fail("%s %s: second run differs" % (name, enc))
                outcomes[enc] = outcome
                print("   %-12s tokenize says: %-40s check: exit %d %s" % (
                    enc, sorted(set(announced)) or "(nothing about the encoding)", outcome[0][1],
                    [(c, "%d:%d" % (l, k)) for (c, l, k, w) in outcome[0][3]]))
            for enc, o in outcomes.items():
                if o != outcomes["utf8"]:
                    fail("%s: %s differs from utf8 in verdict, codes, positions or tokens" % (name, enc))
            t = outcomes["utf8"][1]
            print("   tokenize: exit %d, %d token lines, %s -- alike in all five: %s" % (
                t[1], sum(1 for l in t[2] if l.startswith("Type: ")), [(c, "%d:%d" % (l, k)) for (c, l, k, w) in t[3]],
                all(o == outcomes["utf8"] for o in outcomes.values())))

        print("== language server: one session for each encoding (workspace folder with the one file)")
        text = texts["syntax error"]
        sessions = {}
        for enc, data in five(text).items():
            folder = os.path.join(work, "lsp", enc)
            os.makedirs(folder)
            path = os.path.join(folder, "prog.st")
            with open(path, "wb") as f:
                f.write(data)
            lsp = Lsp(env, folder)
            tokens = lsp.tokens(path)              # of the file as the server decoded it
            # the file changes on disk between messages: the server holds what it read
            with open(path, "wb") as f:
                f.write(b"\xff\xfe\x00\xdc")
            tokens_again = lsp.tokens(path)
            opened = lsp.open(path, text)          # now the editor's text
            tokens_editor = lsp.tokens(path)
            code = lsp.close()
            if code != 0:
                fail("lsp %s: exit %s" % (enc, code))
            logged = [(n["params"]["type"], n["params"]["message"].replace(folder, "<dir>"))
                      for n in lsp.notifications if n["method"] == "window/logMessage"]
            other = [n["method"] for n in lsp.notifications if n["method"] != "window/logMessage"]
            sessions[enc] = (tokens, tokens_again, opened, tokens_editor, other)
            print("   %-12s logMessage: %-60s tokens: %s, didOpen: %s" % (
                enc, logged or "(none)", None if tokens is None else len(tokens) // 5, opened))
            lines = text.split("\n")
            for (c, l, k) in opened:
                if not (0 <= l < len(lines) and 0 <= k <= len(lines[l])):
                    fail("lsp %s: %s at %d:%d outside the text" % (enc, c, l, k))
            if tokens is None or tokens != tokens_again or tokens != tokens_editor:
                fail("lsp %s: tokens of file / file after change on disk / editor text differ" % enc)
        for enc, s in sessions.items():
            if s != sessions["utf8"]:
                fail("lsp: %s differs from utf8" % enc)
        print("   tokens, diagnostics and positions alike in all five: %s" % all(s == sessions["utf8"] for s in sessions.values()))

        print("== language server: a folder with all kinds of files")
        folder = os.path.join(work, "lsp-all")
        os.makedirs(folder)
        small = "TYPE\n  T%d : INT; (* é *)\nEND_TYPE\n"
        for i, (enc, _) in enumerate(five(small % 0).items()):
            with open(os.path.join(folder, "f%d-%s.st" % (i, enc)), "wb") as f:
                f.write(five(small % i)[enc])
        with open(os.path.join(folder, "g-marked-not-valid.st"), "wb") as f:
            f.write(b"\xff\xfeT\x00\x00\xdc")
        with open(os.path.join(folder, "h-binary.st"), "wb") as f:
            f.write(bytes(range(256)))
        with open(os.path.join(folder, "i-not-a-source.txt"), "wb") as f:
            f.write(b"hello")
        os.mkdir(os.path.join(folder, "j-directory.st"))
        runs = []
        for _ in range(2):
            lsp = Lsp(env, folder)
            toks = {name: lsp.tokens(os.path.join(folder, name)) for name in sorted(os.listdir(folder))}
            lsp.close()
            logged = [(n["params"]["type"], n["params"]["message"].replace(folder, "<dir>"))
                      for n in lsp.notifications if n["method"] == "window/logMessage"]
            runs.append((logged, toks))
        for kind, message in runs[0][0]:
            print("   logMessage type %d: %s" % (kind, message))
        if not runs[0][0]:
            print("   (no logMessage)")
        if runs[0] != runs[1]:
            fail("lsp-all: two sessions on the same folder differ")
        same = [runs[0][1]["f%d-%s.st" % (i, enc)] for i, enc in enumerate(five("x é"))]
        # T0..T4 are one character each: same tokens up to nothing (names have the same length)
        if any(t is None or len(t) != len(same[0]) for t in same):
            fail("lsp-all: token counts differ between encodings")
        if runs[0][1]["g-marked-not-valid.st"] is not None:
            fail("lsp-all: a file that cannot be decoded has tokens")
    finally:
        shutil.rmtree(work, ignore_errors=True)

    if failures:
        print("PROPERTY VIOLATED:")
        for f in failures:
            print("  " + f)
        sys.exit(1)
    print("property C14 holds on everything tried")


main()
