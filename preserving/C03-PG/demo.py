#!/usr/bin/env python3
"""Change A: `check <directory>` expands sub-directories recursively.

usage: demo.py <path of the `compiler` workspace>   (binary: $1/target/debug/ironplcc)

Part 1 prints the visible difference (a tree with sub-directories).
Part 2 is a small independent check of property C03 around the changed
behaviour: a faulty file or declaration is placed at every depth of a tree,
among 0..4 valid files, under names that sort first and last, and the check
of the tree (and of the same files given one by one, in every order) must fail.

Exit status 0: the property held on everything tried (with or without the change).
"""
import itertools
import os
import re
import shutil
import subprocess
import sys
import tempfile

ANSI = re.compile(r'\x1b\[[0-9;]*m')

VALID = [
    ('level.st', 'TYPE\n  LEVEL : (LOW, HIGH) := LOW;\nEND_TYPE\n'),
    ('fb1.st', 'FUNCTION_BLOCK FB1\nVAR\n  x : BOOL;\nEND_VAR\nEND_FUNCTION_BLOCK\n'),
    ('st0.st', 'TYPE\n  ST0 : STRUCT\n    a : BOOL;\n    b : INT;\n  END_STRUCT;\nEND_TYPE\n'),
    ('pr1.st', 'PROGRAM PR1\nVAR\n  x : BOOL;\nEND_VAR\n  x := TRUE;\nEND_PROGRAM\n'),
]

# name -> text of one faulty file (each fails when checked alone)
FAULTS = {
    'tokenize': 'TYPE\n  T1 : (A1, B1) := A1;\nEND_TYPE\n?\n',
    'parse': 'FUNCTION_BLOCK F1\nVAR\n  x : ;\nEND_VAR\nEND_FUNCTION_BLOCK\n',
    'struct-element-twice': 'TYPE\n  ST1 : STRUCT\n    a : BOOL;\n    a : BOOL;\n  END_STRUCT;\nEND_TYPE\n',
    'subrange-limits': 'TYPE\n  S1 : INT (10..1);\nEND_TYPE\n',
    'enum-value-twice': 'TYPE\n  E1 : (A, A) := A;\nEND_TYPE\n',
    # a second declaration of a name that a valid file declares
    'same-name-as-valid-type': 'TYPE\n  LEVEL : (ONE, TWO) := ONE;\nEND_TYPE\n',
    'same-name-as-valid-pou': 'FUNCTION_BLOCK FB1\nVAR\n  y : INT;\nEND_VAR\nEND_FUNCTION_BLOCK\n',
}

# where the faulty file goes, relative to the root that is checked
PLACES = ['', 'sub', os.path.join('sub', 'deep', 'deeper'), 'zz_other']
# where the accompanying valid files go (cyclically)
VALID_PLACES = ['', 'sub', os.path.join('sub', 'deep'), 'aa_first']


def run_check(binary, args):
    r = subprocess.run([binary, 'check'] + args, capture_output=True, text=True)
    err = ANSI.sub('', r.stderr)
    codes = re.findall(r'error\[(P\d+)\]', err)
    ok = r.returncode == 0 and 'OK' in r.stdout
    failed = r.returncode != 0 and 'OK' not in r.stdout
    return ok, failed, codes, r.returncode


def write(root, rel_dir, name, text):
    d = os.path.join(root, rel_dir)
    os.makedirs(d, exist_ok=True)
    p = os.path.join(d, name)
    with open(p, 'w') as f:
        f.write(text)
    return p


def main():
    if len(sys.argv) != 2:
        print(__doc__)
        return 2
    binary = os.path.join(sys.argv[1], 'target', 'debug', 'ironplcc')
    if not os.path.exists(binary):
        print('no binary at', binary)
        return 2

    violations = []
    runs = 0

    # ---- Part 1: the visible difference -------------------------------
    tmp = tempfile.mkdtemp(prefix='c03-demo-a-')
    try:
        root = os.path.join(tmp, 'project')
        write(root, '', *VALID[0])
        write(root, 'blocks', *VALID[1])
        write(root, os.path.join('blocks', 'more'), *VALID[2])
        ok, failed, codes, rc = run_check(binary, [root])
        print('[difference] valid files in a directory, a sub-directory and a sub-sub-directory:')
        print('    check <dir>: exit %d, codes %s -> %s' % (
            rc, codes, 'OK (the tree is one compilation set)' if ok
            else 'failure (the sub-directory itself is read as a file)'))

        # the same tree, the file at the bottom broken
        write(root, os.path.join('blocks', 'more'), 'broken.st', FAULTS['parse'])
        ok, failed, codes, rc = run_check(binary, [root])
        print('[difference] the same tree with a file that does not parse at the bottom:')
        print('    check <dir>: exit %d, codes %s' % (rc, codes))
        runs += 1
        if not failed:
            violations.append(('part 1, broken file at the bottom', codes))

        # a link to a directory inside the tree: never followed, always a failure
        link_root = os.path.join(tmp, 'with-link')
        write(link_root, '', *VALID[0])
        write(os.path.join(tmp, 'elsewhere'), '', 'broken.st', FAULTS['parse'])
        os.symlink(os.path.join(tmp, 'elsewhere'), os.path.join(link_root, 'link'))
        ok, failed, codes, rc = run_check(binary, [link_root])
        print('[difference] a directory that holds a link to another directory (with a broken file):')
        print('    check <dir>: exit %d, codes %s' % (rc, codes))
        runs += 1
        if not failed:
            violations.append(('part 1, link to a directory with a broken file', codes))
    finally:
        shutil.rmtree(tmp)

    # ---- Part 2: the property around the change -------------------------
    seen_codes = {}
    for fault, text in FAULTS.items():
        for place in PLACES:
            for n_valid in (0, 1, 2, 4):
                if fault.startswith('same-name') and n_valid < 2:
                    continue  # needs the valid declaration it collides with
                for faulty_name in ('aaa_faulty.st', 'zzz_faulty.st'):
                    tmp = tempfile.mkdtemp(prefix='c03-demo-a-')
                    try:
                        root = os.path.join(tmp, 'set')
                        os.makedirs(root)
                        files = []
                        for i in range(n_valid):
                            name, vtext = VALID[i]
                            files.append(write(root, VALID_PLACES[i % len(VALID_PLACES)], name, vtext))
                        files.append(write(root, place, faulty_name, text))

                        # (a) the tree as one directory argument
                        ok, failed, codes, rc = run_check(binary, [root])
                        runs += 1
                        seen_codes.setdefault(fault, set()).update(codes)
                        if not failed:
                            violations.append(('dir', fault, place, n_valid, faulty_name, rc, codes))

                        # (b) the same files one by one, in every order (at most 3 files: 6 orders)
                        if len(files) <= 3:
                            for order in itertools.permutations(files):
                                ok, failed, codes, rc = run_check(binary, list(order))
                                runs += 1
                                if not failed:
                                    violations.append(('files', fault, place, n_valid, faulty_name, rc, codes))
                    finally:
                        shutil.rmtree(tmp)

    print('[property] %d checks of sets that hold a fault; codes seen per fault:' % runs)
    for fault in FAULTS:
        print('    %-26s %s' % (fault, sorted(seen_codes.get(fault, []))))
    if violations:
        print('[property] VIOLATED: a faulty set was not reported as a failure:')
        for v in violations:
            print('    ', v)
        return 1
    print('[property] every faulty set was reported as a failure: C03 holds on what was tried')
    return 0


if __name__ == '__main__':
    sys.exit(main())
