#!/usr/bin/env python3
"""Demo for change B: one spelling for the path of a document, from the text of the URI alone.

usage: demo.py <compiler workspace dir>      (binary: $1/target/debug/ironplcc)

Prints what the server answers when one file is named by URIs that are spelled
differently and checks the property C11 on the histories it plays. Exits 0 when the property holds on what it tried (with
and without the change).
"""
import json
import os
import queue
import re
import shutil
import subprocess
import sys
import tempfile
import threading
from urllib.parse import quote

BIN = os.path.join(os.path.abspath(sys.argv[1]), "target", "debug", "ironplcc")
TIMEOUT = 60
failures = []


def fail(msg):
    failures.append(msg)
    print("PROPERTY VIOLATION: " + msg)


def uri_of(path):
    return "file://" + quote(path)


class Server:
    """A language server process with a strictly sequential client."""

    def __init__(self, root, folder=None, watch=False):
        env = dict(os.environ, TMPDIR=os.path.join(root, "tmp"))
        self.proc = subprocess.Popen([BIN, "lsp", "--stdio"], stdin=subprocess.PIPE,
                                     stdout=subprocess.PIPE, stderr=subprocess.DEVNULL,
                                     cwd=os.path.join(root, "cwd"), env=env)
        self.inbox = queue.Queue()
        threading.Thread(target=self._reader, daemon=True).start()
        self.next_id = 0
        self.log = []  # every message from the server, in order
        caps = {}
        if watch:
            caps = {"workspace": {"didChangeWatchedFiles": {"dynamicRegistration": True}}}
        params = {"processId": None, "rootUri": None, "capabilities": caps}
        if folder is not None:
            params["workspaceFolders"] = [{"uri": folder, "name": "ws"}]
        self.init_result = self.request("initialize", params)
        self.notify("initialized", {})

    def _reader(self):
        out = self.proc.stdout
        while True:
            length = None
            while True:
                line = out.readline()
                if not line:
                    self.inbox.put(None)
                    return
                line = line.strip()
                if not line:
                    break
                if line.lower().startswith(b"content-length:"):
                    length = int(line.split(b":")[1])
            self.inbox.put(json.loads(out.read(length).decode("utf-8")))

    def _send(self, obj):
        body = json.dumps(obj).encode("utf-8")
        self.proc.stdin.write(b"Content-Length: %d\r\n\r\n" % len(body) + body)
        self.proc.stdin.flush()

    def notify(self, method, params):
        self._send({"jsonrpc": "2.0", "method": method, "params": params})

    def _recv(self):
        msg = self.inbox.get(timeout=TIMEOUT)
        if msg is None:
            raise RuntimeError("the server went away")
        self.log.append(msg)
        # a request from the server: answer it (this client accepts everything)
        if "method" in msg and "id" in msg:
            self._send({"jsonrpc": "2.0", "id": msg["id"], "result": None})
        return msg

    def request(self, method, params):
        """Sends a request and returns (result or error); collects everything before it."""
        self.next_id += 1
        rid = self.next_id
        self._send({"jsonrpc": "2.0", "id": rid, "method": method, "params": params})
        while True:
            msg = self._recv()
            if "method" not in msg and msg.get("id") == rid:
                return msg.get("result", msg.get("error"))

    def settle(self):
        """Returns the messages the server sent since the last call.

        The server works through its input in order, so once the answer to a
        request arrives, everything caused by earlier messages has arrived."""
        start = len(self.log)
        self.request("demo/barrier", None)
        return self.log[start:-1]

    def edit(self, method, uri, version, text):
        """didOpen/didChange; returns (the answer, everything the server sent)."""
        path = uri
        if method == "didOpen":
            params = {"textDocument": {"uri": uri, "languageId": "st", "version": version,
                                       "text": text}}
        else:
            params = {"textDocument": {"uri": uri, "version": version},
                      "contentChanges": [{"text": text}]}
        self.notify("textDocument/" + method, params)
        msgs = self.settle()
        answers = [m for m in msgs if m.get("method") == "textDocument/publishDiagnostics"
                   and m["params"]["uri"] == uri and m["params"].get("version") == version]
        if len(answers) != 1:
            fail("%s %s v%d got %d answers with that version" % (method, path, version, len(answers)))
            return None, msgs
        return answers[0]["params"], msgs

    def stop(self):
        self.request("shutdown", None)
        self.notify("exit", None)
        self.proc.stdin.close()
        self.proc.wait(timeout=TIMEOUT)


def essence(publish):
    """What the property compares: code and start position (plus the message)."""
    return sorted((d["code"], d["range"]["start"]["line"], d["range"]["start"]["character"],
                   d["message"]) for d in publish["diagnostics"])


def positions(publish):
    return sorted((d["code"], d["range"]["start"]["line"], d["range"]["start"]["character"])
                  for d in publish["diagnostics"])


def check(root, files, wanted):
    """Runs `ironplcc check` on files with the given contents in a fresh directory and
    returns the (code, line, character) it reports for the file `wanted` (0-based, the
    texts here only have characters of the basic plane so characters = UTF-16 units)."""
    d = tempfile.mkdtemp(dir=root, prefix="chk ü ")
    paths = []
    for name, text in files.items():
        p = os.path.join(d, name)
        with open(p, "w", encoding="utf-8", newline="") as f:
            f.write(text)
        paths.append(p)
    env = dict(os.environ, TMPDIR=os.path.join(root, "tmp"))
    r = subprocess.run([BIN, "check"] + paths, cwd=os.path.join(root, "cwd"), env=env,
                       capture_output=True, timeout=TIMEOUT)
    err = re.sub(r"\x1b\[[0-9;]*m", "", r.stderr.decode("utf-8"))
    found = []
    code = None
    for line in err.splitlines():
        m = re.match(r"error\[(\w+)\]", line)
        if m:
            code = m.group(1)
        m = re.match(r"\s*┌─ (.*):(\d+):(\d+)$", line)
        if m and code is not None:
            if os.path.realpath(m.group(1)) == os.path.realpath(os.path.join(d, wanted)):
                found.append((code, int(m.group(2)) - 1, int(m.group(3)) - 1))
            code = None
    return sorted(found)



LIB = "TYPE\n  LEVEL : (LOW, HIGH) := LOW;\nEND_TYPE\n"
MAIN = "FUNCTION_BLOCK Tank\nVAR\n  (* é ü *) lvl : LEVEL;\nEND_VAR\nEND_FUNCTION_BLOCK\n"
TEXTS = {
    "valid": "FUNCTION_BLOCK Other\nVAR\n  x : BOOL;\nEND_VAR\nEND_FUNCTION_BLOCK\n",
    "lexical": "FUNCTION_BLOCK Other\nVAR\n  (* ö *) ? x : BOOL;\nEND_VAR\nEND_FUNCTION_BLOCK\n",
    "syntax": "FUNCTION_BLOCK Other\nVAR\n  x : BOOL\nEND_VAR\nEND_FUNCTION_BLOCK\n",
    "semantic": "FUNCTION_BLOCK Other\nVAR\n  (* ö *) x : NOPE;\nEND_VAR\nEND_FUNCTION_BLOCK\n",
    "lib": LIB,
    "main": MAIN,
}


def write(path, text):
    with open(path, "w", encoding="utf-8", newline="") as f:
        f.write(text)


def codes(publish):
    return [d["code"] for d in publish["diagnostics"]] if publish else None


def main():
    root = tempfile.mkdtemp(prefix="c11 demo Ä ")
    try:
        for d in ("tmp", "cwd", "wörk space"):
            os.mkdir(os.path.join(root, d))
        ws = os.path.join(root, "wörk space")
        plain = uri_of(os.path.join(ws, "main.st"))
        # the same file, spelled in other ways (none of them needs the file system)
        doubled = uri_of(ws) + "//main.st"
        host = "file://localhost" + quote(ws) + "/%6Dain.st"
        print("plain   %s\ndoubled %s\nhost    %s" % (plain, doubled, host))

        for on_disk in (False, True):
            # whether the file exists must not matter for how a URI is understood
            if on_disk:
                write(os.path.join(ws, "main.st"), "(* not what the editor has *)")
            print("== one file, two spellings, the same text (file on disk: %s)" % on_disk)
            s = Server(root)
            a, _ = s.edit("didOpen", plain, 1, LIB + MAIN)
            b, _ = s.edit("didOpen", doubled, 1, LIB + MAIN)
            c, _ = s.edit("didChange", plain, 2, LIB + MAIN)
            s.stop()
            print("    didOpen plain v1      -> %s" % codes(a))
            print("    didOpen doubled v1    -> %s" % codes(b))
            print("    didChange plain v2    -> %s" % codes(c))
            expected = check(root, {"main.st": LIB + MAIN}, "main.st")
            print("    check on the one file -> %s" % [e[0] for e in expected])
            print("    the doubled spelling is %s" % (
                "the same document" if codes(b) == [] else "another document that declares everything again"))
            if on_disk:
                os.remove(os.path.join(ws, "main.st"))

        print("== a workspace folder that is spelled with a doubled separator")
        write(os.path.join(ws, "lib.st"), LIB)
        s = Server(root, folder=uri_of(root) + "//" + quote("wörk space"))
        a, _ = s.edit("didOpen", uri_of(os.path.join(ws, "lib.st")), 1, LIB)
        s.stop()
        print("    didOpen lib.st (plain spelling) -> %s" % codes(a))
        os.remove(os.path.join(ws, "lib.st"))

        print("== the property, each document under one (odd) spelling for the whole history")
        a_path, b_path = os.path.join(ws, "a.st"), os.path.join(ws, "b ü.st")
        a_uri = uri_of(ws) + "//a.st"
        b_uri = uri_of(ws) + "///" + quote("b ü") + "%2Est"
        name = {a_uri: "a.st", b_uri: "b ü.st"}
        histories = [
            [(a_uri, "main"), (b_uri, "lib"), (a_uri, "semantic"), (b_uri, "syntax")],
            [(b_uri, "lexical"), (a_uri, "lib"), (b_uri, "main"), (a_uri, "valid")],
            [(a_uri, "syntax"), (a_uri, "main"), (b_uri, "valid"), (b_uri, "lib")],
        ]
        for n, history in enumerate(histories):
            # files behind the URIs come and go, the server must not care
            if n == 1:
                write(a_path, TEXTS["lexical"])
                os.symlink(a_path, b_path)
            if n == 2:
                os.remove(b_path)
            s = Server(root)
            current, version = {}, {}
            for uri, key in history:
                text = TEXTS[key]
                method = "didChange" if uri in current else "didOpen"
                version[uri] = version.get(uri, 0) + 1
                answer, _ = s.edit(method, uri, version[uri], text)
                current[uri] = text
                if answer is None:
                    continue
                f = Server(root)
                for other, other_text in current.items():
                    if other != uri:
                        f.edit("didOpen", other, 1, other_text)
                fresh, _ = f.edit("didOpen", uri, 1, text)
                f.stop()
                same_fresh = fresh is not None and essence(fresh) == essence(answer)
                if not same_fresh:
                    fail("history and fresh server differ for %s: %s / %s" % (
                        uri, essence(answer), fresh and essence(fresh)))
                expected = check(root, {name[u]: t for u, t in current.items()}, name[uri])
                if expected != positions(answer):
                    fail("check and server differ for %s: %s / %s" % (uri, expected, positions(answer)))
                print("    %d %-9s %-8s -> %-28s = fresh server: %s   = check: %s" % (
                    n, method, key + "@" + name[uri][0], positions(answer), same_fresh,
                    expected == positions(answer)))
            s.stop()
    finally:
        shutil.rmtree(root, ignore_errors=True)

    if failures:
        print("FAILED: %d violations" % len(failures))
        return 1
    print("OK: the property held on everything tried")
    return 0


if __name__ == "__main__":
    sys.exit(main())
