#!/usr/bin/env python3
"""Demo for change B (diagnostics name files relative to the working directory).

usage: demo.py <compiler workspace directory>   (binary: $1/target/debug/ironplcc)

Prints what is visibly different (the file name in the `┌─` line of a rendered
diagnostic, from several working directories) and checks property C06 around
the changed behaviour: the verdict, and for the unit with one fault also the
problem code and the place (which file, which line, which column: the shown
name is resolved against the working directory and the line is read back from
that file), are the same for every order of the declarations, every partition
into files, every order of arguments, every run and every working directory.

Exit status 0: the property held on everything that was tried.
"""
import itertools
import os
import random
import re
import shutil
import subprocess
import sys
import tempfile

BIN = os.path.join(os.path.abspath(sys.argv[1]), "target", "debug", "ironplcc")

DECLS = [
    # (name, text)
    ("level", """(* Stufe — 段階 *)
TYPE
  Level : (LOW, HIGH) := LOW;
END_TYPE
"""),
    ("counter", """FUNCTION_BLOCK Counter
VAR_INPUT
  Reset : BOOL;
END_VAR
VAR
  Cnt : INT; (* Zählerstand ✓ *)
END_VAR
  Cnt := Cnt + 1;
END_FUNCTION_BLOCK
"""),
    ("main", """PROGRAM Main
VAR
  c : Counter;
  l : Level;
END_VAR
  c(Reset := FALSE);
END_PROGRAM
"""),
    ("config", """CONFIGURATION config
  RESOURCE resource1 ON PLC
    TASK plc_task(INTERVAL := T#100ms, PRIORITY := 1);
    PROGRAM plc_task_instance WITH plc_task : Main;
  END_RESOURCE
END_CONFIGURATION
"""),
]
GOOD = dict(DECLS)
# One fault: the type of `l` is not declared anywhere (same size as the good text).
FAULTY = dict(DECLS)
FAULTY["main"] = GOOD["main"].replace("l : Level;", "l : Levle;")
NAMES = [name for name, _ in DECLS]
FILE_NAMES = ["a_zähler.st", "b_計数.st", "c.st"]

ANSI = re.compile(r"\x1b\[[0-9;]*m")
HEAD = re.compile(r"^error\[(\w+)\]")
PLACE = re.compile(r"^\s*┌─ (.*):(\d+):(\d+)$")

failures = []
runs = 0


def fail(msg):
    failures.append(msg)
    print("PROPERTY VIOLATED: " + msg)


def run(args, tmp, cwd):
    """Runs the tool; returns (exit status, stdout, stderr without colours)."""
    global runs
    runs += 1
    env = dict(os.environ, TMPDIR=tmp)
    p = subprocess.run([BIN] + args, cwd=cwd, env=env, capture_output=True, timeout=120)
    return p.returncode, p.stdout.decode("utf-8", "replace"), ANSI.sub("", p.stderr.decode("utf-8", "replace"))


def observe(args, tmp, cwd):
    """What the property talks about: verdict and the (code, place) of each problem.

    The place is given as the text of the line and the column, which does not
    change when declarations move (line numbers and file names do)."""
    status, out, err = run(["check"] + args, tmp, cwd)
    problems = []
    code = None
    for line in err.splitlines():
        m = HEAD.match(line)
        if m:
            code = m.group(1)
            continue
        m = PLACE.match(line)
        if m and code:
            path = os.path.join(cwd, m.group(1))
            with open(path, encoding="utf-8") as f:
                text = f.read().split("\n")
            problems.append((code, text[int(m.group(2)) - 1].strip(), int(m.group(3))))
            code = None
    ok = status == 0 and out.strip() == "OK"
    if ok == bool(problems) or (status == 0) != ok:
        fail("verdict and output disagree: status %s stdout %r stderr %r" % (status, out, err))
    return ("OK" if ok else "ERR", tuple(sorted(problems)))


def write_layout(directory, texts, order, assignment):
    """Writes the declarations in `order`; declaration i goes to file assignment[i]."""
    files = {}
    for name in order:
        files.setdefault(FILE_NAMES[assignment[name]], []).append(texts[name])
    for fname, parts in files.items():
        with open(os.path.join(directory, fname), "w", encoding="utf-8") as f:
            f.write("\n".join(parts))
    return sorted(files)


def partitions(names, k):
    """All partitions of names into at most k blocks, as name -> block number."""
    def rec(i, blocks):
        if i == len(names):
            yield {n: b for b, block in enumerate(blocks) for n in block}
            return
        for b in range(len(blocks)):
            blocks[b].append(names[i])
            yield from rec(i + 1, blocks)
            blocks[b].pop()
        if len(blocks) < k:
            blocks.append([names[i]])
            yield from rec(i + 1, blocks)
            blocks.pop()
    yield from rec(0, [])


def shown_names(args, tmp, cwd):
    status, out, err = run(["check"] + args, tmp, cwd)
    return [m.group(1) for m in map(PLACE.match, err.splitlines()) if m]


def check_variant(label, texts, expected, root, rng, cwds):
    """All orders x some partitions x all argument orders x working directories."""
    seen = set()
    layouts = []
    all_partitions = list(partitions(NAMES, 3))
    for order in itertools.permutations(NAMES):
        layouts.append((order, {n: 0 for n in NAMES}))
        layouts.append((order, rng.choice(all_partitions)))
    for assignment in all_partitions:
        layouts.append((tuple(NAMES), assignment))
    for n, (order, assignment) in enumerate(layouts):
        src = os.path.join(root, "projekt-ü", "src-%s-%d" % (label, n))
        os.mkdir(src)
        files = write_layout(src, texts, order, assignment)
        tmp = tempfile.mkdtemp(dir=root)
        for args in itertools.permutations(files):
            absolute = [os.path.join(src, f) for f in args]
            # named relative to the directory of the files
            seen.add(observe(list(args), tmp, src))
            seen.add(observe(["./" + f for f in args], tmp, src))
            # named absolute, from everywhere
            for cwd in cwds + [src]:
                seen.add(observe(absolute, tmp, cwd))
            # named relative from the directory above
            up = os.path.dirname(src)
            seen.add(observe([os.path.join(os.path.basename(src), f) for f in args], tmp, up))
        # the directory (discovery order is up to the OS)
        for cwd in cwds:
            seen.add(observe([src], tmp, cwd))
        seen.add(observe(["."], tmp, src))
        seen.add(observe([os.path.basename(src)], tmp, os.path.dirname(src)))
    if seen != {expected}:
        fail("%s: expected only %r, saw %r" % (label, expected, seen))


def main():
    rng = random.Random(6)
    root = os.path.realpath(tempfile.mkdtemp(prefix="c06-demo-b-"))
    try:
        place = ("P0022", "l : Levle;", 7)
        project = os.path.join(root, "projekt-ü")         # non-ASCII working directory
        sibling = os.path.join(root, "projekt-ü2")        # the name of the project is a prefix
        elsewhere = os.path.join(root, "elsewhere")
        link = os.path.join(root, "link-to-projekt")       # working directory through a symlink
        for d in (project, sibling, elsewhere):
            os.mkdir(d)
        os.symlink(project, link)
        cwds = [root, project, sibling, elsewhere, link, "/"]

        check_variant("good", GOOD, ("OK", ()), root, rng, cwds)
        check_variant("faulty", FAULTY, ("ERR", (place,)), root, rng, cwds)

        print("== visible difference: the name of the file in the rendered diagnostic")
        src = os.path.join(project, "src")
        os.mkdir(src)
        write_layout(src, FAULTY, NAMES, {"level": 0, "counter": 1, "main": 1, "config": 2})
        # the same declarations once more in a sibling whose name starts with the name of the project
        src2 = os.path.join(sibling, "src")
        os.mkdir(src2)
        tmp = tempfile.mkdtemp(dir=root)
        for cwd, args in [(src, ["."]), (project, ["src"]), (link, ["src"]), (root, [src]),
                          (elsewhere, [src]), (sibling, [src]), ("/", [src])]:
            names = shown_names(args, tmp, cwd)
            print("   cwd=%-34s check %-22s ->  %s" % (cwd.replace(root, "$ROOT") or "/", " ".join(a.replace(root, "$ROOT") for a in args), [n.replace(root, "$ROOT") for n in names]))
            for n in names:
                if os.path.realpath(os.path.join(cwd, n)) != os.path.join(src, FILE_NAMES[1]):
                    fail("shown name %r from %r is not the file with the fault" % (n, cwd))
            if len(names) != 1:
                fail("expected one place, got %r" % (names,))

        print("== working directory that no longer exists, and a file that cannot be read")
        gone = os.path.join(root, "gone")
        os.mkdir(gone)
        env = dict(os.environ, TMPDIR=tmp)
        script = "cd %s && rmdir %s && exec %s check %s" % (gone, gone, BIN, src)
        p = subprocess.run(["sh", "-c", script], env=env, capture_output=True)
        err = ANSI.sub("", p.stderr.decode("utf-8", "replace"))
        names = [m.group(1) for m in map(PLACE.match, err.splitlines()) if m]
        print("   removed cwd -> status %d, names %s" % (p.returncode, [n.replace(root, "$ROOT") for n in names]))
        if p.returncode == 0 or names != [os.path.join(src, FILE_NAMES[1])] or "P0022" not in err:
            fail("removed working directory: %r %r" % (p.returncode, err))
        status, out, err = run(["check", "src", "src/missing.st"], tmp, project)
        print("   missing file -> status %d: %s" % (status, [l for l in err.splitlines() if "error" in l][:1]))
        if status == 0 or "missing.st" not in err:
            fail("missing file not reported: %r" % err)
    finally:
        shutil.rmtree(root, ignore_errors=True)

    print("%d runs of the tool, %d violations" % (runs, len(failures)))
    return 1 if failures else 0


if __name__ == "__main__":
    sys.exit(main())
