#!/usr/bin/env python3
"""Demo and small independent check for change B (check descends into sub-directories).

usage: demo.py <compiler workspace dir>     (binary: $1/target/debug/ironplcc)

Exit status 0 when property C06 held on everything that was tried.
"""
import itertools
import os
import random
import re
import shutil
import subprocess
import sys
import tempfile

ANSI = re.compile(r"\x1b\[[0-9;]*m")
HEAD = re.compile(r"^error\[(P\d+)\]: (.*)$")
LOCUS = re.compile(r"^\s*┌─ (.*):(\d+):(\d+)$")
SRC = re.compile(r"^\s*(\d+) │ ?(.*)$")
MARK = re.compile(r"^\s*│ ?(\s*)(\^+|-+)(?: (.*))?$")


def run_check(binary, args, cwd):
    p = subprocess.run([binary, "check"] + args, cwd=cwd, stdout=subprocess.PIPE,
                       stderr=subprocess.PIPE, timeout=60)
    out = p.stdout.decode("utf-8", "replace")
    err = ANSI.sub("", p.stderr.decode("utf-8", "replace"))
    if p.returncode < 0 or p.returncode == 101 or "panicked" in err:
        raise SystemExit("FAIL: crash on %r\n%s" % (args, err))
    ok = out.strip() == "OK" and p.returncode == 0
    if not ok and p.returncode == 0:
        raise SystemExit("FAIL: no OK and exit status 0 on %r\n%s%s" % (args, out, err))
    return ok, parse(err), err


def parse(err):
    """-> list of diagnostics: (code, message, [(style, file, line, col, text)])"""
    diags = []
    cur = None
    path = None
    line_no = None
    for raw in err.splitlines():
        m = HEAD.match(raw)
        if m:
            cur = (m.group(1), m.group(2), [])
            diags.append(cur)
            path = None
            continue
        if cur is None:
            continue
        m = LOCUS.match(raw)
        if m:
            path = m.group(1)
            line_no = None
            continue
        m = SRC.match(raw)
        if m and path is not None:
            line_no = int(m.group(1))
            continue
        m = MARK.match(raw)
        if m and path is not None and line_no is not None:
            style = "primary" if m.group(2)[0] == "^" else "secondary"
            cur[2].append((style, os.path.realpath(path), line_no,
                           len(m.group(1)) + 1, m.group(3) or ""))
    return diags


class Layout:
    """Declarations written to files; knows which declaration owns a line."""

    def __init__(self, root, decls, order, assignment, names):
        # order: permutation of range(len(decls)); assignment[i]: file index of
        # the declaration at position i of the order; names[k]: name of file k
        self.owner = {}
        self.files = []
        per_file = {}
        for pos, d in enumerate(order):
            per_file.setdefault(assignment[pos], []).append(d)
        for k in sorted(per_file):
            path = os.path.join(root, names[k])
            os.makedirs(os.path.dirname(path), exist_ok=True)
            text = []
            for d in per_file[k]:
                for rel, l in enumerate(decls[d].split("\n")):
                    self.owner[(os.path.realpath(path), len(text) + 1)] = (d, rel)
                    text.append(l)
                text.append("")
            with open(path, "w") as f:
                f.write("\n".join(text) + "\n")
            self.files.append(path)

    def signature(self, diags, with_messages=True):
        """The diagnostics in terms of declarations, as a sorted list."""
        sig = []
        for code, message, labels in diags:
            labs = []
            for style, path, line, col, text in labels:
                d, rel = self.owner.get((path, line), ("?", line))
                labs.append((style, d, rel, col) + ((text,) if with_messages else ()))
            prim = tuple(l for l in labs if l[0] == "primary")
            sec = tuple(sorted(l for l in labs if l[0] == "secondary"))
            sig.append((code, message if with_messages else "", prim, sec))
        return sorted(sig)


def set_partitions(n, max_blocks):
    """Restricted growth strings: assignment of n items to <= max_blocks files."""
    def rec(prefix, used):
        if len(prefix) == n:
            yield tuple(prefix)
            return
        for b in range(min(used + 1, max_blocks)):
            yield from rec(prefix + [b], max(used, b + 1))
    yield from rec([], 0)


NAMES = ["a.st", "m.st", "z.st"]  # replaced per exploration


def variants(n, rng, limit, NAMES=NAMES):
    """(order, assignment, names, argument order or None for 'the directory')"""
    allv = []
    for order in itertools.permutations(range(n)):
        for assignment in set_partitions(n, 3):
            k = max(assignment) + 1
            for names in itertools.permutations(NAMES, k):
                for args in itertools.permutations(range(k)):
                    allv.append((order, assignment, names, args))
                allv.append((order, assignment, names, None))
    if len(allv) > limit:
        allv = rng.sample(allv, limit)
    return allv


def explore(binary, title, decls, names, limit=350, repeats=2, extra=None):
    """Runs all variants; returns [(nested?, verdict, signature, stderr)]"""
    rng = random.Random(6)
    results = []
    n = 0
    for order, assignment, names, args in variants(len(decls), rng, limit, names):
        root = tempfile.mkdtemp(prefix="c06demo-")
        try:
            lay = Layout(root, decls, order, assignment, names)
            if extra:
                extra(root)
            argv = [root] if args is None else [lay.files[i] for i in args]
            # does the directory that is named contain a sub-directory?
            nested = args is None and any(
                e.is_dir(follow_symlinks=False) for e in os.scandir(root))
            for _ in range(repeats):  # fresh process, fresh hash seed
                ok, diags, err = run_check(binary, argv, root)
                n += 1
                results.append((nested, ok, repr(lay.signature(diags)), err))
        finally:
            shutil.rmtree(root, ignore_errors=True)
    print("== %s: %d runs (%d of a directory that has sub-directories)" %
          (title, n, sum(1 for r in results if r[0])))
    return results


def expect(cond, what):
    if not cond:
        print("FAIL: " + what)
        sys.exit(1)


# --------------------------------------------------------------------------

T_LEVEL = "TYPE\n  LEVEL : (LOW, HIGH) := LOW;\nEND_TYPE"
FB_USER = ("FUNCTION_BLOCK USER\nVAR\n  lvl : LEVEL;\n  done : BOOL;\nEND_VAR\n"
           "  done := TRUE;\nEND_FUNCTION_BLOCK")
FB_BAD = ("FUNCTION_BLOCK WORKER\nVAR\n  done : BOOL;\nEND_VAR\n"
          "  done := missing;\nEND_FUNCTION_BLOCK")
FB_CALLER = ("FUNCTION_BLOCK CALLER\nVAR\n  u : USER;\nEND_VAR\n"
             "  u();\nEND_FUNCTION_BLOCK")

FLAT = ["a.st", "m.st", "z.st"]
NESTED = ["top.st", "sub/m.st", "sub/deeper/still/a.st"]
NESTED2 = ["zz/one.st", "aa/two.st", "aa/bb/three.st"]


def descends(binary):
    """Does `check <dir>` look into sub-directories?"""
    root = tempfile.mkdtemp(prefix="c06demo-")
    try:
        os.makedirs(os.path.join(root, "sub"))
        with open(os.path.join(root, "sub", "x.st"), "w") as f:
            f.write(T_LEVEL + "\n")
        ok, diags, err = run_check(binary, [root], root)
        print("check of a directory whose only entry is sub/x.st (a valid file):")
        print("\n".join("   " + l for l in (err.splitlines() or ["OK"])))
        return ok
    finally:
        shutil.rmtree(root, ignore_errors=True)


def judge(results, recursive, want_ok):
    """The arrangements that the tool can see completely must agree; where a
    tool that does not descend meets a sub-directory the outcome must be the
    same 'cannot read' error whatever the arrangement of the declarations."""
    blind = [r for r in results if r[0] and not recursive]
    seeing = [r for r in results if not (r[0] and not recursive)]
    verdicts = {r[1] for r in seeing}
    reports = {r[2] for r in seeing}
    expect(verdicts == {want_ok}, "verdict differs between arrangements: %s" % verdicts)
    expect(len(reports) == 1, "code/location differ between arrangements:\n" + "\n".join(reports))
    print("   %d runs over flat and nested arrangements agree: %s %s" %
          (len(seeing), "OK" if want_ok else "error", next(iter(reports))))
    if blind:
        expect({r[1] for r in blind} == {False}, "sub-directory: verdict must not vary")
        codes = {c for r in blind for (c, _, _, _) in eval(r[2])}
        expect(codes == {"P0026"}, "sub-directory: expected P0026 only, got %s" % codes)
        print("   %d runs of a directory with sub-directories: always error P0026 "
              "(sub-directory is taken for a file): behaviour WITHOUT change B" % len(blind))
    elif any(r[0] for r in results):
        print("   including %d runs of a directory with sub-directories: behaviour WITH change B"
              % sum(1 for r in results if r[0]))


def clutter(root):
    """Things a walk must cope with: an empty directory, links that form a
    loop and a link to a directory (links are not followed)."""
    os.makedirs(os.path.join(root, "sub", "empty"), exist_ok=True)


def main():
    ws = sys.argv[1]
    binary = os.path.join(os.path.abspath(ws), "target", "debug", "ironplcc")
    expect(os.access(binary, os.X_OK), "no binary at " + binary)

    recursive = descends(binary)
    print("=> this binary %s into sub-directories\n" %
          ("DESCENDS (change B)" if recursive else "does NOT descend (no change B)"))

    for names in (FLAT, NESTED, NESTED2):
        print("-- file names %s" % names)
        r = explore(binary, "clean unit", [T_LEVEL, FB_USER, FB_CALLER], names, limit=200)
        judge(r, recursive, True)
        r = explore(binary, "one undefined variable", [T_LEVEL, FB_USER, FB_BAD], names, limit=200)
        judge(r, recursive, False)

    if recursive:
        print("-- nested, with an empty sub-directory next to the files")
        r = explore(binary, "clean unit", [T_LEVEL, FB_USER, FB_CALLER], NESTED, limit=100,
                    extra=clutter)
        judge(r, recursive, True)

        # Links are not followed, so a loop cannot trap the walk. A link to a
        # directory is an entry that cannot be read as a file, as before.
        root = tempfile.mkdtemp(prefix="c06demo-")
        try:
            os.makedirs(os.path.join(root, "sub"))
            with open(os.path.join(root, "sub", "t.st"), "w") as f:
                f.write(T_LEVEL + "\n")
            with open(os.path.join(root, "u.st"), "w") as f:
                f.write(FB_USER + "\n")
            ok, diags, err = run_check(binary, [root], root)
            expect(ok, "nested clean unit must be OK")
            os.symlink(root, os.path.join(root, "sub", "loop"))
            ok, diags, err = run_check(binary, [root], root)
            expect(not ok and {d[0] for d in diags} == {"P0026"},
                   "a link to a directory is reported as P0026:\n" + err)
            print("   link sub/loop -> the top directory: no endless walk, error P0026 as for any "
                  "entry that is not a readable file")
        finally:
            shutil.rmtree(root, ignore_errors=True)

    print("PASS: property C06 held on everything tried")


if __name__ == "__main__":
    main()
