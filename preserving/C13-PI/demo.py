#!/usr/bin/env python3
"""Change C: what `ironplcc tokenize` writes to the standard output.

usage: demo.py <compiler workspace>      (binary: $1/target/debug/ironplcc)

Runs `tokenize`, `echo` and `check` on sets of files that do and do not
tokenize / parse, given as files, as a directory and as a mixture, in both
orders, and prints the exit status together with the shape of the two output
streams (number of lines, first and last line of stdout, codes on stderr).
Verified on every run:

  tokenize: exit 0  <=>  every given file tokenizes
            exit != 0  =>  at least one `error[Pnnnn]` on stderr
  echo:     exit 0  <=>  every given file parses
            exit != 0  =>  at least one `error[Pnnnn]` on stderr
  check:    exit 0  <=>  a line `OK` on stdout  <=>  no coded diagnostic on stderr
  every line that tokenize writes for a valid set is either a token or `OK`
  (nothing is lost: the number of token lines is the same with and without
  the change - it is printed so that two runs of this script can be compared)

Which files tokenize / parse is known from how the files were written.

Exit status 0: the contract held on everything tried (with or without the
change); 1: it did not.
"""
import os
import re
import shutil
import subprocess
import sys
import tempfile

ANSI = re.compile(r"\x1b\[[0-9;]*m")
CODE = re.compile(r"error\[(P\d{4})\]")
TOKEN = re.compile(r"^Type: \w+, Value: '.*', At: Ln \d+,Col \d+$")

# text, tokenizes, parses
SOURCES = {
    "good_a.st": ("PROGRAM pa\nVAR x : INT; END_VAR\nx := 1;\nEND_PROGRAM\n", True, True),
    "good_b.st": ("FUNCTION_BLOCK fb\nVAR y : BOOL; END_VAR\ny := TRUE;\nEND_FUNCTION_BLOCK\n", True, True),
    "empty.st": ("", True, True),
    # every character is a token, but the tokens are not a program
    "no_parse.st": ("PROGRAM pn\nVAR x : ; END_VAR\nEND_PROGRAM\n", True, False),
    # a character that is no token at all
    "no_token.st": ("PROGRAM pt\nVAR x : INT; END_VAR\nx := 1 ` 2;\nEND_PROGRAM\n", False, False),
}

failures = []
ENV = dict(os.environ)


def run(binary, cmd, *args):
    p = subprocess.run([binary, cmd, *args], stdout=subprocess.PIPE, stderr=subprocess.PIPE,
                       timeout=120, env=ENV)
    out = p.stdout.decode("utf-8", "replace")
    err = ANSI.sub("", p.stderr.decode("utf-8", "replace"))
    if p.returncode < 0 or "panicked" in err:
        failures.append("%s %s: crashed (%d)" % (cmd, args, p.returncode))
    return p.returncode, out, err


def shape(out):
    lines = out.splitlines()
    if not lines:
        return "0 lines"
    return "%d lines, last %r" % (len(lines), lines[-1][:40])


def one(binary, label, paths, names):
    tokenizes = all(SOURCES[n][1] for n in names)
    parses = all(SOURCES[n][2] for n in names)
    print("  %s" % label)

    rc, out, err = run(binary, "tokenize", *paths)
    codes = CODE.findall(err)
    lines = out.splitlines()
    tokens = [l for l in lines if TOKEN.match(l)]
    others = [l for l in lines if not TOKEN.match(l) and l.strip() != ""]
    print("    tokenize exit=%d stdout: %s (%d token lines); stderr codes=%s lines=%d"
          % (rc, shape(out), len(tokens), ",".join(codes) or "-", len(err.splitlines())))
    if (rc == 0) != tokenizes:
        failures.append("tokenize %s: exit %d but tokenizes=%s" % (label, rc, tokenizes))
    if rc != 0 and not codes:
        failures.append("tokenize %s: failed without a coded diagnostic" % label)
    if rc == 0 and codes:
        failures.append("tokenize %s: succeeded with diagnostics %s" % (label, codes))
    if rc == 0 and [l for l in others if l.strip() != "OK"]:
        failures.append("tokenize %s: unexpected lines on stdout %s" % (label, others[:3]))
    if rc == 0:
        expect = sum(count_tokens(binary, n) for n in set(names))
        if len(tokens) != expect:
            failures.append("tokenize %s: %d token lines, expected %d" % (label, len(tokens), expect))

    rc, out, err = run(binary, "echo", *paths)
    codes = CODE.findall(err)
    print("    echo     exit=%d stdout: %s; stderr codes=%s" % (rc, shape(out), ",".join(codes) or "-"))
    if (rc == 0) != parses:
        failures.append("echo %s: exit %d but parses=%s" % (label, rc, parses))
    if rc != 0 and not codes:
        failures.append("echo %s: failed without a coded diagnostic" % label)

    rc, out, err = run(binary, "check", *paths)
    codes = CODE.findall(err)
    ok_line = any(l.strip() == "OK" for l in out.splitlines())
    print("    check    exit=%d OK=%s codes=%s" % (rc, ok_line, ",".join(codes) or "-"))
    if (rc == 0) != ok_line or (rc == 0) != (not codes):
        failures.append("check %s: exit %d, OK %s, codes %s" % (label, rc, ok_line, codes))
    if (rc == 0) and not parses:
        failures.append("check %s: accepted a file that does not parse" % label)


_counts = {}


def count_tokens(binary, name):
    """Token lines of one file on its own (the reference for sets of files)."""
    if name not in _counts:
        rc, out, err = run(binary, "tokenize", os.path.join(_counts["dir"], name))
        _counts[name] = len([l for l in out.splitlines() if TOKEN.match(l)])
    return _counts[name]


def main():
    ws = sys.argv[1]
    binary = os.path.join(ws, "target", "debug", "ironplcc")
    top = tempfile.mkdtemp(prefix="c13-C-")
    try:
        single = os.path.join(top, "single")
        os.mkdir(single)
        _counts["dir"] = single
        for name, (text, _, _) in SOURCES.items():
            with open(os.path.join(single, name), "w") as f:
                f.write(text)

        print("no file at all")
        one(binary, "(nothing)", [], [])

        print("single files")
        for name in SOURCES:
            one(binary, name, [os.path.join(single, name)], [name])

        print("sets: as files in both orders, as a directory, as a mixture")
        sets = [
            ["good_a.st", "good_b.st"],
            ["good_a.st", "empty.st"],
            ["good_a.st", "no_parse.st"],
            ["good_a.st", "no_token.st"],
            ["good_a.st", "good_b.st", "no_token.st"],
            ["no_parse.st", "no_token.st"],
        ]
        for i, names in enumerate(sets):
            d = os.path.join(top, "set%d" % i)
            os.mkdir(d)
            for n in names:
                shutil.copy(os.path.join(single, n), os.path.join(d, n))
            paths = [os.path.join(d, n) for n in names]
            tag = "+".join(names)
            one(binary, tag + " (files)", paths, names)
            one(binary, tag + " (files, reversed)", list(reversed(paths)), names)
            one(binary, tag + " (directory)", [d], names)
            one(binary, tag + " (directory + file)", [d, paths[-1]], names)
            one(binary, tag + " (file + directory)", [paths[0], d], names)

        print("missing paths")
        missing = os.path.join(top, "missing.st")
        for cmd in ("tokenize", "echo", "check"):
            for args in ([missing], [os.path.join(single, "good_a.st"), missing],
                         [missing, os.path.join(single, "good_a.st")], [single, missing]):
                rc, out, err = run(binary, cmd, *args)
                codes = CODE.findall(err)
                ok_line = any(l.strip() == "OK" for l in out.splitlines())
                print("    %-8s %d path(s) exit=%d OK=%s codes=%s"
                      % (cmd, len(args), rc, ok_line, ",".join(codes) or "-"))
                if rc == 0 or not codes or ok_line:
                    failures.append("%s with a missing path: exit %d, OK %s, codes %s"
                                    % (cmd, rc, ok_line, codes))
    finally:
        shutil.rmtree(top, ignore_errors=True)

    if failures:
        print("CONTRACT BROKEN:")
        for f in failures:
            print("  " + f)
        return 1
    print("contract holds on everything tried")
    return 0


if __name__ == "__main__":
    sys.exit(main())
