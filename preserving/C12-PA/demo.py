#!/usr/bin/env python3
"""Demonstration for behaviour preserving change A of property C12.

usage: demo.py [COMPILER_WORKSPACE] [--no-toggle]

Builds `ironplcc` in the workspace, drives `ironplcc lsp --stdio` through one
fixed history of the kind the property quantifies over, prints what the server
sent, and checks the observables that property C12 names:

  * the server stays alive until shutdown/exit,
  * every request is answered exactly once with the id of the request
    (a result, or an error for a method the server does not implement),
  * no notification and no client response is answered,
  * after shutdown followed by exit the process ends with status 0.

When the workspace is a git work tree in which patch.diff (next to this file)
applies forward or in reverse, the script runs the history on BOTH states
(it toggles the patch, rebuilds, and restores the original state afterwards)
and prints the difference.  With --no-toggle only the current state is run.

Exit status 0: the observables of the property hold on every state that ran.
"""
import json
import os
import queue
import subprocess
import sys
import tempfile
import threading
import time

HERE = os.path.dirname(os.path.abspath(__file__))
PATCH = os.path.join(HERE, "patch.diff")
CHANGE = "A"

FILE_URI = "file:///demo/main.st"
UNOPENED_URI = "file:///demo/never_opened.st"
NON_FILE_URI = "untitled:Untitled-1"
GOOD = "PROGRAM main\nVAR\n  x : INT;\nEND_VAR\n  x := 1;\nEND_PROGRAM\n"
BAD = "PROGRAM main\nVAR\n  x : INT\nEND_VAR\n"


def history():
    """(label, message) pairs sent after initialization, before shutdown."""
    def note(method, params):
        return {"jsonrpc": "2.0", "method": method, "params": params}

    def req(id_, method, params):
        return {"jsonrpc": "2.0", "id": id_, "method": method, "params": params}

    def change(uri, version, texts):
        return note(
            "textDocument/didChange",
            {
                "textDocument": {"uri": uri, "version": version},
                "contentChanges": [{"text": t} for t in texts],
            },
        )

    def open_(uri, text):
        return note(
            "textDocument/didOpen",
            {"textDocument": {"uri": uri, "languageId": "st", "version": 1, "text": text}},
        )

    def tokens(id_, uri):
        return req(id_, "textDocument/semanticTokens/full", {"textDocument": {"uri": uri}})

    return [
        ("didOpen file", open_(FILE_URI, GOOD)),
        ("semanticTokens opened file", tokens(2, FILE_URI)),
        ("request unimplemented method, string id",
         req("hover-1", "textDocument/hover",
             {"textDocument": {"uri": FILE_URI}, "position": {"line": 0, "character": 1}})),
        ("request unimplemented $/ method", req(3, "$/demo/ping", {"n": 1})),
        ("notification unimplemented method",
         note("workspace/didChangeConfiguration", {"settings": {}})),
        ("notification unimplemented $/ method", note("$/setTrace", {"value": "off"})),
        ("client response (server never asked)", {"jsonrpc": "2.0", "id": 99, "result": None}),
        ("client error response (server never asked)",
         {"jsonrpc": "2.0", "id": "x", "error": {"code": -32603, "message": "nope"}}),
        ("didChange 0 changes", change(FILE_URI, 2, [])),
        ("didChange 2 changes", change(FILE_URI, 3, [GOOD, BAD])),
        ("semanticTokens after change", tokens(4, FILE_URI)),
        ("didChange 1 change", change(FILE_URI, 4, [GOOD])),
        ("didOpen non-file URI", open_(NON_FILE_URI, GOOD)),
        ("didChange non-file URI", change(NON_FILE_URI, 2, [BAD])),
        ("didChange unopened file", change(UNOPENED_URI, 7, [GOOD])),
        ("semanticTokens never seen file", tokens(5, "file:///demo/unknown.st")),
        ("semanticTokens non-file URI", tokens(6, NON_FILE_URI)),
        ("request unimplemented method again",
         req(7, "workspace/symbol", {"query": "main"})),
    ]


class Client:
    def __init__(self, binary, scratch):
        env = dict(os.environ)
        env["TMPDIR"] = scratch  # the server writes its log file below TMPDIR
        self.proc = subprocess.Popen(
            [binary, "lsp", "--stdio"],
            stdin=subprocess.PIPE,
            stdout=subprocess.PIPE,
            stderr=subprocess.PIPE,
            env=env,
        )
        self.inbox = queue.Queue()
        self.reader = threading.Thread(target=self._read, daemon=True)
        self.reader.start()

    def _read(self):
        out = self.proc.stdout
        while True:
            length = None
            while True:
                line = out.readline()
                if not line:
                    self.inbox.put(None)
                    return
                line = line.strip()
                if not line:
                    break
                name, _, value = line.partition(b":")
                if name.lower() == b"content-length":
                    length = int(value)
            body = out.read(length)
            self.inbox.put(json.loads(body))

    def send(self, message):
        body = json.dumps(message).encode()
        self.proc.stdin.write(b"Content-Length: %d\r\n\r\n" % len(body) + body)
        self.proc.stdin.flush()

    def drain(self, quiet=0.25, limit=20.0):
        """Everything the server sends until it has been quiet for `quiet` s."""
        got = []
        deadline = time.time() + limit
        while time.time() < deadline:
            try:
                m = self.inbox.get(timeout=quiet)
            except queue.Empty:
                break
            if m is None:
                break
            got.append(m)
        return got


def kind(m):
    if "method" in m and "id" in m:
        return "request"
    if "method" in m:
        return "notification"
    return "response"


def short(m, width=230):
    s = json.dumps(m, sort_keys=True)
    return s if len(s) <= width else s[: width - 3] + "..."


def run(binary, scratch):
    """Runs the history. Returns (transcript, problems)."""
    problems = []
    transcript = []
    c = Client(binary, scratch)
    c.send({"jsonrpc": "2.0", "id": 1, "method": "initialize",
            "params": {"processId": None, "rootUri": None, "capabilities": {}}})
    init = c.drain()
    if [kind(m) for m in init] != ["response"] or init[0].get("id") != 1 or "result" not in init[0]:
        problems.append("initialize was not answered with one result: %r" % init)
    c.send({"jsonrpc": "2.0", "method": "initialized", "params": {}})
    init_extra = c.drain()
    transcript.append(("initialized", None, init_extra))

    answered = {}   # json(id) -> number of responses
    expected = {}   # json(id) -> method
    steps = history() + [("shutdown", {"jsonrpc": "2.0", "id": 1000, "method": "shutdown", "params": None})]
    for label, msg in steps:
        if c.proc.poll() is not None:
            problems.append("server died before %r (status %r)" % (label, c.proc.returncode))
            break
        c.send(msg)
        out = c.drain()
        transcript.append((label, msg, out))
        is_request = "method" in msg and "id" in msg
        if is_request:
            expected[json.dumps(msg["id"])] = msg["method"]
        responses = [m for m in out if kind(m) == "response"]
        for r in responses:
            key = json.dumps(r.get("id"))
            answered[key] = answered.get(key, 0) + 1
            if ("result" in r) == ("error" in r):
                problems.append("response with both or neither of result and error: %s" % short(r))
        if is_request:
            mine = [r for r in responses if r.get("id") == msg["id"]]
            if len(mine) != 1 or len(responses) != 1:
                problems.append("request %r (%s) got %d answers with its id, %d responses in all"
                                % (msg["id"], label, len(mine), len(responses)))
            elif msg["method"] in ("textDocument/semanticTokens/full", "shutdown"):
                if "result" not in mine[0]:
                    problems.append("implemented method answered without result: %s" % short(mine[0]))
            else:
                if "error" not in mine[0]:
                    problems.append("unimplemented method answered without error: %s" % short(mine[0]))
        else:
            if responses:
                problems.append("%s was answered: %s" % (label, [short(r) for r in responses]))
        for m in out:
            if kind(m) == "request":
                # Not forbidden by the property, but this demo does not expect it.
                transcript.append(("(server request)", None, [m]))

    for key, method in expected.items():
        if answered.get(key, 0) != 1:
            problems.append("request id %s (%s) answered %d times" % (key, method, answered.get(key, 0)))
    for key in answered:
        if key not in expected:
            problems.append("response for id %s that no request had" % key)

    if c.proc.poll() is not None:
        problems.append("server ended before exit was sent (status %r)" % c.proc.returncode)
    c.send({"jsonrpc": "2.0", "method": "exit", "params": None})
    try:
        status = c.proc.wait(timeout=30)
    except subprocess.TimeoutExpired:
        c.proc.kill()
        status = None
    late = c.drain(quiet=0.1)
    if late:
        problems.append("messages after exit: %r" % late)
    stderr = c.proc.stderr.read().decode(errors="replace")
    if status != 0:
        problems.append("exit status %r after shutdown and exit (stderr: %s)" % (status, stderr.strip()))
    transcript.append(("exit", None, []))
    return transcript, problems, status, stderr


def show(title, transcript, status, stderr):
    print("=" * 78)
    print(title)
    print("=" * 78)
    for label, msg, out in transcript:
        if msg is None and not out:
            continue
        tag = ""
        if msg is not None:
            tag = " [request id=%s]" % json.dumps(msg["id"]) if ("method" in msg and "id" in msg) else (
                " [notification]" if "method" in msg else " [client response]")
        print("-> %s%s" % (label, tag))
        if not out:
            print("     (server sent nothing)")
        for m in out:
            print("     <- %-12s %s" % (kind(m), short(m)))
    print("exit status: %r   stderr: %r" % (status, stderr))


def highlight(transcript):
    """The part of the behaviour that change A alters: the error responses."""
    lines = []
    for label, msg, out in transcript:
        for m in out:
            if kind(m) == "response" and "error" in m:
                lines.append("id=%s error=%s" % (json.dumps(m["id"]), json.dumps(m["error"], sort_keys=True)))
    return lines


def build(workspace, scratch):
    env = dict(os.environ)
    env["CARGO_NET_OFFLINE"] = "true"
    env["TMPDIR"] = scratch
    subprocess.run(["cargo", "build", "--offline", "-q", "-p", "ironplcc", "--bin", "ironplcc"],
                   cwd=workspace, env=env, check=True)
    target = os.environ.get("CARGO_TARGET_DIR", os.path.join(workspace, "target"))
    return os.path.join(target, "debug", "ironplcc")


def git(workspace, *args):
    return subprocess.run(["git", *args], cwd=workspace, stdout=subprocess.PIPE,
                          stderr=subprocess.PIPE)


def patch_state(workspace):
    if not os.path.exists(PATCH):
        return None
    top = git(workspace, "rev-parse", "--show-toplevel")
    if top.returncode != 0:
        return None
    top = top.stdout.decode().strip()
    if git(top, "apply", "--check", PATCH).returncode == 0:
        return ("before", top)
    if git(top, "apply", "--check", "-R", PATCH).returncode == 0:
        return ("after", top)
    return None


def main():
    args = [a for a in sys.argv[1:] if not a.startswith("--")]
    toggle = "--no-toggle" not in sys.argv[1:]
    workspace = os.path.abspath(args[0] if args else "/tmp/mut4/C12/compiler")
    ok = True
    with tempfile.TemporaryDirectory() as scratch:
        state = patch_state(workspace) if toggle else None
        results = {}

        def one(name):
            binary = build(workspace, scratch)
            t, problems, status, stderr = run(binary, scratch)
            results[name] = (t, problems)
            show("change %s: %s" % (CHANGE, name), t, status, stderr)
            print("property C12 observables on this run: %s"
                  % ("HOLD" if not problems else "VIOLATED"))
            for p in problems:
                print("   problem: " + p)
            return not problems

        if state is None:
            ok = one("current state of the workspace")
            print("\npart of the behaviour that the change touches:")
            for line in highlight(results["current state of the workspace"][0]):
                print("   " + line)
        else:
            now, top = state
            other = "after" if now == "before" else "before"
            names = {"before": "BEFORE (HEAD, patch not applied)", "after": "AFTER (patch applied)"}
            ok = one(names[now])
            flag = [] if now == "before" else ["-R"]
            subprocess.run(["git", "apply", *flag, PATCH], cwd=top, check=True)
            try:
                ok = one(names[other]) and ok
            finally:
                back = ["-R"] if now == "before" else []
                subprocess.run(["git", "apply", *back, PATCH], cwd=top, check=True)
                build(workspace, scratch)
            print()
            print("=" * 78)
            print("difference made by change %s" % CHANGE)
            print("=" * 78)
            b = highlight(results[names["before"]][0])
            a = highlight(results[names["after"]][0])
            print("BEFORE:")
            for line in b:
                print("   " + line)
            print("AFTER:")
            for line in a:
                print("   " + line)
            if a == b:
                print("(no visible difference: unexpected)")
                ok = False
    print()
    print("RESULT: property C12 observables %s" % ("hold" if ok else "DO NOT hold"))
    return 0 if ok else 1


if __name__ == "__main__":
    sys.exit(main())
