#!/bin/sh
# Demonstration for change C (presentation: plain text when stderr is no terminal,
# "Checked N files" line on stdout).
#
# usage: demo.sh [compiler-workspace]      (default /tmp/mut4/C13/compiler)
#
# Builds ironplcc without and with patch.diff (the workspace is put back into
# the state it was found in), runs both on the same examples and prints the
# difference. Exits 0 when the observables of property C13 hold on every
# example for both binaries.
set -eu

WS="${1:-/tmp/mut4/C13/compiler}"
HERE=$(cd "$(dirname "$0")" && pwd)
PATCH="$HERE/patch.diff"
TOP=$(git -C "$WS" rev-parse --show-toplevel)
T=$(mktemp -d)
: "${T:?}"

state() {
    if git -C "$TOP" apply --check -R "$PATCH" 2>/dev/null; then
        echo patched
    elif git -C "$TOP" apply --check "$PATCH" 2>/dev/null; then
        echo unpatched
    else
        echo unknown
    fi
}
to_state() {
    want="$1"
    have=$(state)
    if [ "$have" = "$want" ]; then return 0; fi
    if [ "$want" = patched ]; then git -C "$TOP" apply "$PATCH"; else git -C "$TOP" apply -R "$PATCH"; fi
}
build() {
    (cd "$WS" && CARGO_NET_OFFLINE=true cargo build --offline -q -p ironplcc 2>"$T/build.log") || {
        cat "$T/build.log" >&2
        exit 2
    }
    cp "$WS/target/debug/ironplcc" "$1"
}

INITIAL=$(state)
if [ "$INITIAL" = unknown ]; then
    echo "patch.diff neither applies nor reverse-applies in $TOP" >&2
    rm -rf "$T"
    exit 2
fi
cleanup() {
    : "${T:?}"
    to_state "$INITIAL" || echo "WARNING: could not restore the workspace" >&2
    rm -rf "$T"
}
trap cleanup EXIT

to_state unpatched
build "$T/before"
to_state patched
build "$T/after"
to_state "$INITIAL"

# ---------------------------------------------------------------- examples
W="$T/work"
mkdir -p "$W/good" "$W/mixed"
cp "$WS/resources/test/first_steps.st" "$W/good/first_steps.st"
printf 'PROGRAM p\nVAR x : INT; END_VAR\nx := ;\nEND_PROGRAM\n' >"$W/syntax_error.st"
cp "$WS/resources/test/first_steps.st" "$W/mixed/a_good.st"
cp "$WS/resources/test/first_steps_semantic_error.st" "$W/mixed/b_semantic_error.st"
# an identifier named OK and a comment with OK in it must not confuse anything
printf 'PROGRAM OK\nVAR OK_ : INT; END_VAR\n(* OK *)\nOK_ := ;\nEND_PROGRAM\n' >"$W/OK.st"

strip_ansi() { sed 's/\x1b\[[0-9;]*m//g'; }

FAIL=0
# run_check BIN ARGS...: runs `check` and checks the observables of C13.
run_check() {
    bin="$1"
    shift
    rc=0
    "$T/$bin" check "$@" >"$T/out" 2>"$T/err.raw" || rc=$?
    strip_ansi <"$T/err.raw" >"$T/err"
    esc=$(grep -c "$(printf '\033')" "$T/err.raw" || true)
    ok=$(grep -cx 'OK' "$T/out" || true)
    oksub=$(grep -c 'OK' "$T/out" || true)
    ndiag=$(grep -cE '^error\[P[0-9]+\]' "$T/err" || true)
    first=$(head -n 1 "$T/err.raw" | cat -v)
    verdict=VIOLATED
    if [ "$rc" -eq 0 ] && [ "$ok" -ge 1 ] && [ "$ndiag" -eq 0 ]; then verdict=holds; fi
    # on failure not even a substring OK may be on stdout
    if [ "$rc" -ne 0 ] && [ "$oksub" -eq 0 ] && [ "$ndiag" -ge 1 ]; then verdict=holds; fi
    [ "$verdict" = holds ] || FAIL=1
    if [ "$rc" -eq 0 ]; then echo pass >"$T/verdict.$bin"; else echo fail >"$T/verdict.$bin"; fi
    printf '  %-6s exit=%s stdout="%s" coded-diagnostics=%s stderr-lines-with-ESC=%s C13:%s\n         first stderr line: %s\n' \
        "$bin" "$rc" "$(tr '\n' '|' <"$T/out")" "$ndiag" "$esc" "$verdict" "$first"
}
example() {
    echo
    echo "== check $1"
    shift
    run_check before "$@"
    run_check after "$@"
}
dir_vs_list() {
    bin="$1"
    dir="$2"
    shift 2
    run_check "$bin" "$dir"
    v1=$(cat "$T/verdict.$bin")
    run_check "$bin" "$@"
    v2=$(cat "$T/verdict.$bin")
    if [ "$v1" = "$v2" ]; then
        echo "         directory and list of its files agree ($v1)"
    else
        echo "         directory and list of its files DISAGREE ($v1 / $v2)"
        FAIL=1
    fi
}

cd "$W"
example "valid directory                    : good" good
example "directory and its file again       : good good/first_steps.st" good good/first_steps.st
example "file with a syntax error           : syntax_error.st" syntax_error.st
example "syntax error in a file named OK.st : OK.st" OK.st
example "valid dir + file with syntax error : good syntax_error.st" good syntax_error.st
example "missing path                       : missing.st" missing.st
example "valid dir + missing path           : good missing.st" good missing.st

echo
echo "== directory 'mixed' (a_good.st, b_semantic_error.st) against the list of its files"
echo "  -- before"
dir_vs_list before mixed mixed/b_semantic_error.st mixed/a_good.st
echo "  -- after"
dir_vs_list after mixed mixed/b_semantic_error.st mixed/a_good.st

echo
echo "== echo / tokenize exit status (unchanged by this change)"
for bin in before after; do
    rc1=0; "$T/$bin" echo syntax_error.st good >/dev/null 2>&1 || rc1=$?
    rc2=0; "$T/$bin" echo mixed >/dev/null 2>&1 || rc2=$?
    rc3=0; "$T/$bin" tokenize good >/dev/null 2>&1 || rc3=$?
    rc4=0; "$T/$bin" tokenize good missing.st >/dev/null 2>&1 || rc4=$?
    v=holds
    if [ "$rc1" -eq 0 ] || [ "$rc2" -ne 0 ] || [ "$rc3" -ne 0 ] || [ "$rc4" -eq 0 ]; then v=VIOLATED; FAIL=1; fi
    printf '  %-6s echo(bad,good)=%s echo(mixed)=%s tokenize(good)=%s tokenize(good,missing)=%s C13:%s\n' \
        "$bin" "$rc1" "$rc2" "$rc3" "$rc4" "$v"
done

echo
if [ "$FAIL" -eq 0 ]; then
    echo "RESULT: the observables of C13 hold on every example, before and after the change"
else
    echo "RESULT: an observable of C13 does NOT hold"
fi
exit "$FAIL"
