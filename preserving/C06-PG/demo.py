#!/usr/bin/env python3
"""Demo and small independent check for change A (symmetric duplicate names).

usage: demo.py <compiler workspace dir>     (binary: $1/target/debug/ironplcc)

Exit status 0 when property C06 held on everything that was tried.
"""
import itertools
import os
import random
import re
import shutil
import subprocess
import sys
import tempfile

ANSI = re.compile(r"\x1b\[[0-9;]*m")
HEAD = re.compile(r"^error\[(P\d+)\]: (.*)$")
LOCUS = re.compile(r"^\s*┌─ (.*):(\d+):(\d+)$")
SRC = re.compile(r"^\s*(\d+) │ ?(.*)$")
MARK = re.compile(r"^\s*│ ?(\s*)(\^+|-+)(?: (.*))?$")


def run_check(binary, args, cwd):
    p = subprocess.run([binary, "check"] + args, cwd=cwd, stdout=subprocess.PIPE,
                       stderr=subprocess.PIPE, timeout=60)
    out = p.stdout.decode("utf-8", "replace")
    err = ANSI.sub("", p.stderr.decode("utf-8", "replace"))
    if p.returncode < 0 or p.returncode == 101 or "panicked" in err:
        raise SystemExit("FAIL: crash on %r\n%s" % (args, err))
    ok = out.strip() == "OK" and p.returncode == 0
    if not ok and p.returncode == 0:
        raise SystemExit("FAIL: no OK and exit status 0 on %r\n%s%s" % (args, out, err))
    return ok, parse(err), err


def parse(err):
    """-> list of diagnostics: (code, message, [(style, file, line, col, text)])"""
    diags = []
    cur = None
    path = None
    line_no = None
    for raw in err.splitlines():
        m = HEAD.match(raw)
        if m:
            cur = (m.group(1), m.group(2), [])
            diags.append(cur)
            path = None
            continue
        if cur is None:
            continue
        m = LOCUS.match(raw)
        if m:
            path = m.group(1)
            line_no = None
            continue
        m = SRC.match(raw)
        if m and path is not None:
            line_no = int(m.group(1))
            continue
        m = MARK.match(raw)
        if m and path is not None and line_no is not None:
            style = "primary" if m.group(2)[0] == "^" else "secondary"
            cur[2].append((style, os.path.realpath(path), line_no,
                           len(m.group(1)) + 1, m.group(3) or ""))
    return diags


class Layout:
    """Declarations written to files; knows which declaration owns a line."""

    def __init__(self, root, decls, order, assignment, names):
        # order: permutation of range(len(decls)); assignment[i]: file index of
        # the declaration at position i of the order; names[k]: name of file k
        self.owner = {}
        self.files = []
        per_file = {}
        for pos, d in enumerate(order):
            per_file.setdefault(assignment[pos], []).append(d)
        for k in sorted(per_file):
            path = os.path.join(root, names[k])
            os.makedirs(os.path.dirname(path), exist_ok=True)
            text = []
            for d in per_file[k]:
                for rel, l in enumerate(decls[d].split("\n")):
                    self.owner[(os.path.realpath(path), len(text) + 1)] = (d, rel)
                    text.append(l)
                text.append("")
            with open(path, "w") as f:
                f.write("\n".join(text) + "\n")
            self.files.append(path)

    def signature(self, diags, with_messages=True):
        """The diagnostics in terms of declarations, as a sorted list."""
        sig = []
        for code, message, labels in diags:
            labs = []
            for style, path, line, col, text in labels:
                d, rel = self.owner.get((path, line), ("?", line))
                labs.append((style, d, rel, col) + ((text,) if with_messages else ()))
            prim = tuple(l for l in labs if l[0] == "primary")
            sec = tuple(sorted(l for l in labs if l[0] == "secondary"))
            sig.append((code, message if with_messages else "", prim, sec))
        return sorted(sig)


def set_partitions(n, max_blocks):
    """Restricted growth strings: assignment of n items to <= max_blocks files."""
    def rec(prefix, used):
        if len(prefix) == n:
            yield tuple(prefix)
            return
        for b in range(min(used + 1, max_blocks)):
            yield from rec(prefix + [b], max(used, b + 1))
    yield from rec([], 0)


NAMES = ["a.st", "m.st", "z.st"]


def variants(n, rng, limit):
    """(order, assignment, names, argument order or None for 'the directory')"""
    allv = []
    for order in itertools.permutations(range(n)):
        for assignment in set_partitions(n, 3):
            k = max(assignment) + 1
            for names in itertools.permutations(NAMES, k):
                for args in itertools.permutations(range(k)):
                    allv.append((order, assignment, names, args))
                allv.append((order, assignment, names, None))
    if len(allv) > limit:
        allv = rng.sample(allv, limit)
    return allv


def explore(binary, title, decls, limit=350, repeats=2):
    """Runs all variants; returns {verdict}, {signature}, count"""
    rng = random.Random(6)
    verdicts = {}
    signatures = {}
    shapes = {}
    n = 0
    for order, assignment, names, args in variants(len(decls), rng, limit):
        root = tempfile.mkdtemp(prefix="c06demo-")
        try:
            lay = Layout(root, decls, order, assignment, names)
            argv = [root] if args is None else [lay.files[i] for i in args]
            for _ in range(repeats):  # fresh process, fresh hash seed
                ok, diags, err = run_check(binary, argv, root)
                n += 1
                verdicts.setdefault(ok, (order, assignment, names, args))
                signatures.setdefault(repr(lay.signature(diags)), err)
                shapes.setdefault(repr(lay.signature(diags, False)), err)
        finally:
            shutil.rmtree(root, ignore_errors=True)
    print("== %s: %d runs, verdicts %s, %d distinct report(s)" %
          (title, n, sorted("OK" if v else "error" for v in verdicts), len(signatures)))
    return verdicts, signatures, shapes


def expect(cond, what):
    if not cond:
        print("FAIL: " + what)
        sys.exit(1)


# --------------------------------------------------------------------------

T_LEVEL = "TYPE\n  LEVEL : (LOW, HIGH) := LOW;\nEND_TYPE"
T_LEVEL2 = "TYPE\n  Level : (UP, DOWN) := UP;\nEND_TYPE"
FB_USER = ("FUNCTION_BLOCK USER\nVAR\n  lvl : LEVEL;\n  done : BOOL;\nEND_VAR\n"
           "  done := TRUE;\nEND_FUNCTION_BLOCK")
FB_BAD = ("FUNCTION_BLOCK WORKER\nVAR\n  done : BOOL;\nEND_VAR\n"
          "  done := missing;\nEND_FUNCTION_BLOCK")
FB_CALLER = ("FUNCTION_BLOCK CALLER\nVAR\n  u : USER;\nEND_VAR\n"
             "  u();\nEND_FUNCTION_BLOCK")
FB_USER2 = ("FUNCTION_BLOCK user\nVAR\n  flag : BOOL;\nEND_VAR\n"
            "  flag := FALSE;\nEND_FUNCTION_BLOCK")


def main():
    ws = sys.argv[1]
    binary = os.path.join(os.path.abspath(ws), "target", "debug", "ironplcc")
    expect(os.access(binary, os.X_OK), "no binary at " + binary)

    # 1. clean unit: what is declared in one file is visible in the others
    v, s, _ = explore(binary, "clean unit", [T_LEVEL, FB_USER, FB_CALLER])
    expect(set(v) == {True}, "clean unit must be OK in every arrangement")

    # 2. one fault that lives in one declaration: code and location fixed
    v, s, _ = explore(binary, "one undefined variable", [T_LEVEL, FB_USER, FB_BAD])
    expect(set(v) == {False}, "verdict must be 'error' in every arrangement")
    expect(len(s) == 1, "code and location must not depend on the arrangement:\n"
           + "\n".join(s))
    print("   report: " + next(iter(s)))

    # 3. one duplicated type name (a fault that involves two declarations)
    for title, decls, dups in (
        ("duplicated type name", [T_LEVEL, T_LEVEL2, FB_USER], {0, 1}),
        ("duplicated function block name", [T_LEVEL, FB_USER, FB_USER2, FB_CALLER], {1, 2}),
    ):
        v, s, shapes = explore(binary, title, decls)
        expect(set(v) == {False}, "verdict must be 'error' in every arrangement")
        named_sets = set()
        for sig in shapes:
            sig = eval(sig)
            expect({d[0] for d in sig} == {"P0019"}, "only P0019 expected: %r" % (sig,))
            named = set()
            for code, _, prim, sec in sig:
                expect(len(prim) == 1, "one primary label per diagnostic")
                named.update(l[1] for l in prim + sec)
            named_sets.add(frozenset(named))
            expect(named == dups, "labels must name exactly the two declarations: %r" % (sig,))
        primaries = {tuple(sorted(p[1] for d in eval(sig) for p in d[2])) for sig in shapes}
        print("   declarations carrying a primary label, over all arrangements: %s"
              % sorted(primaries))
        if len(shapes) == 1:
            print("   -> ONE report for every arrangement (each of the two declarations"
                  " has its own diagnostic): behaviour WITH change A")
        else:
            print("   -> %d reports: the single primary label is on whichever declaration"
                  " comes later: behaviour WITHOUT change A" % len(shapes))
        print("   example:\n" + "\n".join("      " + l for l in
                                          next(iter(shapes.values())).splitlines()))

    # 4. three declarations of one name plus another duplicated name
    v, s, shapes = explore(binary, "two duplicated names (several faults)",
                           [T_LEVEL, T_LEVEL2, T_LEVEL.replace("LOW", "L0"), FB_USER, FB_USER2],
                           limit=150)
    expect(set(v) == {False}, "verdict must be 'error' in every arrangement")
    counts = sorted({len(eval(sig)) for sig in shapes})
    print("   number of diagnostics seen: %s (1 = stops at the first duplicate; "
          "5 = one per declaration involved)" % counts)

    print("PASS: property C06 held on everything tried")


if __name__ == "__main__":
    main()
