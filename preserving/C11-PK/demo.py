#!/usr/bin/env python3
"""Demo for change A: workspace/didChangeWatchedFiles re-reads never-opened workspace files.

usage: demo.py <compiler workspace dir>      (binary: $1/target/debug/ironplcc)

Prints what the server does around file events and checks the property C11 on
the histories it plays. Exits 0 when the property holds on what it tried (with
and without the change).
"""
import json
import os
import queue
import re
import shutil
import subprocess
import sys
import tempfile
import threading
from urllib.parse import quote

BIN = os.path.join(os.path.abspath(sys.argv[1]), "target", "debug", "ironplcc")
TIMEOUT = 60
failures = []


def fail(msg):
    failures.append(msg)
    print("PROPERTY VIOLATION: " + msg)


def uri_of(path):
    return "file://" + quote(path)


class Server:
    """A language server process with a strictly sequential client."""

    def __init__(self, root, folder=None, watch=False):
        env = dict(os.environ, TMPDIR=os.path.join(root, "tmp"))
        self.proc = subprocess.Popen([BIN, "lsp", "--stdio"], stdin=subprocess.PIPE,
                                     stdout=subprocess.PIPE, stderr=subprocess.DEVNULL,
                                     cwd=os.path.join(root, "cwd"), env=env)
        self.inbox = queue.Queue()
        threading.Thread(target=self._reader, daemon=True).start()
        self.next_id = 0
        self.log = []  # every message from the server, in order
        caps = {}
        if watch:
            caps = {"workspace": {"didChangeWatchedFiles": {"dynamicRegistration": True}}}
        params = {"processId": None, "rootUri": None, "capabilities": caps}
        if folder is not None:
            params["workspaceFolders"] = [{"uri": uri_of(folder), "name": "ws"}]
        self.init_result = self.request("initialize", params)
        self.notify("initialized", {})

    def _reader(self):
        out = self.proc.stdout
        while True:
            length = None
            while True:
                line = out.readline()
                if not line:
                    self.inbox.put(None)
                    return
                line = line.strip()
                if not line:
                    break
                if line.lower().startswith(b"content-length:"):
                    length = int(line.split(b":")[1])
            self.inbox.put(json.loads(out.read(length).decode("utf-8")))

    def _send(self, obj):
        body = json.dumps(obj).encode("utf-8")
        self.proc.stdin.write(b"Content-Length: %d\r\n\r\n" % len(body) + body)
        self.proc.stdin.flush()

    def notify(self, method, params):
        self._send({"jsonrpc": "2.0", "method": method, "params": params})

    def _recv(self):
        msg = self.inbox.get(timeout=TIMEOUT)
        if msg is None:
            raise RuntimeError("the server went away")
        self.log.append(msg)
        # a request from the server: answer it (this client accepts everything)
        if "method" in msg and "id" in msg:
            self._send({"jsonrpc": "2.0", "id": msg["id"], "result": None})
        return msg

    def request(self, method, params):
        """Sends a request and returns (result or error); collects everything before it."""
        self.next_id += 1
        rid = self.next_id
        self._send({"jsonrpc": "2.0", "id": rid, "method": method, "params": params})
        while True:
            msg = self._recv()
            if "method" not in msg and msg.get("id") == rid:
                return msg.get("result", msg.get("error"))

    def settle(self):
        """Returns the messages the server sent since the last call.

        The server works through its input in order, so once the answer to a
        request arrives, everything caused by earlier messages has arrived."""
        start = len(self.log)
        self.request("demo/barrier", None)
        return self.log[start:-1]

    def edit(self, method, path, version, text):
        """didOpen/didChange; returns (the answer, everything the server sent)."""
        uri = uri_of(path)
        if method == "didOpen":
            params = {"textDocument": {"uri": uri, "languageId": "st", "version": version,
                                       "text": text}}
        else:
            params = {"textDocument": {"uri": uri, "version": version},
                      "contentChanges": [{"text": text}]}
        self.notify("textDocument/" + method, params)
        msgs = self.settle()
        answers = [m for m in msgs if m.get("method") == "textDocument/publishDiagnostics"
                   and m["params"]["uri"] == uri and m["params"].get("version") == version]
        if len(answers) != 1:
            fail("%s %s v%d got %d answers with that version" % (method, path, version, len(answers)))
            return None, msgs
        return answers[0]["params"], msgs

    def stop(self):
        self.request("shutdown", None)
        self.notify("exit", None)
        self.proc.stdin.close()
        self.proc.wait(timeout=TIMEOUT)


def essence(publish):
    """What the property compares: code and start position (plus the message)."""
    return sorted((d["code"], d["range"]["start"]["line"], d["range"]["start"]["character"],
                   d["message"]) for d in publish["diagnostics"])


def positions(publish):
    return sorted((d["code"], d["range"]["start"]["line"], d["range"]["start"]["character"])
                  for d in publish["diagnostics"])


def check(root, files, wanted):
    """Runs `ironplcc check` on files with the given contents in a fresh directory and
    returns the (code, line, character) it reports for the file `wanted` (0-based, the
    texts here only have characters of the basic plane so characters = UTF-16 units)."""
    d = tempfile.mkdtemp(dir=root, prefix="chk ü ")
    paths = []
    for name, text in files.items():
        p = os.path.join(d, name)
        with open(p, "w", encoding="utf-8", newline="") as f:
            f.write(text)
        paths.append(p)
    env = dict(os.environ, TMPDIR=os.path.join(root, "tmp"))
    r = subprocess.run([BIN, "check"] + paths, cwd=os.path.join(root, "cwd"), env=env,
                       capture_output=True, timeout=TIMEOUT)
    err = re.sub(r"\x1b\[[0-9;]*m", "", r.stderr.decode("utf-8"))
    found = []
    code = None
    for line in err.splitlines():
        m = re.match(r"error\[(\w+)\]", line)
        if m:
            code = m.group(1)
        m = re.match(r"\s*┌─ (.*):(\d+):(\d+)$", line)
        if m and code is not None:
            if os.path.realpath(m.group(1)) == os.path.realpath(os.path.join(d, wanted)):
                found.append((code, int(m.group(2)) - 1, int(m.group(3)) - 1))
            code = None
    return sorted(found)


LIB = "TYPE\n  LEVEL : (LOW, HIGH) := LOW;\nEND_TYPE\n"
LIB_OTHER = "TYPE\n  OTHER : (A1, B1) := A1;\nEND_TYPE\n"
MAIN = "FUNCTION_BLOCK Tank\nVAR\n  (* é ü *) lvl : LEVEL;\nEND_VAR\nEND_FUNCTION_BLOCK\n"
BROKEN = "FUNCTION_BLOCK Tank\nVAR\n  lvl : LEVEL\nEND_VAR\nEND_FUNCTION_BLOCK\n"


def write(path, text):
    with open(path, "w", encoding="utf-8", newline="") as f:
        f.write(text)


def show(label, msgs):
    for m in msgs:
        if "method" in m:
            p = m.get("params") or {}
            if m["method"] == "textDocument/publishDiagnostics":
                print("    %s <- publishDiagnostics %s version=%s codes=%s" % (
                    label, os.path.basename(p["uri"]), p.get("version"),
                    [d["code"] for d in p["diagnostics"]]))
            else:
                print("    %s <- %s %s" % (label, m["method"], json.dumps(p)[:160]))


def main():
    root = tempfile.mkdtemp(prefix="c11 demo Ä ")
    try:
        for d in ("tmp", "cwd", "wörk space"):
            os.mkdir(os.path.join(root, d))
        ws = os.path.join(root, "wörk space")
        lib, main_st = os.path.join(ws, "lib.st"), os.path.join(ws, "main.st")
        write(lib, LIB)

        print("== a server with a workspace folder; lib.st only exists on disk")
        s = Server(root, folder=ws, watch=True)
        start = s.settle()
        show("after initialized", start)
        registered = any(m.get("method") == "client/registerCapability" for m in start)
        print("  server asked to watch files: %s" % registered)

        a1, msgs = s.edit("didOpen", main_st, 1, MAIN)
        show("didOpen main.st v1", msgs)

        print("== lib.st changes on disk (LEVEL is gone), the client announces it")
        write(lib, LIB_OTHER)
        s.notify("workspace/didChangeWatchedFiles", {"changes": [{"uri": uri_of(lib), "type": 2}]})
        events = s.settle()
        show("file event", events)
        if not events:
            print("    (nothing sent)")
        for m in events:
            if m.get("method") == "textDocument/publishDiagnostics" and \
                    m["params"].get("version") is not None:
                fail("a publish with a version that answers no didOpen/didChange")

        a2, msgs = s.edit("didChange", main_st, 2, MAIN)
        show("didChange main.st v2", msgs)

        # what a fresh server that reads the folder now says (informational: for a
        # file that is not open, the unchanged server keeps what it read at start)
        f = Server(root, folder=ws)
        fa, _ = f.edit("didOpen", main_st, 1, MAIN)
        f.stop()
        if a2 and fa:
            print("  v2 answer equals a fresh server reading the folder now: %s" %
                  (essence(a2) == essence(fa)))

        print("== lib.st is deleted, then LEVEL comes back in a new file Lib2.IEC; both announced")
        os.remove(lib)
        s.notify("workspace/didChangeWatchedFiles", {"changes": [{"uri": uri_of(lib), "type": 3}]})
        show("deleted", s.settle())
        lib2 = os.path.join(ws, "Lib2.IEC")
        write(lib2, LIB)
        s.notify("workspace/didChangeWatchedFiles", {"changes": [{"uri": uri_of(lib2), "type": 1}]})
        show("created", s.settle())
        a5, msgs = s.edit("didChange", main_st, 5, MAIN)
        show("didChange main.st v5", msgs)
        f = Server(root, folder=ws)
        fa, _ = f.edit("didOpen", main_st, 1, MAIN)
        f.stop()
        if a5 and fa:
            print("  v5 answer equals a fresh server reading the folder now: %s" %
                  (essence(a5) == essence(fa)))
        os.remove(lib2)
        s.notify("workspace/didChangeWatchedFiles", {"changes": [{"uri": uri_of(lib2), "type": 3}]})
        show("deleted", s.settle())

        print("== a file event that is malformed, for another directory, for a file that is gone")
        s.notify("workspace/didChangeWatchedFiles", {"changes": "nonsense"})
        s.notify("workspace/didChangeWatchedFiles",
                 {"changes": [{"uri": uri_of(os.path.join(root, "cwd", "lib.st")), "type": 1},
                              {"uri": uri_of(os.path.join(ws, "nothing.st")), "type": 3}]})
        show("odd events", s.settle())

        print("== now the client opens lib.st: its text is what counts, the disk is not")
        history = [("didOpen", lib, 1, LIB), ("didChange", main_st, 6, BROKEN),
                   ("didChange", lib, 2, LIB_OTHER), ("didChange", main_st, 7, MAIN),
                   ("didChange", lib, 3, LIB)]
        current = {main_st: MAIN}
        for i, (method, path, version, text) in enumerate(history):
            if lib in current:
                # the disk says something else than the editor, and the client announces it
                write(lib, [LIB_OTHER, "TYPE\n", LIB][i % 3])
                s.notify("workspace/didChangeWatchedFiles",
                         {"changes": [{"uri": uri_of(lib), "type": 2}]})
                extra = s.settle()
                show("file event for the open lib.st", extra)
                if extra:
                    fail("a file event for an open document caused traffic")
            answer, msgs = s.edit(method, path, version, text)
            show("%s %s v%d" % (method, os.path.basename(path), version), msgs)
            current[path] = text
            if answer is None:
                continue

            # the property: a fresh server, the other document first, this one last
            f = Server(root, folder=ws)
            for other, other_text in current.items():
                if other != path:
                    f.edit("didOpen", other, 1, other_text)
            fresh, _ = f.edit("didOpen", path, 1, text)
            f.stop()
            if fresh is not None and essence(fresh) != essence(answer):
                fail("history and fresh server differ for %s v%d: %s / %s" % (
                    path, version, essence(answer), essence(fresh)))
            # and `check` on files with the same contents
            names = {os.path.basename(p): t for p, t in current.items()}
            expected = check(root, names, os.path.basename(path))
            if expected != positions(answer):
                fail("check and server differ for %s v%d: %s / %s" % (
                    path, version, expected, positions(answer)))
            print("    = fresh server: %s   = check: %s" % (
                fresh is not None and essence(fresh) == essence(answer), expected == positions(answer)))
        s.stop()

        print("== without a workspace folder file events change nothing")
        s = Server(root, watch=True)
        show("after initialized", s.settle())
        b1, _ = s.edit("didOpen", main_st, 1, MAIN)
        s.notify("workspace/didChangeWatchedFiles", {"changes": [{"uri": uri_of(lib), "type": 2}]})
        extra = s.settle()
        b2, _ = s.edit("didChange", main_st, 2, MAIN)
        s.stop()
        if extra:
            fail("traffic after a file event without a workspace folder")
        if b1 and b2 and essence(b1) != essence(b2):
            fail("without a folder the answer changed after a file event")
        expected = check(root, {"main.st": MAIN}, "main.st")
        if b2 and positions(b2) != expected:
            fail("check and server differ without folder: %s / %s" % (expected, positions(b2)))
        print("    answers %s, check %s" % (positions(b2) if b2 else None, expected))
    finally:
        shutil.rmtree(root, ignore_errors=True)

    if failures:
        print("FAILED: %d violations" % len(failures))
        return 1
    print("OK: the property held on everything tried")
    return 0


if __name__ == "__main__":
    sys.exit(main())
