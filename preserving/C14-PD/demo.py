#!/usr/bin/env python3
"""Demonstration for change A (UTF-32 with byte-order mark is decoded).

usage: demo.py [compiler workspace]   (default /tmp/mut6/C14/compiler)

Builds `ironplcc` in the given workspace and
 1. checks the stated observables of property C14 on concrete examples
    (exit status 0 only if they hold):
      a. the same program in the five encodings gives the same verdict,
         problem codes and line/column positions,
      b. arbitrary byte content (here: files that start with a UTF-32
         byte-order mark, well-formed or not, and random bytes) gives a
         verdict, no crash, and positions inside the decoded text;
 2. prints what the tool says about the same programs stored as UTF-32.
    This is the behaviour that differs before/after the change.

Files are only created in a `mktemp -d` style directory, which is also TMPDIR
of the tool.
"""
import os
import random
import re
import shutil
import subprocess
import sys
import tempfile

WS = sys.argv[1] if len(sys.argv) > 1 else "/tmp/mut6/C14/compiler"
ANSI = re.compile(r"\x1b\[[0-9;]*m")

VALID = (
    "PROGRAM main\n"
    "  VAR\n"
    "    s : STRING := 'Grüße €';  (* café – ñ *)\n"
    "    x : INT;\n"
    "  END_VAR\n"
    "  x := 1; (* … *)\n"
    "END_PROGRAM\n"
)
# y is not declared: a semantic problem located after non-ASCII text
SEMANTIC = VALID.replace("  x := 1; (* … *)\n", "  (* é€ *) y := 1;\n")
# ¤ between tokens: a lexical problem located after non-ASCII text
LEXICAL = VALID.replace("  x := 1; (* … *)\n", "  (* é€ *) x := 1 ¤ 2;\n")

FIVE = {
    "utf8": lambda t: t.encode("utf-8"),
    "utf8-bom": lambda t: b"\xef\xbb\xbf" + t.encode("utf-8"),
    "utf16le-bom": lambda t: b"\xff\xfe" + t.encode("utf-16-le"),
    "utf16be-bom": lambda t: b"\xfe\xff" + t.encode("utf-16-be"),
    "windows-1252": lambda t: t.encode("cp1252"),
}
UTF32 = {
    "utf32le-bom": lambda t: b"\xff\xfe\x00\x00" + t.encode("utf-32-le"),
    "utf32be-bom": lambda t: b"\x00\x00\xfe\xff" + t.encode("utf-32-be"),
}


def build():
    env = dict(os.environ, CARGO_NET_OFFLINE="true")
    subprocess.run(
        ["cargo", "build", "-q", "-p", "ironplcc", "--offline"],
        cwd=WS, env=env, check=True,
    )
    return os.path.join(WS, "target", "debug", "ironplcc")


def run(binary, tmp, name, data):
    """Returns (exit status, stdout, [codes], [(line, col)], stderr)."""
    path = os.path.join(tmp, name)
    with open(path, "wb") as f:
        f.write(data)
    env = dict(os.environ, TMPDIR=tmp)
    p = subprocess.run([binary, "check", path], env=env, capture_output=True, timeout=60)
    err = ANSI.sub("", p.stderr.decode("utf-8", "replace"))
    codes = re.findall(r"^error\[(P\d+)\]", err, re.M)
    pos = [(int(a), int(b)) for a, b in re.findall(r"┌─ .*:(\d+):(\d+)$", err, re.M)]
    return p.returncode, p.stdout.decode("utf-8", "replace").strip(), codes, pos, err


def cp1252_whatwg(data):
    out = []
    for b in data:
        try:
            out.append(bytes([b]).decode("cp1252"))
        except UnicodeDecodeError:
            out.append(chr(b))
    return "".join(out)


def strict(data, enc):
    try:
        return data.decode(enc)
    except UnicodeDecodeError:
        return None


def candidate_texts(data):
    """The texts a decoder may decode the bytes to (None: not decodable).

    The demonstration must run on the tree with and without the change, so a
    position is accepted when it lies inside one of them.
    """
    texts = []
    if len(data) >= 4 and data[:4] in (b"\xff\xfe\x00\x00", b"\x00\x00\xfe\xff"):
        enc = "utf-32-le" if data[0] == 0xFF else "utf-32-be"
        texts.append(strict(data[4:], enc))
    if data[:3] == b"\xef\xbb\xbf":
        texts.append(strict(data[3:], "utf-8"))
    elif data[:2] == b"\xff\xfe":
        texts.append(strict(data[2:], "utf-16-le"))
    elif data[:2] == b"\xfe\xff":
        texts.append(strict(data[2:], "utf-16-be"))
    else:
        t = strict(data, "utf-8")
        texts.append(t if t is not None else cp1252_whatwg(data))
    return texts


def inside(text, line, col):
    if (line, col) == (1, 1):
        return True  # start of any text, also of no text
    if text is None:
        return False
    lines = text.split("\n")
    return 1 <= line <= len(lines) and 1 <= col <= len(lines[line - 1]) + 1


def main():
    binary = build()
    tmp = tempfile.mkdtemp(prefix="c14-demo-a-")
    ok = True
    try:
        print("== 1a. same program, five encodings: verdict / codes / line:col")
        for label, text in (("valid", VALID), ("semantic", SEMANTIC), ("lexical", LEXICAL)):
            results = {}
            for enc, f in FIVE.items():
                rc, out, codes, pos, _ = run(binary, tmp, "%s-%s.st" % (label, enc), f(text))
                results[enc] = (rc, out, codes, pos)
                print("  %-9s %-13s rc=%d stdout=%r codes=%s pos=%s" % (label, enc, rc, out, codes, pos))
            if len({repr(v) for v in results.values()}) != 1:
                print("  MISMATCH between encodings for", label)
                ok = False
            if label == "valid" and results["utf8"][:2] != (0, "OK"):
                ok = False
            if label != "valid" and (results["utf8"][0] != 1 or not results["utf8"][2]):
                ok = False

        print("== 2. the same programs stored as UTF-32 with byte-order mark (differs before/after)")
        for label, text in (("valid", VALID), ("semantic", SEMANTIC), ("lexical", LEXICAL)):
            for enc, f in UTF32.items():
                rc, out, codes, pos, _ = run(binary, tmp, "%s-%s.st" % (label, enc), f(text))
                print("  %-9s %-13s rc=%d stdout=%r codes=%s pos=%s" % (label, enc, rc, out, codes, pos))

        print("== 1b. arbitrary bytes: verdict, no crash, positions inside the decoded text")
        rnd = random.Random(14)
        samples = {
            "u32le-valid": UTF32["utf32le-bom"](LEXICAL),
            "u32be-valid": UTF32["utf32be-bom"](SEMANTIC),
            "u32le-odd-length": UTF32["utf32le-bom"](VALID) + b"\x41\x00",
            "u32le-surrogate": b"\xff\xfe\x00\x00" + "A".encode("utf-32-le") + b"\x00\xd8\x00\x00",
            "u32be-too-large": b"\x00\x00\xfe\xff" + b"\x00\x11\x00\x00",
            "u32le-bom-only": b"\xff\xfe\x00\x00",
            "u32be-bom-only": b"\x00\x00\xfe\xff",
            "u16le-starts-with-nul": b"\xff\xfe\x00\x00" + "x := 1;".encode("utf-16-le"),
        }
        for i in range(60):
            head = rnd.choice([b"\xff\xfe\x00\x00", b"\x00\x00\xfe\xff", b""])
            body = bytes(rnd.randrange(256) for _ in range(rnd.randrange(0, 64)))
            if rnd.random() < 0.5:
                # well-formed UTF-32 units
                units = [rnd.choice([rnd.randrange(0, 0xD800), rnd.randrange(0xE000, 0x110000), 0x20, 0x41]) for _ in range(rnd.randrange(0, 24))]
                body = b"".join(u.to_bytes(4, "little" if head[:1] == b"\xff" else "big") for u in units)
            samples["random-%02d" % i] = head + body
        crashes = 0
        outside = 0
        for name, data in samples.items():
            rc, out, codes, pos, err = run(binary, tmp, name + ".st", data)
            texts = candidate_texts(data)
            bad = [p for p in pos if not any(inside(t, *p) for t in texts)]
            verdict = (rc == 0 and out == "OK") or (rc == 1 and len(codes) > 0)
            if not verdict or "panicked" in err:
                crashes += 1
            if bad:
                outside += 1
            if not name.startswith("random") or bad or not verdict:
                print("  %-22s rc=%d stdout=%r codes=%s pos=%s%s" % (name, rc, out, codes, pos, " OUTSIDE " + repr(bad) if bad else ""))
        print("  %d files, %d without a verdict, %d with a position outside the text" % (len(samples), crashes, outside))
        if crashes or outside:
            ok = False
    finally:
        shutil.rmtree(tmp, ignore_errors=True)
    print("RESULT:", "stated observables hold" if ok else "VIOLATION")
    return 0 if ok else 1


if __name__ == "__main__":
    sys.exit(main())
