#!/usr/bin/env python3
"""Change A: diagnostics name files relative to the working directory.

usage: demo.py <compiler workspace dir>      (binary: $1/target/debug/ironplcc)

Prints how the file names in the diagnostics look, and checks the command
line contract (C13) around the changed behaviour. Exits 0 when the contract
holds on everything tried (with and without the change).
"""
import itertools
import os
import re
import shutil
import subprocess
import sys
import tempfile

ANSI = re.compile(r"\x1b\[[0-9;]*m")
CODED = re.compile(r"^(?:error|warning|bug|note|help)\[(P\d{4})\]", re.M)
NAME = re.compile(r"^\s*┌─ (.*):\d+:\d+$", re.M)

VALID_A = "FUNCTION_BLOCK FBA\nVAR\n  x : INT;\nEND_VAR\n  x := 1;\nEND_FUNCTION_BLOCK\n"
VALID_B = "FUNCTION_BLOCK FBB\nVAR\n  y : INT; (* Größe: ä ö ü, данные *)\nEND_VAR\n  y := 2;\nEND_FUNCTION_BLOCK\n"
SYNTAX = "FUNCTION_BLOCK FBS\nVAR\n  x : INT\nEND_VAR\n  x := 1;\nEND_FUNCTION_BLOCK\n"
SEMANTIC = "TYPE\n  LEVEL : (LOW, HIGH, LOW) := LOW; (* Stufe: niedrig, höher *)\nEND_TYPE\n"
BADTOKEN = "FUNCTION_BLOCK FBT\nVAR\n  x : INT;\nEND_VAR\n  x := 1 ? 2;\nEND_FUNCTION_BLOCK\n"

failures = []


def fail(msg):
    failures.append(msg)
    print("CONTRACT VIOLATED: " + msg)


class Tool:
    def __init__(self, binary, tmpdir):
        self.binary = binary
        self.env = dict(os.environ, TMPDIR=tmpdir, NO_COLOR="1")

    def run(self, action, args, cwd):
        p = subprocess.run([self.binary, action] + list(args), cwd=cwd, env=self.env,
                           stdout=subprocess.PIPE, stderr=subprocess.PIPE, timeout=120)
        out = p.stdout.decode("utf-8", "replace")
        err = ANSI.sub("", p.stderr.decode("utf-8", "replace"))
        return p.returncode, out, err


def has_ok_line(out):
    return any(line == "OK" for line in out.splitlines())


def check_contract(what, rc, out, err):
    """exit 0 and OK exactly when no diagnostic; else non-zero, >= 1 coded, no OK."""
    codes = CODED.findall(err)
    ok = has_ok_line(out)
    if rc < 0:
        fail("%s: killed by signal %d" % (what, -rc))
    if "panicked" in err:
        fail("%s: panic" % what)
    if rc == 0:
        if codes:
            fail("%s: exit 0 with diagnostics %s" % (what, codes))
        if not ok:
            fail("%s: exit 0 without OK" % what)
    else:
        if not codes:
            fail("%s: exit %d without a coded diagnostic" % (what, rc))
        if ok:
            fail("%s: exit %d and OK" % (what, rc))
    return sorted(codes)


def main():
    ws = os.path.abspath(sys.argv[1])
    binary = os.path.join(ws, "target", "debug", "ironplcc")
    root = os.path.realpath(tempfile.mkdtemp(prefix="c13a-"))
    try:
        tooltmp = os.path.join(root, "tmp")
        os.mkdir(tooltmp)
        tool = Tool(binary, tooltmp)

        work = os.path.join(root, "wörk")          # non-ASCII directory name
        good = os.path.join(work, "good")
        bad = os.path.join(work, "bad")
        mixed = os.path.join(work, "mixed")
        elsewhere = os.path.join(root, "elsewhere")
        for d in (good, bad, mixed, elsewhere):
            os.makedirs(d)

        def put(d, name, text):
            with open(os.path.join(d, name), "w", encoding="utf-8") as f:
                f.write(text)
            return os.path.join(d, name)

        put(good, "a.st", VALID_A)
        put(good, "größe.st", VALID_B)
        put(bad, "OK.st", SYNTAX)                   # a faulty file whose name is OK
        put(bad, "данные.st", SEMANTIC)
        put(mixed, "a.st", VALID_A)
        put(mixed, "zz.st", SYNTAX)
        # `wörk-2` has `wörk` as a textual (not a path) prefix
        sibling = os.path.join(root, "wörk-2")
        os.makedirs(sibling)
        put(sibling, "s.st", SYNTAX)

        # ---- visible difference -------------------------------------------
        print("== file names in diagnostics (check bad/OK.st from wörk/, from bad/, from elsewhere/)")
        for cwd, arg in ((work, os.path.join("bad", "OK.st")), (bad, "OK.st"),
                         (bad, "."), (elsewhere, os.path.join(bad, "OK.st")),
                         (work, os.path.join("..", "wörk-2", "s.st"))):
            rc, out, err = tool.run("check", [arg], cwd)
            print("  cwd=%-28s arg=%-22s exit=%d names=%s" % (
                os.path.relpath(cwd, root), os.path.relpath(arg, root) if os.path.isabs(arg) else arg,
                rc, sorted(set(NAME.findall(err)))))
            check_contract("show %s" % arg, rc, out, err)

        # ---- check: files, directory, mixture, every order, several cwds ----
        print("== contract for check")
        n = 0
        for d, expect_ok in ((good, True), (bad, False), (mixed, False)):
            names = sorted(os.listdir(d))
            for cwd in (d, work, elsewhere, root):
                def spell(p):
                    # relative spelling where possible, absolute otherwise
                    return os.path.relpath(p, cwd)
                dir_args = [[spell(d)], [d], [os.path.join(spell(d), "")]]
                file_orders = [list(o) for o in itertools.permutations(names)]
                results = []
                for args in dir_args:
                    rc, out, err = tool.run("check", args, cwd)
                    codes = check_contract("check %s in %s" % (args, cwd), rc, out, err)
                    results.append((rc == 0, codes))
                    n += 1
                for order in file_orders:
                    for absolute in (False, True):
                        args = [os.path.join(d, f) if absolute else spell(os.path.join(d, f)) for f in order]
                        rc, out, err = tool.run("check", args, cwd)
                        codes = check_contract("check %s in %s" % (args, cwd), rc, out, err)
                        results.append((rc == 0, codes))
                        n += 1
                if len(set((ok, tuple(c)) for ok, c in results)) != 1:
                    fail("directory %s and its files disagree from %s: %s" % (d, cwd, results))
                if results[0][0] != expect_ok:
                    fail("%s: expected ok=%s" % (d, expect_ok))
        # mixture of a directory and a file, both orders
        for cwd in (work, elsewhere):
            for args in ([good, os.path.join(bad, "OK.st")], [os.path.join(bad, "OK.st"), good]):
                args = [os.path.relpath(a, cwd) for a in args]
                rc, out, err = tool.run("check", args, cwd)
                codes = check_contract("check %s" % args, rc, out, err)
                if rc == 0 or "P0002" not in codes:
                    fail("mixture %s: rc=%d codes=%s" % (args, rc, codes))
                n += 1
        print("  %d runs" % n)

        # ---- missing and unreadable paths ------------------------------------
        print("== missing / unreadable")
        for cwd in (work, bad, elsewhere):
            for args in (["nope.st"], [os.path.join(work, "nope")], [os.path.relpath(good, cwd), "nope.st"],
                         ["nope.st", os.path.relpath(good, cwd)]):
                rc, out, err = tool.run("check", args, cwd)
                check_contract("check %s" % args, rc, out, err)
                if rc == 0:
                    fail("missing path accepted: %s" % args)
        locked = put(work, "locked.st", VALID_A)
        lockdir = os.path.join(work, "lockdir")
        os.mkdir(lockdir)
        put(lockdir, "a.st", VALID_A)
        os.chmod(locked, 0)
        os.chmod(lockdir, 0)
        try:
            for cwd, args in ((work, ["locked.st"]), (work, ["lockdir"]), (elsewhere, [locked]), (elsewhere, [lockdir])):
                rc, out, err = tool.run("check", args, cwd)
                check_contract("check %s (no permission)" % args, rc, out, err)
                print("  cwd=%-10s %s exit=%d names=%s" % (os.path.basename(cwd), [os.path.basename(a) for a in args],
                                                       rc, sorted(set(NAME.findall(err)))))
        finally:
            os.chmod(locked, 0o644)
            os.chmod(lockdir, 0o755)
        os.remove(locked)
        shutil.rmtree(lockdir)

        # ---- the working directory is removed while in use --------------------
        gone = os.path.join(root, "gone")
        os.mkdir(gone)
        p = subprocess.Popen(["sh", "-c", 'rmdir "$1"; exec "$2" check "$3"', "sh", gone, binary,
                              os.path.join(bad, "OK.st")], cwd=gone, env=tool.env,
                             stdout=subprocess.PIPE, stderr=subprocess.PIPE)
        out, err = p.communicate(timeout=120)
        err = ANSI.sub("", err.decode("utf-8", "replace"))
        check_contract("check from a removed working directory", p.returncode, out.decode(), err)
        print("== removed working directory: exit=%d names=%s" % (p.returncode, sorted(set(NAME.findall(err)))))

        # ---- files change between runs -----------------------------------------
        print("== file repaired and broken again between runs")
        target = os.path.join(mixed, "zz.st")
        for text, expect_ok in ((VALID_B, True), (SYNTAX, False), (SEMANTIC, False), (VALID_B, True)):
            put(mixed, "zz.st", text)
            for cwd, arg in ((mixed, "."), (work, "mixed"), (elsewhere, mixed)):
                rc, out, err = tool.run("check", [arg], cwd)
                check_contract("check %s after edit" % arg, rc, out, err)
                if (rc == 0) != expect_ok:
                    fail("stale answer for %s from %s: exit %d" % (target, cwd, rc))
        put(mixed, "zz.st", SYNTAX)

        # ---- echo / tokenize ------------------------------------------------
        print("== echo / tokenize")
        put(mixed, "tok.st", BADTOKEN)
        cases = (  # (files, parses, tokenizes)
            ([os.path.join(good, "a.st"), os.path.join(good, "größe.st")], True, True),
            ([os.path.join(bad, "данные.st")], True, True),
            ([os.path.join(bad, "OK.st")], False, True),
            ([os.path.join(good, "a.st"), os.path.join(bad, "OK.st")], False, True),
            ([os.path.join(mixed, "tok.st"), os.path.join(good, "a.st")], False, False),
        )
        for files, parses, tokenizes in cases:
            for cwd in (work, elsewhere):
                for order in itertools.permutations(files):
                    args = [os.path.relpath(f, cwd) for f in order]
                    rc, out, err = tool.run("echo", args, cwd)
                    if (rc == 0) != parses:
                        fail("echo %s: exit %d, parses=%s" % (args, rc, parses))
                    if rc != 0 and not CODED.findall(err):
                        fail("echo %s: failure without a coded diagnostic" % args)
                    rc, out, err = tool.run("tokenize", args, cwd)
                    if (rc == 0) != tokenizes:
                        fail("tokenize %s: exit %d, tokenizes=%s" % (args, rc, tokenizes))
                    if rc != 0 and not CODED.findall(err):
                        fail("tokenize %s: failure without a coded diagnostic" % args)
    finally:
        shutil.rmtree(root, ignore_errors=True)

    if failures:
        print("%d violation(s)" % len(failures))
        return 1
    print("contract holds on everything tried")
    return 0


if __name__ == "__main__":
    sys.exit(main())
