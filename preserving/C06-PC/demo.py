#!/usr/bin/env python3
"""Demo for change C (see README.md). Usage: demo.py [COMPILER_WORKSPACE]"""
# ---------------------------------------------------------------------------
# Small harness shared (by copy) between the three demos.
# ---------------------------------------------------------------------------
import itertools
import os
import re
import shutil
import subprocess
import sys
import tempfile

ANSI = re.compile(r"\x1b\[[0-9;]*m")


def build(workspace):
    env = dict(os.environ, CARGO_NET_OFFLINE="true")
    subprocess.run(
        ["cargo", "build", "--offline", "-q", "-p", "ironplcc"],
        cwd=workspace, env=env, check=True,
    )
    return os.path.join(workspace, "target", "debug", "ironplcc")


class Layout:
    """A set of files made from declarations; remembers where each one went."""

    def __init__(self, root, decls, chunks, names=("a.st", "b.st", "c.st")):
        # decls: dict name -> text ; chunks: list of lists of decl names
        self.root = root
        self.where = {}  # path -> list of (first_line, last_line, decl_name)
        self.paths = []
        for name, chunk in zip(names, chunks):
            path = os.path.join(root, name)
            line = 1
            spans = []
            with open(path, "w") as f:
                for d in chunk:
                    text = decls[d].strip("\n") + "\n"
                    n = text.count("\n")
                    spans.append((line, line + n - 1, d))
                    f.write(text)
                    line += n
            self.where[os.path.realpath(path)] = spans
            self.paths.append(path)

    def normalise(self, path, line, col):
        """(file, line, col) -> (declaration, line within declaration, col)."""
        for first, last, d in self.where.get(os.path.realpath(path), []):
            if first <= line <= last:
                return (d, line - first + 1, col)
        return (os.path.basename(path), line, col)


HEAD_RE = re.compile(r"^error\[(P\d+)\]: (.*)$")
LOC_RE = re.compile(r"^\s*┌─ (.*):(\d+):(\d+)$")


def check(binary, args, layout=None):
    """Runs `ironplcc check ARGS`. Returns (verdict, diagnostics, stdout, stderr)
    where verdict is 'OK' or 'ERROR' and a diagnostic is (code, location, message)."""
    p = subprocess.run([binary, "check"] + list(args), capture_output=True, text=True)
    err = ANSI.sub("", p.stderr)
    out = p.stdout
    ok = p.returncode == 0
    # The two ways the verdict is shown must agree.
    assert ok == (out.splitlines()[:1] == ["OK"]), (p.returncode, out, err)
    diags = []
    cur = None
    for ln in err.splitlines():
        m = HEAD_RE.match(ln)
        if m:
            cur = [m.group(1), None, m.group(2)]
            diags.append(cur)
            continue
        m = LOC_RE.match(ln)
        if m and cur is not None and cur[1] is None:
            path, line, col = m.group(1), int(m.group(2)), int(m.group(3))
            cur[1] = layout.normalise(path, line, col) if layout else (path, line, col)
    return ("OK" if ok else "ERROR", [tuple(d) for d in diags], out, err)


def splits(seq, max_files=3):
    """All ways to cut seq into 1..max_files non-empty contiguous chunks."""
    n = len(seq)
    for k in range(1, min(max_files, n) + 1):
        for cuts in itertools.combinations(range(1, n), k - 1):
            b = (0,) + cuts + (n,)
            yield [list(seq[b[i]:b[i + 1]]) for i in range(k)]


def configurations(decl_names, max_files=3):
    """All permutations x all contiguous splits into <=3 files x all argument
    orders (together: every distribution of the declarations over <=3 files, in
    every order inside each file, named in every order)."""
    for perm in itertools.permutations(decl_names):
        for chunks in splits(perm, max_files):
            for order in itertools.permutations(range(len(chunks))):
                yield perm, chunks, order


def sweep(binary, decls, runs_per_config=1, also_directory=True, limit=None):
    """Runs check over all configurations. Yields (description, verdict, diags, out, err)."""
    names = list(decls)
    count = 0
    for perm, chunks, order in configurations(names):
        root = tempfile.mkdtemp(prefix="c06demo.")
        try:
            lay = Layout(root, decls, chunks)
            args = [lay.paths[i] for i in order]
            desc = " | ".join(",".join(c) for c in chunks) + "  args=" + \
                " ".join(os.path.basename(a) for a in args)
            for _ in range(runs_per_config):
                v, d, out, err = check(binary, args, lay)
                yield desc, v, d, out, err
            if also_directory and order == tuple(range(len(chunks))):
                v, d, out, err = check(binary, [root], lay)
                yield desc + " (as directory)", v, d, out, err
        finally:
            shutil.rmtree(root)
        count += 1
        if limit and count >= limit:
            return

# ---------------------------------------------------------------------------
# Demo for change C
# ---------------------------------------------------------------------------
CONFIG = """
CONFIGURATION config
  VAR_GLOBAL CONSTANT
    Limit : INT := 17;
  END_VAR
  RESOURCE res ON PLC
    TASK plc_task(INTERVAL := T#100ms, PRIORITY := 1);
    PROGRAM inst WITH plc_task : main;
  END_RESOURCE
END_CONFIGURATION
"""
MAIN = """
PROGRAM main
  VAR
    first : Alpha;
  END_VAR
END_PROGRAM
"""
ALPHA = """
FUNCTION_BLOCK Alpha
  VAR
    level : %s;
  END_VAR
END_FUNCTION_BLOCK
"""
LEVEL = """
TYPE
  LEVEL : (LOW, HIGH) := LOW;
END_TYPE
"""


def unit(alpha_type="LEVEL"):
    return {"config": CONFIG, "main": MAIN, "Alpha": ALPHA % alpha_type, "LEVEL": LEVEL}


def summary_lines(err):
    return [ln for ln in err.splitlines() if ln.startswith("Checked ")]


def main():
    workspace = sys.argv[1] if len(sys.argv) > 1 else "/tmp/mut4/C06/compiler"
    binary = build(workspace)
    ok = True
    summaries = set()

    print("== unit without fault: verdict must be OK (exit status 0, standard output 'OK') everywhere")
    verdicts, stdouts, stderrs = set(), set(), set()
    n = 0
    for desc, v, d, out, err in sweep(binary, unit()):
        verdicts.add(v)
        stdouts.add(out)
        stderrs.add(re.sub(r"c06demo\.\w+", "c06demo.X", err))
        summaries.update(summary_lines(err))
        n += 1
    print("   %d checks, verdicts seen: %s, standard outputs seen: %s" % (n, sorted(verdicts), sorted(stdouts)))
    print("   distinct standard error texts seen: %d, for example:" % len(stderrs))
    for s in sorted(stderrs)[:6]:
        print("      | " + repr(s))
    ok &= verdicts == {"OK"} and stdouts == {"OK\n"}

    print("== unit with ONE fault (unknown type in Alpha): verdict, code and location must not vary")
    seen = set()
    lines = set()
    n = 0
    for desc, v, d, out, err in sweep(binary, unit("MISSING")):
        seen.add((v, tuple((code, loc) for code, loc, _ in d)))
        lines.update(summary_lines(err))
        n += 1
    summaries.update(lines)
    print("   %d checks, distinct (verdict, [(code, location)]) seen: %d" % (n, len(seen)))
    for s in sorted(seen):
        print("     ", s)
    print("   distinct summary lines seen: %d, for example:" % len(lines))
    for s in sorted(lines)[:6]:
        print("      | " + s)
    ok &= seen == {("ERROR", (("P0022", ("Alpha", 3, 13)),))}

    print("== the same three files, named in the same order, checked 30 times (fresh hash seeds)")
    root = tempfile.mkdtemp(prefix="c06demo.")
    try:
        lay = Layout(root, unit(), [["config"], ["main", "LEVEL"], ["Alpha"]])
        results = set()
        lines = set()
        for _ in range(30):
            v, d, out, err = check(binary, lay.paths, lay)
            results.add((v, out, tuple(d)))
            lines.update(summary_lines(err))
    finally:
        shutil.rmtree(root)
    summaries.update(lines)
    print("   distinct (verdict, standard output, diagnostics): %s" % sorted(results))
    print("   distinct summary lines on standard error: %d" % len(lines))
    for s in sorted(lines):
        print("      | " + s)
    ok &= results == {("OK", "OK\n", ())}

    if not summaries:
        print("BEHAVIOUR: baseline (nothing but diagnostics on standard error)")
    else:
        print("BEHAVIOUR: change C (summary line on standard error; it names the files in the "
              "iteration order of the project, which differs from run to run)")

    print("PROPERTY C06 OBSERVABLES HOLD" if ok else "PROPERTY C06 OBSERVABLES VIOLATED")
    sys.exit(0 if ok else 1)


if __name__ == "__main__":
    main()
